"""C07 — kinematics and Jacobians are consistent with positions."""
import math
import framework as F

META = {
    "id": "C07", "category": "proof", "design_ref": "DESIGN.md section 4, C07",
    "technique": "Coq proofs over R (Coquelicot derivatives) of a Gallina model of mj_kinematics / mj_local2Global / the cdof part of mj_comPos / mj_jac / mj_integratePos / mj_differentiatePos (Model/Kinematics.v, generic over Lib/Num, built on the C24 rotation model) + float correspondence of that model with the working tree on generated kinematic trees + finite-difference oracle on implementation outputs",
    "text": "filled in below",
    "note": "filled in below",
    "assumptions": [
        "theorems are about exact real arithmetic; IEEE rounding is outside every theorem (the model is run at binary64 only for the tie, tolerance 2^-30 scaled)",
        "hand-written model Model/Kinematics.v; array addressing (jnt_qposadr, body_jntadr, dof_parentid, body_weldid) is abstracted into a list-of-bodies tree; tie is differential testing on the generated trees of this run",
        "sin/cos/atan2 of the float runs come from the unverified Lib/FloatFn.v (executable side only)",
    ],
}
META["text"] = (
    "Proved in Coq over the reals about the model Model/Kinematics.v: "
    "(frames) C07_frames_any: for EVERY tree and input (no hypothesis) on which mj_kinematics1 does not raise mjERROR, each body's xmat is quat2Mat of its xquat, xmat xmat^T = |xquat|^4 I, det = |xquat|^6 and | |xquat| - 1 | <= mjMINVAL "
    "(the code normalises: the free-joint quaternion when read, every ball-joint quaternion, the mocap quaternion, and xquat once more at the end of every body; body_quat, jnt_axis are NOT normalised at run time); "
    "C07_frames: when body_quat, ball/free/mocap quaternions are unit and hinge axes are unit, every xquat is exactly unit, xmat = quat2Mat xquat is orthonormal (both products) with determinant 1, and the same holds for "
    "every frame produced by mj_local2Global (inertial, geom, site, fixed camera) for unit local quaternions (C07_local2Global); C07_kinematics_defined: the recursion raises no error on a well-formed tree (parent index < own index, free joints alone on their body). "
    "(configuration maps) C07_diff_integrate: for every joint-type list and well-sized qpos/qvel with unit quaternions, differentiatePos(q, integratePos(q,v,h), h) = v exactly for slide/hinge coordinates and for ball/free coordinates under the principal-angle condition "
    "|h||w| <= pi with no mjMINVAL guard firing (inherited from C24's sub/integrate lemma). "
    "(Jacobian) C07_jac_column_algebra: the column that mj_comPos + mj_jac write for a hinge is xaxis x (point - xanchor) and xaxis for the rotation part, for a slide xaxis and 0, for ANY subtree_com used consistently (the com cancels); "
    "C07_jac_column_partial: for a hinge or slide joint anywhere in a serial chain (any number of further hinge/slide/ball joints, body ends and child-body offsets between the joint and the point, unit quaternions/axes) "
    "that column is the derivative (Coquelicot is_derive, componentwise) of the world position of a body-fixed point with respect to that joint's coordinate, and (same theorem) the rotation column is the angular velocity (d/dq of xmat u = xaxis x xmat u for every u). "
    "C07_tree_body_is_chain: in ANY tree the frame of every regular body (not free-floating, not mocap, parent not the world) is exactly such a chain segment (child offset, its joints, end of body) applied to the frame of its parent. "
    "C07_eq_poly_row (constraint rows): for joint / tendon equalities with a quartic coupling polynomial the row jac0 - deriv*jac1 written into efc_J is, entry by entry, the derivative of efc_pos = pos0 - ref0 - c0 - poly(pos1 - ref1) whenever the object rows are the derivatives of the object positions (all coefficients, all sizes; tied on every run to efc_pos / efc_J of generated and fixed-corpus equalities). "
    "C07_ball_limit_row_columns: the dense limit row of a ball joint carries minus the rotation axis at the columns jnt_dofadr..+2 of the joint's dofs and zeros elsewhere (tied to efc_pos / efc_J of every active ball limit of the run). "
    "Partial / not proved: the statement about a general tree as a function of one joint coordinate (that the state before the joint and all non-descendants do not depend on it, and the composition of the segments along the ancestor path); ball/free Jacobian columns, mj_jacDot, mj_jacSubtreeCom, object velocities and constraint rows have no theorem (oracle only). "
    "Tie: on every run the model is evaluated at binary64 inside Coq on the tree parameters exported from the compiled mjModel (body_parentid, body_pos, body_quat, mocap pose, jnt_type, jnt_pos, jnt_axis, qpos, qpos0, inertial/geom/site/camera offsets and sameframe codes) "
    "and compared with xpos, xquat, xmat, xanchor, xaxis, xipos, ximat, geom/site/cam frames, mj_jac columns (all dofs, all bodies), mj_integratePos and mj_differentiatePos of the working tree. "
    "Oracle on implementation output: rotation checks (1e-10) for body/inertial/geom/site/camera frames; mj_jac, mj_jacBody, mj_jacBodyCom, mj_jacSubtreeCom, mj_jacGeom, mj_jacSite, mj_jacSparse, mj_jacPointAxis (and camera points) against central finite differences over mj_integratePos perturbations; "
    "object velocities (mj_objectVelocity for xbody, body, geom, site, camera, world and local orientation) and cvel against J qvel and, independently of every Jacobian, against the finite difference of the object's position and orientation along qvel - on objects attached to jointless links too; mj_jacDot against the finite difference of J along qvel; constraint rows of efc_J of every kind (dense, and the sparse rows densified, which must agree row by row) in models where free / ball joints precede the constrained joints (qpos address != dof address): equality rows, ACTIVE limits of ball / hinge / slide joints and tendons and sphere-plane contact normals against finite differences of efc_pos, friction-loss rows against the unit dof vector / ten_J (itself against finite differences of ten_length), with joint and tendon equalities (one and two objects) whose coupling polynomial takes every zero/non-zero combination of its five coefficients; on a corpus of 'simple' bodies (the fast sparse paths mj_jacSparseSimple / mj_mergeChainSimple: leaves of every joint kind on static mounts with their own mass, mixed with deliberately non-simple leaves, connect / weld equalities between them) the same row oracle plus mj_jacDifPair (sparse and dense) against central differences of p2 - p1 and mj_jacSum (sparse and dense) against the weighted sum of mj_jac.")
META["note"] = ("Trusted: Coq kernel + the standard-library real-number axioms listed in trusted_base; hand-written models Model/Kinematics.v and Model/Spatial.v; Lib/FloatFn.v (executable side); "
                "correspondence harness (gcc, driver c07_kin.c, generator mjgen.h).")

TOL = "0x1p-30"

FEAT = {"FREE": 1, "BALL": 2, "SLIDE": 4, "CONTACT": 8, "EQUALITY": 16, "TENDON": 32, "LIMIT": 1 << 10, "MOCAP": 1 << 9,
        "MULTITREE": 1 << 15, "SITE": 1 << 16, "SPRING": 1 << 12,
        "FIXED": 1 << 20}      # handled by c07_kin.c, not by mjgen.h: jointless bodies (fixed links, chains of them, static bodies) with geoms / sites / cameras


# ------------------------------------------------------------------------------------- parsing
def parse_blocks(out):
    blocks, cur = [], {}
    for line in out.split("\n"):
        if not line:
            continue
        if line == "END":
            blocks.append(cur)
            cur = {}
            continue
        toks = line.split()
        name, vals = toks[0], toks[1:]
        if name == "ERR":
            cur["ERR"] = " ".join(vals)
            continue
        if vals and all(("x" not in t and "n" not in t) for t in vals):
            cur[name] = [int(t) for t in vals]
        else:
            cur[name] = [float.fromhex(t) for t in vals]
    return blocks


def chunks(l, n):
    return [l[i:i + n] for i in range(0, len(l), n)]


# ------------------------------------------------------------------------------------- small linear algebra
def matvec(m, v):
    return [m[0] * v[0] + m[1] * v[1] + m[2] * v[2], m[3] * v[0] + m[4] * v[1] + m[5] * v[2], m[6] * v[0] + m[7] * v[1] + m[8] * v[2]]


def matmul(a, b):
    return [sum(a[3 * i + k] * b[3 * k + j] for k in range(3)) for i in range(3) for j in range(3)]


def transpose(a):
    return [a[3 * j + i] for i in range(3) for j in range(3)]


def det(m):
    return m[0] * (m[4] * m[8] - m[5] * m[7]) - m[1] * (m[3] * m[8] - m[5] * m[6]) + m[2] * (m[3] * m[7] - m[4] * m[6])


def cross(a, b):
    return [a[1] * b[2] - a[2] * b[1], a[2] * b[0] - a[0] * b[2], a[0] * b[1] - a[1] * b[0]]


def quat2mat(q):
    q0, q1, q2, q3 = q
    return [q0 * q0 + q1 * q1 - q2 * q2 - q3 * q3, 2 * (q1 * q2 - q0 * q3), 2 * (q1 * q3 + q0 * q2),
            2 * (q1 * q2 + q0 * q3), q0 * q0 - q1 * q1 + q2 * q2 - q3 * q3, 2 * (q2 * q3 - q0 * q1),
            2 * (q1 * q3 - q0 * q2), 2 * (q2 * q3 + q0 * q1), q0 * q0 - q1 * q1 - q2 * q2 + q3 * q3]


EYE = [1.0, 0, 0, 0, 1.0, 0, 0, 0, 1.0]


def maxdiff(a, b):
    return max([abs(x - y) for x, y in zip(a, b)] + [0.0])


def col(J, nv, k):
    return [J[k], J[nv + k], J[2 * nv + k]]


def jdot(J, nv, v):
    return [sum(J[r * nv + i] * v[i] for i in range(nv)) for r in range(3)]


def rotvel(Rp, Rm, h):
    """angular displacement / h between two rotation matrices (world frame): vee(Rp Rm^T - Rm Rp^T) / 2 / h"""
    A = matmul(Rp, transpose(Rm))
    return [(A[7] - A[5]) / 2 / h, (A[2] - A[6]) / 2 / h, (A[3] - A[1]) / 2 / h]


# ------------------------------------------------------------------------------------- Coq case construction
def coq_pre():
    return "\n".join([
        "Definition g (l : list float) (i : nat) : float := nth i l 0%float.",
        "Definition V (l : list float) (i : nat) : vec3 float := (g l i, g l (i+1), g l (i+2)).",
        "Definition Q (l : list float) (i : nat) : quat float := (g l i, g l (i+1), g l (i+2), g l (i+3)).",
        "Definition mkJ (t : Z) (l q : list float) : joint float := mkJoint (jtype_of_Z t) (V l 0) (V l 3) q (g l 6).",
        "Definition mkB (par : nat) (l mocap : list float) (js : list (joint float)) : body float :=",
        "  mkBody par (V l 0) (Q l 3) (match mocap with [] => None | _ => Some (V mocap 0, Q mocap 3) end) js.",
        "Definition fr2l (f : frame float) : list float := let '(p, q, m) := f in v2l p ++ q2l q ++ m2l m.",
        "Definition ja2l (ja : janchor float) : list float := v2l (fst ja) ++ v2l (snd ja).",
        "Definition pm2l (pm : vec3 float * mat3 float) : list float := v2l (fst pm) ++ m2l (snd pm).",
        "Definition idfr : vec3 float * mat3 float := (zero3, matId).",
        "Definition kin_out (bs : list (body float)) : list float :=",
        "  match kinematics bs with None => [] | Some (frs, jas) => flat_map fr2l frs ++ flat_map (flat_map ja2l) jas end.",
        "Definition l2g_out (bs : list (body float)) (inert : list (Z * list float)) (att : list (nat * Z * list float)) : list float :=",
        "  match kinematics bs with None => [] | Some (frs, _) =>",
        "    let ifr := map (fun p => inertialFrame (nth (fst p) frs worldFrame) (V (snd (snd p)) 0) (Q (snd (snd p)) 3) (fst (snd p)))",
        "                   (combine (seq 1 (length inert)) inert) in",
        "    flat_map pm2l ifr ++",
        "    flat_map (fun a => let '(b, sf, l) := a in",
        "                pm2l (local2Global (nth b frs worldFrame) (match b with O => idfr | S k => nth k ifr idfr end) (V l 0) (Q l 3) sf)) att end.",
        "Definition jac_out (bs : list (body float)) (coms : list float) (pts : list (nat * list float)) : list float :=",
        "  match kinematics bs with None => [] | Some (frs, jas) =>",
        "    let cl := map (fun i => V coms (3 * i)) (seq 0 (S (length bs))) in",
        "    flat_map (fun p => flat_map (fun c => v2l (fst c) ++ v2l (snd c)) (mj_jac bs frs jas cl (V (snd p) 0) (fst p))) pts end.",
        "Definition cdof_out (bs : list (body float)) (coms : list float) : list float :=",
        "  match kinematics bs with None => [] | Some (frs, jas) =>",
        "    let cl := map (fun i => V coms (3 * i)) (seq 0 (S (length bs))) in",
        "    flat_map (fun c => v2l (fst (snd c)) ++ v2l (snd (snd c))) (treeCdof 1 bs frs jas cl) end.",
        "Definition integ_out (tys : list Z) (a : list float) (nq nv : nat) : list float :=",
        "  let js := map jtype_of_Z tys in let qpos := firstn nq a in let qvel := firstn nv (skipn nq a) in",
        "  let dt := g a (nq + nv) in let qint := skipn (nq + nv + 1) a in",
        "  integratePos js qpos qvel dt ++ differentiatePos js dt qpos qint.",
        "Definition chk (c : Z * list (body float) * list float * list (Z * list float) * list (nat * Z * list float) * list (nat * list float) * list Z * (nat * nat) * list float) : bool :=",
        "  let '(kind, bs, a, inert, att, pts, tys, nn, expd) := c in",
        "  fclose_list %s" % TOL,
        "    (if (kind =? 0)%Z then kin_out bs else if (kind =? 1)%Z then l2g_out bs inert att",
        "     else if (kind =? 2)%Z then jac_out bs a pts else if (kind =? 3)%Z then cdof_out bs a else integ_out tys a (fst nn) (snd nn)) expd.",
    ]) + "\n"


def tree_literal(D):
    nbody = D["nbody"][0]
    bl = []
    for b in range(1, nbody):
        js = []
        for j in range(D["body_jntadr"][b], D["body_jntadr"][b] + D["body_jntnum"][b]) if D["body_jntnum"][b] else []:
            t = D["jnt_type"][j]
            n = {0: 7, 1: 4, 2: 1, 3: 1}[t]
            a = D["jnt_qposadr"][j]
            js.append("mkJ %d %s %s" % (t, F.flist(D["jnt_pos"][3 * j:3 * j + 3] + D["jnt_axis"][3 * j:3 * j + 3] + [D["qpos0"][a]]), F.flist(D["qpos"][a:a + n])))
        mid = D["body_mocapid"][b]
        moc = F.flist(D["mocap_pos"][3 * mid:3 * mid + 3] + D["mocap_quat"][4 * mid:4 * mid + 4]) if mid >= 0 else "[]"
        bl.append("mkB %d%%nat %s %s [%s]" % (D["body_parentid"][b], F.flist(D["body_pos"][3 * b:3 * b + 3] + D["body_quat"][4 * b:4 * b + 4]), moc, "; ".join(js)))
    return "[" + ";\n ".join(bl) + "]"


def k_cases(D):
    """Coq case literals (kind, descr) for one K block"""
    nbody, njnt, nv, nq = D["nbody"][0], D["njnt"][0], D["nv"][0], D["nq"][0]
    tree = tree_literal(D)
    out = []

    def case(kind, a="[]%float", inert="[]", att="[]", pts="[]", tys="[]%Z", nn="(0%nat, 0%nat)", exp=None, tr=tree):
        return "(%d%%Z, %s, %s, %s, %s, %s, %s, %s, %s)" % (kind, tr, a, inert, att, pts, tys, nn, F.flist(exp))
    # 0: body frames and joint anchors
    exp = []
    for b in range(nbody):
        exp += D["xpos"][3 * b:3 * b + 3] + D["xquat"][4 * b:4 * b + 4] + D["xmat"][9 * b:9 * b + 9]
    for j in range(njnt):
        exp += D["xanchor"][3 * j:3 * j + 3] + D["xaxis"][3 * j:3 * j + 3]
    out.append((case(0, exp=exp), "mj_kinematics1"))
    # 1: inertial, geom, site, camera frames
    inert = "[" + "; ".join("(%d%%Z, %s)" % (D["body_sameframe"][b], F.flist(D["body_ipos"][3 * b:3 * b + 3] + D["body_iquat"][4 * b:4 * b + 4])) for b in range(1, nbody)) + "]"
    exp, att = [], []
    for b in range(1, nbody):
        exp += D["xipos"][3 * b:3 * b + 3] + D["ximat"][9 * b:9 * b + 9]
    for pre, n, sfname in (("geom", D["ngeom"][0], "geom_sameframe"), ("site", D["nsite"][0], "site_sameframe"), ("cam", D["ncam"][0], None)):
        for i in range(n):
            if pre == "cam" and D["cam_mode"][i] != 0:
                continue
            sf = D[sfname][i] if sfname else 0
            att.append("(%d%%nat, %d%%Z, %s)" % (D[pre + "_bodyid"][i], sf, F.flist(D[pre + "_pos"][3 * i:3 * i + 3] + D[pre + "_quat"][4 * i:4 * i + 4])))
            exp += D[pre + "_xpos"][3 * i:3 * i + 3] + D[pre + "_xmat"][9 * i:9 * i + 9]
    out.append((case(1, inert=inert, att="[" + "; ".join(att) + "]", exp=exp), "mj_local2Global"))
    # 2: mj_jac for an attached point of every body; 3: cdof
    coms = []
    for b in range(nbody):
        r = D["body_rootid"][b]
        coms += D["subtree_com"][3 * r:3 * r + 3]
    pts, exp = [], []
    for b in range(nbody):
        pts.append("(%d%%nat, %s)" % (b, F.flist(D["jac_point_%d" % b])))
        jp, jr = D["jacp_%d" % b], D["jacr_%d" % b]
        for k in range(nv):
            exp += col(jp, nv, k) + col(jr, nv, k)
    out.append((case(2, a=F.flist(coms), pts="[" + "; ".join(pts) + "]", exp=exp), "mj_jac"))
    out.append((case(3, a=F.flist(coms), exp=D["cdof"]), "cdof (mj_comPos)"))
    # 4: mj_integratePos / mj_differentiatePos
    a = D["qpos"] + D["qvel"] + D["dt"] + D["qpos_int"]
    out.append((case(4, a=F.flist(a), tys=F.zlist(D["jnt_type"]), nn="(%d%%nat, %d%%nat)" % (nq, nv), exp=D["qpos_int"] + D["qvel_diff"], tr="[]"), "mj_integratePos/mj_differentiatePos"))
    return out


def eq_cases(D):
    """Coq case literals for the joint / tendon equality rows of one E / Q block: (inputs, efc_pos ++ dense efc_J row)"""
    out = []
    nv, nd = D["nv"][0], D["neqdata"][0]
    seen_e = set()
    for i in range(D["nefc"][0]):
        if D["efc_type"][i] != 0:
            continue
        e = D["efc_id"][i]
        if D["eq_type"][e] not in (2, 3) or e in seen_e:
            continue
        seen_e.add(e)
        c = D["eq_data"][nd * e:nd * e + 5]
        objs = []
        for o in (D["eq_obj1id"][e], D["eq_obj2id"][e]):
            if o < 0:
                objs.append(None)
            elif D["eq_type"][e] == 2:
                a = D["jnt_qposadr"][o]
                objs.append((D["qpos"][a], D["qpos0"][a], [1.0 if k == D["jnt_dofadr"][o] else 0.0 for k in range(nv)]))
            else:
                objs.append((D["ten_length"][o], D["tendon_length0"][o], D["ten_J"][o * nv:(o + 1) * nv]))
        exp = [D["efc_pos"][i]] + D["efc_J"][i * nv:(i + 1) * nv]
        if objs[1] is None:
            out.append("(false, %s, %s, []%%float, %s)" % (F.flist(c + [objs[0][0], objs[0][1], 0.0, 0.0]), F.flist(objs[0][2]), F.flist(exp)))
        else:
            out.append("(true, %s, %s, %s, %s)" % (F.flist(c + [objs[0][0], objs[0][1], objs[1][0], objs[1][1]]), F.flist(objs[0][2]), F.flist(objs[1][2]), F.flist(exp)))
    return out


def limit_cases(D):
    """Coq case literals for the ball-joint limit rows of one block: (nv, dofadr, quaternion ++ range, efc_pos ++ dense row)"""
    out = []
    nv = D["nv"][0]
    if "jnt_range" not in D:
        return out
    for i in range(D["nefc"][0]):
        if D["efc_type"][i] != 3 or D["jnt_type"][D["efc_id"][i]] != 1:
            continue
        j = D["efc_id"][i]
        a = D["jnt_qposadr"][j]
        out.append("(%d%%nat, %d%%nat, %s, %s)" % (nv, D["jnt_dofadr"][j], F.flist(D["qpos"][a:a + 4] + D["jnt_range"][2 * j:2 * j + 2]),
                                                  F.flist([D["efc_pos"][i]] + D["efc_J"][i * nv:(i + 1) * nv])))
    return out


LIM_PRE = "\n".join([
    "Definition g (l : list float) (i : nat) : float := nth i l 0%float.",
    "Definition chk (c : nat * nat * list float * list float) : bool :=",
    "  let '(nv, dofadr, a, expd) := c in",
    "  let q : quat float := (g a 0, g a 1, g a 2, g a 3) in",
    "  fclose_list %s (fst (ballLimit q (g a 4) (g a 5)) :: ballLimitRow nv dofadr q (g a 4) (g a 5)) expd." % TOL,
]) + "\n"


EQ_PRE = "\n".join([
    "Definition g (l : list float) (i : nat) : float := nth i l 0%float.",
    "Definition chk (c : bool * list float * list float * list float * list float) : bool :=",
    "  let '(two, a, j0, j1, expd) := c in",
    "  fclose_list %s" % TOL,
    "    (if two then eqPos (g a 0) (g a 1) (g a 2) (g a 3) (g a 4) (g a 5) (g a 6) (g a 7) (g a 8)",
    "                 :: eqRow j0 j1 (eqDeriv (g a 1) (g a 2) (g a 3) (g a 4) (g a 7) (g a 8))",
    "     else eqPos1 (g a 0) (g a 5) (g a 6) :: j0) expd.",
]) + "\n"


# ------------------------------------------------------------------------------------- oracles on implementation output
def rot_fail(m, tol=1e-10):
    if maxdiff(matmul(m, transpose(m)), EYE) > tol or maxdiff(matmul(transpose(m), m), EYE) > tol or abs(det(m) - 1) > tol:
        return True
    return False


def oracle_frames(D):
    """rotation checks on one block of frames; returns list of (law, index, observed)"""
    f = []
    nbody = D["nbody"][0]
    for b in range(nbody):
        q, m = D["xquat"][4 * b:4 * b + 4], D["xmat"][9 * b:9 * b + 9]
        if abs(math.sqrt(sum(x * x for x in q)) - 1) > 1e-10:
            f.append(("xquat is unit", b, q))
        if maxdiff(m, quat2mat(q)) > 1e-10:
            f.append(("xmat = quat2Mat(xquat)", b, m))
        if rot_fail(m):
            f.append(("xmat is a proper rotation", b, m))
        if rot_fail(D["ximat"][9 * b:9 * b + 9]):
            f.append(("ximat is a proper rotation", b, D["ximat"][9 * b:9 * b + 9]))
    for pre in ("geom", "site", "cam"):
        for i in range(D["n" + pre][0]):
            if rot_fail(D[pre + "_xmat"][9 * i:9 * i + 9]):
                f.append((pre + "_xmat is a proper rotation", i, D[pre + "_xmat"][9 * i:9 * i + 9]))
    for j in range(D["njnt"][0]):
        ax = D["xaxis"][3 * j:3 * j + 3]
        if D["jnt_type"][j] != 0 and abs(math.sqrt(sum(x * x for x in ax)) - 1) > 1e-10:
            f.append(("xaxis is unit", j, ax))
    return f


def oracle_local(D):
    """frames recomputed in python from the implementation's own xpos/xquat (independent of the Coq model):
    children from parents for jointless bodies, geoms/sites/cameras from their bodies"""
    f = []
    nbody = D["nbody"][0]
    for b in range(1, nbody):
        if D["body_jntnum"][b] == 0 and D["body_mocapid"][b] < 0:
            p = D["body_parentid"][b]
            exp = [x + y for x, y in zip(matvec(D["xmat"][9 * p:9 * p + 9], D["body_pos"][3 * b:3 * b + 3]), D["xpos"][3 * p:3 * p + 3])]
            if maxdiff(exp, D["xpos"][3 * b:3 * b + 3]) > 1e-10:
                f.append(("welded body: xpos = parent xmat * body_pos + parent xpos", b, D["xpos"][3 * b:3 * b + 3]))
    for pre in ("geom", "site", "cam"):
        for i in range(D["n" + pre][0]):
            if pre == "cam" and D["cam_mode"][i] != 0:
                continue
            b = D[pre + "_bodyid"][i]
            sf = D[pre + "_sameframe"][i] if pre != "cam" else 0
            if sf in (0, 3, 4):
                exp = [x + y for x, y in zip(matvec(D["xmat"][9 * b:9 * b + 9], D[pre + "_pos"][3 * i:3 * i + 3]), D["xpos"][3 * b:3 * b + 3])]
            elif sf == 1:
                exp = D["xpos"][3 * b:3 * b + 3]
            else:
                exp = D["xipos"][3 * b:3 * b + 3]
            if maxdiff(exp, D[pre + "_xpos"][3 * i:3 * i + 3]) > 1e-10:
                f.append((pre + "_xpos = body xmat * pos + body xpos", i, D[pre + "_xpos"][3 * i:3 * i + 3]))
            lq = D[pre + "_quat"][4 * i:4 * i + 4]
            lm = quat2mat(lq)
            if sf == 0:
                expm = matmul(D["xmat"][9 * b:9 * b + 9], lm)
            elif sf in (1, 3):
                expm = D["xmat"][9 * b:9 * b + 9]
            else:
                expm = D["ximat"][9 * b:9 * b + 9]
            if maxdiff(expm, D[pre + "_xmat"][9 * i:9 * i + 9]) > 1e-9:
                f.append((pre + "_xmat = body xmat * quat2Mat(quat)", i, D[pre + "_xmat"][9 * i:9 * i + 9]))
    # anchors: a hinge/ball anchor is a fixed point of the joint: xanchor = xpos + xmat * jnt_pos (last joint of the body exactly; all joints for rotations about the anchor)
    for j in range(D["njnt"][0]):
        b = D["jnt_bodyid"][j]
        last = (j == D["body_jntadr"][b] + D["body_jntnum"][b] - 1)
        if last and D["jnt_type"][j] in (1, 3):
            exp = [x + y for x, y in zip(matvec(D["xmat"][9 * b:9 * b + 9], D["jnt_pos"][3 * j:3 * j + 3]), D["xpos"][3 * b:3 * b + 3])]
            if maxdiff(exp, D["xanchor"][3 * j:3 * j + 3]) > 1e-10:
                f.append(("anchor of the last hinge/ball joint of a body = xpos + xmat * jnt_pos", j, D["xanchor"][3 * j:3 * j + 3]))
        if last and D["jnt_type"][j] == 3:
            exp = matvec(D["xmat"][9 * b:9 * b + 9], D["jnt_axis"][3 * j:3 * j + 3])
            if maxdiff(exp, D["xaxis"][3 * j:3 * j + 3]) > 1e-10:
                f.append(("axis of the last hinge joint of a body = xmat * jnt_axis", j, D["xaxis"][3 * j:3 * j + 3]))
    return f


def oracle_roundtrip(D):
    """mj_differentiatePos(qpos, mj_integratePos(qpos, qvel, dt), dt) = qvel  (|w| dt < pi by construction of the requests)"""
    v, w = D["qvel"], D["qvel_diff"]
    sc = 1 + max([abs(x) for x in v + w] + [0.0])
    if maxdiff(v, w) > 1e-9 * sc / min(1.0, abs(D["dt"][0])):
        return [("mj_differentiatePos inverts mj_integratePos", {"dt": D["dt"][0]}, v, w)]
    return []


FD_TOL = 2e-6
VEL_TOL = 1e-9
DOT_TOL = 1e-5


def oracle_jac(D):
    """all Jacobian kinds vs central finite differences; velocities; jacDot.  returns list of (law, detail, expected, observed)"""
    f = []
    nbody, nv = D["nbody"][0], D["nv"][0]
    if nv == 0:
        return f
    eps = D["eps"][0]
    qvel = D["qvel"]

    def fdpos(name, i, k):
        P, M = D["P%d_%s" % (k, name)], D["M%d_%s" % (k, name)]
        return [(P[3 * i + r] - M[3 * i + r]) / (2 * eps) for r in range(3)]

    def fdrot(name, i, k):
        P, M = D["P%d_%s" % (k, name)], D["M%d_%s" % (k, name)]
        return rotvel(P[9 * i:9 * i + 9], M[9 * i:9 * i + 9], 2 * eps)

    def pt(pre, b):
        loc = D["locs"][3 * b:3 * b + 3]
        return [x + y for x, y in zip(matvec(D[pre + "xmat"][9 * b:9 * b + 9], loc), D[pre + "xpos"][3 * b:3 * b + 3])]

    def cmp(law, idx, k, exp, obs):
        sc = 1 + max(abs(x) for x in exp + obs)
        if maxdiff(exp, obs) > FD_TOL * sc:
            f.append((law, {"index": idx, "dof": k}, exp, obs))

    kinds = []
    for b in range(nbody):
        kinds += [("mj_jacBody", b, "jacBody_p_%d" % b, "jacBody_r_%d" % b, "xpos", "xmat", b),
                  ("mj_jacBodyCom", b, "jacBodyCom_p_%d" % b, "jacBodyCom_r_%d" % b, "xipos", "ximat", b),
                  ("mj_jacSubtreeCom", b, "jacSubtreeCom_p_%d" % b, None, "subtree_com", None, b)]
    for g in range(D["ngeom"][0]):
        kinds.append(("mj_jacGeom", g, "jacGeom_p_%d" % g, "jacGeom_r_%d" % g, "geom_xpos", "geom_xmat", g))
    for s in range(D["nsite"][0]):
        kinds.append(("mj_jacSite", s, "jacSite_p_%d" % s, "jacSite_r_%d" % s, "site_xpos", "site_xmat", s))
    for c in range(D["ncam"][0]):
        if D["cam_mode"][c] == 0:
            kinds.append(("mj_jac(camera)", c, "jacCam_p_%d" % c, "jacCam_r_%d" % c, "cam_xpos", "cam_xmat", c))
    for (law, idx, jpn, jrn, posn, matn, i) in kinds:
        jp = D[jpn]
        for k in range(nv):
            cmp(law + " jacp column = d position / d q_k (central difference over mj_integratePos)", idx, k, fdpos(posn, i, k), col(jp, nv, k))
            if jrn:
                cmp(law + " jacr column = angular velocity of the frame per unit q_k", idx, k, fdrot(matn, i, k), col(D[jrn], nv, k))
    # generic attached point, sparse variant, point-axis variant
    for b in range(nbody):
        jp, jr = D["jac_p_%d" % b], D["jac_r_%d" % b]
        for k in range(nv):
            pp = pt("P%d_" % k, b)
            pm = pt("M%d_" % k, b)
            cmp("mj_jac jacp column = d point / d q_k", b, k, [(x - y) / (2 * eps) for x, y in zip(pp, pm)], col(jp, nv, k))
            cmp("mj_jac jacr column = angular velocity per unit q_k", b, k, fdrot("xmat", b, k), col(jr, nv, k))
            # axis = body z axis
            zp = [D["P%d_xmat" % k][9 * b + 2], D["P%d_xmat" % k][9 * b + 5], D["P%d_xmat" % k][9 * b + 8]]
            zm = [D["M%d_xmat" % k][9 * b + 2], D["M%d_xmat" % k][9 * b + 5], D["M%d_xmat" % k][9 * b + 8]]
            cmp("mj_jacPointAxis jacAxis column = d axis / d q_k", b, k, [(x - y) / (2 * eps) for x, y in zip(zp, zm)], col(D["jacPA_a_%d" % b], nv, k))
            cmp("mj_jacPointAxis jacPoint = mj_jac jacp", b, k, col(jp, nv, k), col(D["jacPA_p_%d" % b], nv, k))
        chain = D.get("chain_%d" % b, [])
        NV = len(chain)
        inchain = set(chain)
        for ci, k in enumerate(chain):
            cmp("mj_jacSparse column = mj_jac column of the chain dof", b, k, col(jp, nv, k) + col(jr, nv, k),
                col(D["jacSparse_p_%d" % b], NV, ci) + col(D["jacSparse_r_%d" % b], NV, ci))
        for k in range(nv):
            if k not in inchain and not D["body_parentid"][b] == 0 and max(abs(x) for x in col(jp, nv, k) + col(jr, nv, k)) > 0 and NV > 0:
                f.append(("mj_bodyChain contains every dof with a non-zero mj_jac column", {"index": b, "dof": k}, "dof in chain", chain))
    # velocities: J qvel, and the finite difference of positions along qvel
    def velcmp(law, idx, exp, obs, tol=VEL_TOL):
        sc = 1 + max(abs(x) for x in exp + obs)
        if maxdiff(exp, obs) > tol * sc:
            f.append((law, {"index": idx}, exp, obs))
    def local(R, wv):
        return matvec(transpose(R), wv[0:3]) + matvec(transpose(R), wv[3:6])
    for b in range(nbody):
        w = jdot(D["jacBody_r_%d" % b], nv, qvel)
        v = jdot(D["jacBody_p_%d" % b], nv, qvel)
        velcmp("mj_objectVelocity(XBODY) = [jacr; jacp] qvel", b, w + v, D["vel_xbody_%d" % b])
        wc = jdot(D["jacBodyCom_r_%d" % b], nv, qvel) + jdot(D["jacBodyCom_p_%d" % b], nv, qvel)
        velcmp("mj_objectVelocity(BODY) = [jacr; jacp](BodyCom) qvel", b, wc, D["vel_body_%d" % b])
        velcmp("mj_objectVelocity(XBODY, local) = xmat^T world velocity", b, local(D["xmat"][9 * b:9 * b + 9], w + v), D["vel_xbody_local_%d" % b])
        velcmp("mj_objectVelocity(BODY, local) = ximat^T world velocity", b, local(D["ximat"][9 * b:9 * b + 9], wc), D["vel_body_local_%d" % b])
        r = D["body_rootid"][b]
        com = D["subtree_com"][3 * r:3 * r + 3]
        arm = [com[i] - D["xpos"][3 * b + i] for i in range(3)]
        vc = [x + y for x, y in zip(v, cross(w, arm))]
        velcmp("cvel = J qvel transported to subtree_com of the root", b, w + vc, D["cvel"][6 * b:6 * b + 6])
        # independent of every Jacobian: finite differences of the frames along qvel
        velcmp("linear velocity of the body origin = d xpos / dt along qvel (central difference)", b, fdpos("xpos", b, nv), D["vel_xbody_%d" % b][3:6], FD_TOL)
        velcmp("angular velocity of the body = rotation rate of xmat along qvel (central difference)", b, fdrot("xmat", b, nv), D["vel_xbody_%d" % b][0:3], FD_TOL)
        velcmp("linear velocity of the body inertial frame = d xipos / dt along qvel (central difference)", b, fdpos("xipos", b, nv), D["vel_body_%d" % b][3:6], FD_TOL)
        # jacDot
        jdp, jdr = D["jacDot_p_%d" % b], D["jacDot_r_%d" % b]
        fp = [(x - y) / (2 * eps) for x, y in zip(D["PV_jac_p_%d" % b], D["MV_jac_p_%d" % b])]
        fr = [(x - y) / (2 * eps) for x, y in zip(D["PV_jac_r_%d" % b], D["MV_jac_r_%d" % b])]
        sc = 1 + max(abs(x) for x in jdp + jdr + fp + fr)
        if maxdiff(jdp, fp) > DOT_TOL * sc:
            f.append(("mj_jacDot jacp = d/dt mj_jac jacp along qvel (central difference)", {"index": b}, fp, jdp))
        if maxdiff(jdr, fr) > DOT_TOL * sc:
            f.append(("mj_jacDot jacr = d/dt mj_jac jacr along qvel (central difference)", {"index": b}, fr, jdr))
    for pre, n, jn in (("geom", D["ngeom"][0], "jacGeom"), ("site", D["nsite"][0], "jacSite"), ("cam", D["ncam"][0], "jacCam")):
        for i in range(n):
            if pre == "cam" and D["cam_mode"][i] != 0:
                continue
            wv = jdot(D["%s_r_%d" % (jn, i)], nv, qvel) + jdot(D["%s_p_%d" % (jn, i)], nv, qvel)
            velcmp("mj_objectVelocity(%s) = [jacr; jacp] qvel" % pre, i, wv, D["vel_%s_%d" % (pre, i)])
            velcmp("mj_objectVelocity(%s, local) = xmat^T world velocity" % pre, i, local(D[pre + "_xmat"][9 * i:9 * i + 9], wv), D["vel_%s_local_%d" % (pre, i)])
            velcmp("linear velocity of a %s = d %s_xpos / dt along qvel (central difference)" % (pre, pre), i, fdpos(pre + "_xpos", i, nv), D["vel_%s_%d" % (pre, i)][3:6], FD_TOL)
            velcmp("angular velocity of a %s = rotation rate of %s_xmat along qvel (central difference)" % (pre, pre), i, fdrot(pre + "_xmat", i, nv), D["vel_%s_%d" % (pre, i)][0:3], FD_TOL)
    return f


def densify(J, chain, nv):
    NV = len(chain)
    out = [0.0] * (3 * nv)
    for r in range(3):
        for ci, k in enumerate(chain):
            out[r * nv + k] += J[r * NV + ci]
    return out


def oracle_pairs(D):
    """mj_jacDifPair (sparse = fast paths for simple bodies, and dense) and mj_jacSum on body pairs: sparse = dense, and
    the translational difference Jacobian = central difference of (p2 - p1) for points moving with their bodies"""
    f = []
    nv = D["nv"][0]
    rot = set()      # bodies with a rotational dof of their own
    for b in range(D["nbody"][0]):
        for j in range(D["body_jntadr"][b], D["body_jntadr"][b] + D["body_jntnum"][b]) if D["body_jntnum"][b] else []:
            if D["jnt_type"][j] in (0, 1, 3):
                rot.add(b)
    hard = 0
    for k in range(D["npair"][0]):
        b1, b2 = D["pair_%d" % k]
        simple = D["body_simple"][b1] and D["body_simple"][b2]
        if simple and any(b in rot and D["body_rootid"][b] != b for b in (b1, b2)):
            hard += 1
        det = {"pair": [b1, b2], "body_simple": [D["body_simple"][b1], D["body_simple"][b2]], "body_rootid": [D["body_rootid"][b1], D["body_rootid"][b2]]}
        chain = D.get("pair_chain_%d" % k, [])
        fd = D["pair_fd_p_%d" % k]
        dep, der = D["pair_de_p_%d" % k], D["pair_de_r_%d" % k]
        spp, spr = densify(D["pair_sp_p_%d" % k], chain, nv), densify(D["pair_sp_r_%d" % k], chain, nv)
        sc = 1 + max(abs(x) for x in fd + dep + spp)
        if maxdiff(spp, fd) > FD_TOL * sc:
            f.append(("mj_jacDifPair (sparse) jacdifp = d (p2 - p1) / d q (central difference)", det, fd, spp))
        if maxdiff(dep, fd) > FD_TOL * sc:
            f.append(("mj_jacDifPair (dense) jacdifp = d (p2 - p1) / d q (central difference)", det, fd, dep))
        if maxdiff(spr, der) > 1e-12 * (1 + max(abs(x) for x in der + spr)):
            f.append(("mj_jacDifPair jacdifr: sparse = dense", det, der, spr))
        sch = D.get("sum_chain_%d" % k, [])
        refp, refr = D["sum_ref_p_%d" % k], D["sum_ref_r_%d" % k]
        for nm, jp, jr in (("sparse", densify(D["sum_sp_p_%d" % k], sch, nv), densify(D["sum_sp_r_%d" % k], sch, nv)), ("dense", D["sum_de_p_%d" % k], D["sum_de_r_%d" % k])):
            if maxdiff(jp, refp) > 1e-12 * (1 + max(abs(x) for x in refp + jp)) or maxdiff(jr, refr) > 1e-12 * (1 + max(abs(x) for x in refr + jr)):
                f.append(("mj_jacSum (%s) = weighted sum of mj_jac" % nm, det, refp + refr, jp + jr))
    return f, hard


def oracle_efc(D):
    """constraint rows of every kind: efc_J row = d efc_pos / d q by central differences (equalities, joint / tendon limits,
    contact normals), friction rows = the derivative of the dof coordinate / tendon length, dense rows = sparse rows.
    returns (violations, number of rows judged, strata)"""
    f = []
    st = {}
    nv, nefc = D["nv"][0], D["nefc"][0]
    if nefc == 0 or nv == 0:
        return f, 0, st
    eps = D["eps"][0]
    ty, idd = D["efc_type"], D["efc_id"]
    within, prev, cnt = [], None, 0
    for i in range(nefc):
        key = (ty[i], idd[i])
        cnt = cnt + 1 if key == prev else 0
        prev = key
        within.append(cnt)
    same = all(D.get("%s%d_efc_type" % (sg, k)) == ty and D.get("%s%d_efc_id" % (sg, k)) == idd for k in range(nv) for sg in "PM")
    sparse_ok = D.get("nefc_sparse", [None])[0] == nefc and D.get("sp_efc_type") == ty and D.get("sp_efc_id") == idd

    def fdrow(i):
        return [(D["P%d_efc_pos" % k][i] - D["M%d_efc_pos" % k][i]) / (2 * eps) for k in range(nv)]

    def drow(i):
        return D["efc_J"][i * nv:(i + 1) * nv]

    def srow(i):
        return D["efc_Jsp"][i * nv:(i + 1) * nv]

    def judge(law, i, exp, extra=None, tol=1e-5):
        for kind, row in [("dense", drow(i))] + ([("sparse", srow(i))] if sparse_ok else []):
            sc = 1 + max(abs(x) for x in row + exp)
            if maxdiff(row, exp) > tol * sc:
                det = {"row": i, "efc_type": ty[i], "efc_id": idd[i], "within": within[i], "jacobian": kind}
                det.update(extra or {})
                f.append((law, det, exp, row))
                return
    nrows = 0
    # dense = sparse, every row of every kind
    if sparse_ok:
        st["rows_dense_vs_sparse"] = nefc
        for i in range(nefc):
            a, b_ = drow(i), srow(i)
            if maxdiff(a, b_) > 1e-12 * (1 + max(abs(x) for x in a + b_)):
                f.append(("efc_J row: dense Jacobian = sparse Jacobian", {"row": i, "efc_type": ty[i], "efc_id": idd[i], "within": within[i]}, b_, a))
                break
    # tendon Jacobian = d ten_length / d q
    ntend = len(D.get("ten_length", []))
    for t in range(ntend):
        if not all(("%s%d_ten_length" % (sg, k)) in D for k in range(nv) for sg in "PM"):
            break
        fd = [(D["P%d_ten_length" % k][t] - D["M%d_ten_length" % k][t]) / (2 * eps) for k in range(nv)]
        row = D["ten_J"][t * nv:(t + 1) * nv]
        if maxdiff(row, fd) > 1e-5 * (1 + max(abs(x) for x in row + fd)):
            f.append(("ten_J row = d ten_length / d q (central difference over mj_integratePos)", {"tendon": t}, fd, row))
    for i in range(nefc):
        if ty[i] == 1:          # dof friction loss: the row is the derivative of the dof coordinate itself
            nrows += 1
            st["friction_dof_rows"] = st.get("friction_dof_rows", 0) + 1
            j = D["dof_jntid"][idd[i]]
            if D["jnt_qposadr"][j] != D["jnt_dofadr"][j]:
                st["friction_dof_rows_qposadr_ne_dofadr"] = st.get("friction_dof_rows_qposadr_ne_dofadr", 0) + 1
            judge("friction-loss row of a dof = unit vector of that dof", i, [1.0 if k == idd[i] else 0.0 for k in range(nv)], tol=1e-12)
            continue
        if ty[i] == 2:          # tendon friction loss: the tendon Jacobian
            nrows += 1
            st["friction_tendon_rows"] = st.get("friction_tendon_rows", 0) + 1
            judge("friction-loss row of a tendon = ten_J row (= d ten_length / d q)", i, D["ten_J"][idd[i] * nv:(idd[i] + 1) * nv], tol=1e-12)
            continue
        if not same:
            continue
        if ty[i] == 0:
            et = D["eq_type"][idd[i]]
            if (et == 1 and within[i] >= 3) or et > 3:      # weld rotation rows: efc_pos is a scaled quaternion difference
                continue
            nrows += 1
            e = idd[i]
            judge("efc_J row = d efc_pos / d q (central difference over mj_integratePos)", i, fdrow(i),
                  {"eq_type": et, "eq_data": D["eq_data"][D["neqdata"][0] * e:D["neqdata"][0] * e + 5]})
        elif ty[i] == 3:
            nrows += 1
            j = idd[i]
            jt = D["jnt_type"][j]
            key = "limit_rows_%s" % {1: "ball", 2: "slide", 3: "hinge"}.get(jt, "other")
            st[key] = st.get(key, 0) + 1
            if D["jnt_qposadr"][j] != D["jnt_dofadr"][j]:
                st[key + "_qposadr_ne_dofadr"] = st.get(key + "_qposadr_ne_dofadr", 0) + 1
            judge("efc_J row = d efc_pos / d q (central difference over mj_integratePos)", i, fdrow(i),
                  {"limit_of_joint": j, "jnt_type": jt, "jnt_qposadr": D["jnt_qposadr"][j], "jnt_dofadr": D["jnt_dofadr"][j]})
        elif ty[i] == 4:
            nrows += 1
            st["limit_rows_tendon"] = st.get("limit_rows_tendon", 0) + 1
            judge("efc_J row = d efc_pos / d q (central difference over mj_integratePos)", i, fdrow(i), {"limit_of_tendon": idd[i]})
    # contact normals between smooth geoms (sphere / plane): d distance / d q
    ci = D.get("contact_info", [])
    if same:
        for c in range(len(ci) // 4):
            g1, g2, dim, adr = ci[4 * c:4 * c + 4]
            if adr < 0 or not (set((g1, g2)) <= set((0, 2))):
                continue
            if ty[adr] == 5 or ty[adr] == 7:
                rows = [adr]
            elif ty[adr] == 6 and dim >= 3 and adr + 1 < nefc:
                rows = [adr, adr + 1]                  # pyramid edges n + mu t and n - mu t: their mean is the normal row
            else:
                continue
            nrows += 1
            st["contact_normal_rows"] = st.get("contact_normal_rows", 0) + 1
            fd = fdrow(adr)
            for kind, get in [("dense", drow)] + ([("sparse", srow)] if sparse_ok else []):
                row = [sum(get(r)[k] for r in rows) / len(rows) for k in range(nv)]
                if maxdiff(row, fd) > 1e-5 * (1 + max(abs(x) for x in row + fd)):
                    f.append(("contact normal row of efc_J = d distance / d q (sphere / plane pairs, central difference)", {"contact": c, "row": adr, "efc_type": ty[adr], "jacobian": kind}, fd, row))
                    break
    return f, nrows, st


# ------------------------------------------------------------------------------------- the check
def run(ctx):
    rng = ctx.rng
    big = ctx.tier != "quick"
    ctx.coq_props(allowed_axioms=F.STD_AXIOMS,
                  extra_targets=["Lib/Num.vo", "Lib/NumF.vo", "Lib/FloatFn.vo", "Model/Spatial.vo", "Model/Kinematics.vo", "Model/EqPoly.vo", "Model/LimitRow.vo"])
    exe = ctx.driver("c07_kin", ["c07_kin.c"])
    if exe is None:
        return
    base = FEAT["SITE"]
    feats = [base | FEAT["FREE"] | FEAT["BALL"] | FEAT["SLIDE"], base | FEAT["FREE"] | FEAT["BALL"] | FEAT["SLIDE"] | FEAT["MULTITREE"],
             base | FEAT["SLIDE"], base | FEAT["BALL"], base, base | FEAT["FREE"] | FEAT["BALL"] | FEAT["SLIDE"] | FEAT["MOCAP"] | FEAT["MULTITREE"],
             base | FEAT["FREE"] | FEAT["SLIDE"] | FEAT["CONTACT"]]
    feats = [x for f in feats for x in (f | FEAT["FIXED"], f)] + [base | FEAT["FIXED"], base | FEAT["BALL"] | FEAT["SLIDE"] | FEAT["FIXED"]]
    # ---------------- correspondence (K) requests, smallest first
    kreq = []
    nk = 14 if not big else 120
    for i in range(nk):
        nb = 1 + (i % 3) if i < 6 else rng.choice([2, 3, 4, 5, 6, 8])
        kreq.append((rng.randrange(1, 10 ** 6), feats[i % len(feats)], nb, i % 6))
    kreq.sort(key=lambda r: r[2])
    # ---------------- oracle (J) requests
    jreq = []
    nj = 10 if not big else 80
    for i in range(nj):
        nb = 1 + (i % 3) if i < 3 else rng.choice([2, 3, 4, 5, 6])
        jreq.append((rng.randrange(1, 10 ** 6), feats[i % len(feats)], nb, 0 if i % 7 == 6 else 1 + i))
    jreq.sort(key=lambda r: r[2])
    ereq = []
    ne = 12 if not big else 60
    na_fixed = 6 if not big else 12       # fixed corpus of address spaces (driver op A)
    nq_fixed = 6 if not big else 12       # fixed corpus of coupling polynomials (driver op Q)
    sreq = [(rng.randrange(1, 10 ** 6), i) for i in range(10 if not big else 60)]     # simple bodies on static mounts (driver op S)
    efeat = base | FEAT["FREE"] | FEAT["BALL"] | FEAT["SLIDE"] | FEAT["EQUALITY"] | FEAT["LIMIT"] | FEAT["TENDON"]
    for i in range(ne):
        ereq.append((rng.randrange(1, 10 ** 6), efeat | (FEAT["MULTITREE"] if i % 2 else 0) | (FEAT["FIXED"] if i % 3 != 2 else 0) | ((FEAT["CONTACT"] | (1 << 14)) if i % 4 == 3 else 0), rng.choice([2, 3, 4, 5]), 1 + i))
    inp = "".join("K %d %d %d %d\n" % r for r in kreq) + "".join("J %d %d %d %d\n" % r for r in jreq) + "".join("E %d %d %d %d\n" % r for r in ereq) + "".join("Q %d\n" % k for k in range(nq_fixed)) + "".join("S %d %d\n" % r for r in sreq) + "".join("A %d\n" % k for k in range(na_fixed)) + "R\n"
    rc, out, err = ctx.run(exe, inp)
    blocks = parse_blocks(out)
    nexp = len(kreq) + len(jreq) + len(ereq) + nq_fixed + len(sreq) + na_fixed + 1
    if rc != 0 or len(blocks) != nexp:
        # the driver died (e.g. memory corruption inside the implementation): isolate the request(s) by running each one in its own
        # process; a request on which the implementation crashes is a concrete failing input, the others are judged as usual
        lines = [l for l in inp.split("\n") if l]
        blocks, crashed = [], []
        for l in lines:
            rc1, out1, err1 = ctx.run(exe, l + "\n", timeout=300)
            b1 = parse_blocks(out1)
            if rc1 != 0 or len(b1) != 1:
                crashed.append((l, rc1))
                blocks.append({"ERR": "driver process terminated (rc=%s) while serving this request" % rc1, "CRASH": [1]})
            else:
                blocks.append(b1[0])
        for (l, rc1) in crashed[:1]:
            ctx.violation("impl_violation", {"request": l, "all_crashing_requests": [c[0] for c in crashed][:10]}, expected="the implementation serves the request (valid compiled model, valid state)",
                          observed="process terminated abnormally, rc=%s (negative = signal)" % rc1, theorem="C07 (no crash on valid input)", signature={"law": "implementation crashes", "class": "generic"})
        if len(blocks) != nexp:
            ctx.broken.append(("correspondence", "driver c07_kin failed", "rc=%s blocks=%d/%d %s" % (rc, len(blocks), nexp, err[-800:])))
            return
    kb, jb, eb = blocks[:len(kreq)], blocks[len(kreq):len(kreq) + len(jreq)], blocks[len(kreq) + len(jreq):-1]
    ereq = ereq + [("Q", k) for k in range(nq_fixed)] + [("S", r[0], r[1]) for r in sreq] + [("A", k) for k in range(na_fixed)]
    rb = blocks[-1]
    seen = set()

    def report(law, req, op, detail, exp, obs, theorem):
        key = law.split(" (")[0]
        cls = detail.get("class", "generic") if isinstance(detail, dict) else "generic"
        if (key, cls) in seen:
            return
        seen.add((key, cls))
        ctx.violation("impl_violation", {"request": "%s %d %d %d %d" % ((op,) + tuple(req)), "law": law, "detail": detail}, expected=exp, observed=obs,
                      theorem=theorem, signature={"law": key, "class": cls})
    # ---------------- oracles
    counts = {"frames": 0, "jacobian_columns": 0, "velocity_bodies": 0, "efc_rows": 0}
    strata = {"K": {"fixed_link_under_moving_body": 0, "fixed_link_under_fixed_link": 0, "moving_body_under_fixed_link": 0, "static_body": 0, "multi_joint_body": 0, "objects_on_fixed_links": 0},
              "J": {"fixed_link_under_moving_body": 0, "fixed_link_under_fixed_link": 0, "moving_body_under_fixed_link": 0, "static_body": 0, "multi_joint_body": 0, "objects_on_fixed_links": 0}}

    def classify(D, st):
        nb = D["nbody"][0]
        moving = [False] * nb        # has a joint of its own or below a body that has one
        for b in range(1, nb):
            moving[b] = D["body_jntnum"][b] > 0 or moving[D["body_parentid"][b]]
        for b in range(1, nb):
            p_ = D["body_parentid"][b]
            if D["body_jntnum"][b] == 0:
                if not moving[b]:
                    st["static_body"] += 1
                elif D["body_jntnum"][p_] == 0:
                    st["fixed_link_under_fixed_link"] += 1
                else:
                    st["fixed_link_under_moving_body"] += 1
            else:
                if p_ != 0 and D["body_jntnum"][p_] == 0 and moving[p_]:
                    st["moving_body_under_fixed_link"] += 1
                if D["body_jntnum"][b] > 1:
                    st["multi_joint_body"] += 1
        for pre in ("geom", "site", "cam"):
            for i in range(D["n" + pre][0]):
                bb = D[pre + "_bodyid"][i]
                if bb > 0 and D["body_jntnum"][bb] == 0 and moving[bb]:
                    st["objects_on_fixed_links"] += 1
    jtypes_seen = [0, 0, 0, 0]
    for req, D in list(zip(kreq, kb)) + list(zip(jreq, jb)):
        op = "K" if "jacp_0" in D else "J"
        if "CRASH" in D:
            continue
        if "ERR" in D:
            ctx.violation("impl_violation", {"request": "%s %d %d %d %d" % ((op,) + tuple(req))}, expected="no mju_error on a compiled model", observed=D["ERR"],
                          theorem="C07_kinematics_defined", signature={"law": "no error"})
            continue
        classify(D, strata[op])
        for (law, idx, obs) in oracle_frames(D):
            report(law, req, op, {"index": idx}, "rotation / unit (1e-10)", obs, "C07_frames")
        for (law, idx, obs) in oracle_local(D):
            report(law, req, op, {"index": idx}, "recomputed from the implementation's body frames (1e-10)", obs, "C07_local2Global")
        if op == "K":
            for (law, detail, exp, obs) in oracle_roundtrip(D):
                report(law, req, op, detail, exp, obs, "C07_diff_integrate")
        counts["frames"] += D["nbody"][0] + D["ngeom"][0] + D["nsite"][0] + D["ncam"][0]
        for t in D["jnt_type"]:
            jtypes_seen[t] += 1
    for req, D in zip(jreq, jb):
        if "ERR" in D:
            continue
        for (law, detail, exp, obs) in oracle_jac(D):
            report(law, req, "J", detail, exp, obs, "C07_jac_column_partial")
        counts["jacobian_columns"] += D["nv"][0] * (4 * D["nbody"][0] + D["ngeom"][0] + D["nsite"][0] + D["ncam"][0])
        counts["velocity_bodies"] += D["nbody"][0]
    eqstrata = {}
    eqlits, eqdescr = [], []
    for req, D in zip(ereq, eb):
        if "ERR" not in D and "eq_data" in D:
            for lit in eq_cases(D):
                eqlits.append(lit)
                eqdescr.append(req)
    for req, D in zip(ereq, eb):
        if "CRASH" in D:
            continue
        if "ERR" in D:
            ctx.violation("impl_violation", {"request": ("E %d %d %d %d" % tuple(req)) if req[0] not in ("Q", "S", "A") else " ".join(str(x) for x in req)}, expected="no mju_error", observed=D["ERR"], theorem="C07", signature={"law": "no error"})
            continue
        fl, nrows, rst = oracle_efc(D)
        counts["efc_rows"] += nrows
        for k_, v_ in rst.items():
            eqstrata[k_] = eqstrata.get(k_, 0) + v_
        if req[0] == "S":
            pf, hard = oracle_pairs(D)
            fl = fl + pf
            eqstrata["simple_pairs_with_rotational_leaf_on_a_mount"] = eqstrata.get("simple_pairs_with_rotational_leaf_on_a_mount", 0) + hard
            eqstrata["body_pairs"] = eqstrata.get("body_pairs", 0) + D["npair"][0]
            # connect / weld rows between two simple bodies one of which hangs on a mount
            for e in range(len(D["eq_type"])):
                if D["eq_type"][e] in (0, 1):
                    b1, b2 = D["eq_obj1id"][e], D["eq_obj2id"][e]
                    if D["body_simple"][b1] and D["body_simple"][b2] and any(D["body_rootid"][b] != b and D["body_dofnum"][b] for b in (b1, b2)):
                        eqstrata["connect_weld_between_simple_bodies_on_a_mount"] = eqstrata.get("connect_weld_between_simple_bodies_on_a_mount", 0) + 1
        for (law, detail, exp, obs) in fl:
            if req[0] == "S":
                report(law, (req[1], req[2], 0, 0), "S", detail, exp, obs, "C07 (oracle only)")
            elif req[0] == "A":
                report(law, (req[1], 0, 0, 0), "A", detail, exp, obs, "C07 (oracle only)")
            elif req[0] == "Q":
                report(law, (req[1], 0, 0, 0), "Q", detail, exp, obs, "C07_eq_poly_row")
            else:
                report(law, req, "E", detail, exp, obs, "C07_eq_poly_row")
        for i in range(D["nefc"][0]):
            if D["efc_type"][i] == 0 and D["eq_type"][D["efc_id"][i]] in (2, 3):
                e = D["efc_id"][i]
                c = D["eq_data"][D["neqdata"][0] * e:D["neqdata"][0] * e + 5]
                kind = ("joint" if D["eq_type"][e] == 2 else "tendon") + ("_pair" if D["eq_obj2id"][e] >= 0 else "_single")
                eqstrata[kind] = eqstrata.get(kind, 0) + 1
                if D["eq_obj2id"][e] >= 0:
                    for k in range(1, 5):
                        if c[k] != 0:
                            eqstrata["%s_degree%d_term" % (kind, k)] = eqstrata.get("%s_degree%d_term" % (kind, k), 0) + 1
        if D.get("nefc_sparse", [None])[0] == D["nefc"][0]:
            eqstrata["blocks_with_sparse_rows_checked"] = eqstrata.get("blocks_with_sparse_rows_checked", 0) + 1
    # support (repaired defect): a fixed tendon listing a joint twice used to get duplicate columns in ten_J, which mju_sparse2dense
    # overwrote, so the dense efc_J tendon rows lost the coefficient; mj_compile now rejects such tendons.  If one is accepted again,
    # its constraint rows are judged by the same finite-difference oracle.
    ctx.cov["support"]["repeated_joint_fixed_tendon_rejected_by_compiler"] = bool(rb.get("rejected", [0])[0])
    if not rb.get("rejected", [0])[0] and "efc_J" in rb:
        fl, nrows, _ = oracle_efc(rb)
        counts["efc_rows"] += nrows
        for (law, detail, exp, obs) in fl:
            report(law, (0, 0, 0, 0), "R", dict(detail, model="one hinge, fixed tendon j0*1 + j0*2, limited"), exp, obs, "C07 (oracle only)")
    # ---------------- model evaluation inside Coq
    cases, descr = [], []
    for req, D in zip(kreq, kb):
        if "ERR" in D:
            continue
        for lit, what in k_cases(D):
            cases.append(lit)
            descr.append((req, what))
    fails = ctx.coq_eval("c07", "From Coq Require Import ZArith PrimFloat Bool.\nFrom MJV Require Import Lib.Num Lib.NumF Lib.FloatFn Model.Spatial Model.Kinematics.\nOpen Scope nat_scope.",
                         cases, "chk", pre=coq_pre(), shard=12 if not big else 40)
    efails = ctx.coq_eval("c07eq", "From Coq Require Import ZArith PrimFloat Bool.\nFrom MJV Require Import Lib.Num Lib.NumF Model.EqPoly.\nOpen Scope nat_scope.",
                          eqlits, "chk", pre=EQ_PRE, shard=100)
    if efails:
        req = eqdescr[efails[0]]
        ctx.violation("correspondence", {"request": " ".join(str(x) for x in req) if req[0] in ("Q", "S", "A") else "E %d %d %d %d" % tuple(req), "part": "joint/tendon equality row"},
                      expected="model output (Model/EqPoly.v at binary64, tolerance 2^-30 scaled)", observed="efc_pos / efc_J row of the implementation differs", found_input=False,
                      theorem="correspondence c07 equality row", signature={"part": "joint/tendon equality row"},
                      note="implementation and Coq model disagree; see the oracle violations (if any) for a failing input")
    ctx.cov["support"]["equality_row_evaluations"] = len(eqlits)
    limlits, limdescr = [], []
    for req, D in zip(ereq, eb):
        if "ERR" not in D and "efc_J" in D:
            for lit in limit_cases(D):
                limlits.append(lit)
                limdescr.append(req)
    lfails = ctx.coq_eval("c07lim", "From Coq Require Import ZArith PrimFloat Bool.\nFrom MJV Require Import Lib.Num Lib.NumF Lib.FloatFn Model.Spatial Model.LimitRow.\nOpen Scope nat_scope.",
                          limlits, "chk", pre=LIM_PRE, shard=100) if limlits else []
    if lfails:
        req = limdescr[lfails[0]]
        ctx.violation("correspondence", {"request": " ".join(str(x) for x in req) if req[0] in ("Q", "S", "A") else "E %d %d %d %d" % tuple(req), "part": "ball-joint limit row"},
                      expected="model output (Model/LimitRow.v at binary64, tolerance 2^-30 scaled)", observed="efc_pos / dense efc_J row of the implementation differs", found_input=False,
                      theorem="correspondence c07 ball limit row", signature={"part": "ball-joint limit row"},
                      note="implementation and Coq model disagree; see the oracle violations (if any) for a failing input")
    ctx.cov["support"]["ball_limit_row_evaluations"] = len(limlits)
    seenw = set()
    for i in fails:
        req, what = descr[i]
        if what in seenw:
            continue
        seenw.add(what)
        ctx.violation("correspondence", {"request": "K %d %d %d %d" % tuple(req), "part": what}, expected="model output (Model/Kinematics.v at binary64, tolerance 2^-30 scaled)",
                      observed="implementation output differs (rerun the request through harness/drivers/c07_kin.c)", found_input=False,
                      theorem="correspondence c07 " + what, signature={"part": what},
                      note="implementation and Coq model disagree on this generated tree; see the oracle violations (if any) for a failing input")
    # ---------------- coverage
    nontriv = sum(1 for (req, what) in descr if req[2] >= 2)
    ctx.cov["evaluations"] = len(cases) + len(eqlits) + len(limlits)
    ctx.cov["distinct_nontrivial"] = nontriv
    ctx.cov["rule"] = ("one Coq evaluation per joint / tendon equality row (Model/EqPoly.v) and one per (generated tree, state, part) with part in {mj_kinematics1 outputs, mj_local2Global outputs, mj_jac of an attached point of every body, cdof, "
                       "mj_integratePos + mj_differentiatePos}; trees from mjgen.h (all joint types, multi-joint bodies, multi-tree, mocap, sites, cameras, 1..8 bodies) extended by c07_kin.c with jointless bodies (fixed links under moving bodies, chains of fixed links, moving bodies under fixed links, static bodies welded to the world, each with geoms / sites / cameras), states: reference configuration, random, exactly-zero angles, "
                       "angles beyond one turn, unnormalised / nearly-unit ball, free and mocap quaternions; non-trivial = tree with at least two moving bodies")
    ctx.cov["samples"] = [{"request": "K %d %d %d %d" % tuple(d[0]), "part": d[1]} for d in (descr[:1] + descr[len(descr) // 2:len(descr) // 2 + 1] + descr[-1:])]
    ctx.cov["correspondence_disagreements"] = len(fails) + len(efails) + len(lfails)
    ctx.cov["support"]["oracle_counts"] = counts
    ctx.cov["support"]["joint_types_seen_free_ball_slide_hinge"] = jtypes_seen
    ctx.cov["support"]["oracle_requests"] = {"J": len(jreq), "E": len(ereq)}
    ctx.cov["support"]["tree_strata"] = {"tie": strata["K"], "oracle": strata["J"]}
    ctx.cov["support"]["equality_polynomial_strata"] = eqstrata
    for key in ["joint_pair_degree%d_term" % k for k in range(1, 5)] + ["tendon_pair_degree4_term", "blocks_with_sparse_rows_checked", "simple_pairs_with_rotational_leaf_on_a_mount", "connect_weld_between_simple_bodies_on_a_mount",
                "limit_rows_ball_qposadr_ne_dofadr", "limit_rows_hinge_qposadr_ne_dofadr", "limit_rows_slide_qposadr_ne_dofadr", "limit_rows_tendon",
                "friction_dof_rows_qposadr_ne_dofadr", "friction_tendon_rows", "rows_dense_vs_sparse"]:
        if eqstrata.get(key, 0) == 0:
            ctx.broken.append(("correspondence", "constraint-row oracle: stratum '%s' was not reached" % key, str(eqstrata)))
    for grp, name in (("K", "tie"), ("J", "Jacobian / velocity oracle")):
        for key in ("fixed_link_under_moving_body", "objects_on_fixed_links", "multi_joint_body"):
            if strata[grp][key] == 0:
                ctx.broken.append(("correspondence", "generator stratum '%s' was not reached by the %s" % (key, name), str(strata[grp])))
    ctx.cov["explanation"] = ("theorems of Props/C07.v proved over R; model tied to the working tree on %d evaluations over %d generated trees; finite-difference oracle on %d Jacobian columns, %d bodies' velocities, %d constraint rows"
                              % (len(cases), len(kreq), counts["jacobian_columns"], counts["velocity_bodies"], counts["efc_rows"]))
