"""C31 — binary model files (MJB) round-trip exactly; corrupt files are rejected."""
import os
import struct
import sys
import framework as F

sys.path.insert(0, os.path.join(F.VERIF, "translate"))
import xmacro2v as X  # noqa: E402

META = {
    "id": "C31", "category": "proof", "design_ref": "DESIGN.md section 4, C31",
    "technique": "Coq proof about a codec model generic in the layout table + translator (X-macro tables of mjxmacro.h, "
                 "table-like parts of engine_io.c, cross-checked against the preprocessor) + exact correspondence with "
                 "mj_saveModel/mj_sizeModel/mj_loadModelBuffer on mjSpec-built models and corrupted copies of their files",
    "text": "Proved in Coq for EVERY well-formed layout table (any size fields, arrays, struct blocks, header; Gen/ModelLayout.v is the "
            "instance regenerated from the tree): decode(encode m) = Ok m and length(encode m) = sizeModel m for every well-formed model "
            "(what a compiled model satisfies; evaluated on every implementation model of the run); every proper prefix of a valid file "
            "(crash truncation) and every valid file with trailing bytes is rejected; for ANY buffer: acceptance implies length = sizeModel "
            "of the loaded model and the expected header field by field (a wrong header is rejected at its first wrong field); every read "
            "of the input buffer by the instrumented loader lies inside it; every write into the model buffer has exactly the allocated "
            "length and lies inside m->buffer, PROVIDED every array length depends only on mj_makeModel arguments or on a derived field the "
            "loader compares (sizes_checked) - proved by computation for the regenerated layout (it fails when the nnames_map comparison of "
            "fix a49cae9b1 is removed; Proof/MJBProof.v overflow_witness then is a concrete overflowing file, replayed on the "
            "implementation on every run). PARTIAL (reference validation): acceptance implies every entry of every array of the regenerated "
            "MJMODEL_REFERENCES table is in bounds (-1 <= adr, 0 <= num, adr+num <= target) when adr+num is computed in 64 bits (flag "
            "regenerated from the source; obligation fails if fix 9176e92d2 is reverted); the hand-written checks after the table are not "
            "modelled (observed only), arrays absent from the table are covered only by the oracle's own list on the models of the run. "
            "Tied to the code on every run by the fail-closed translator (X-macro tables cross-checked against the preprocessor, table-like "
            "parts and order of tests of engine_io.c) and by exact comparison: file bytes, mj_sizeModel, file offset of every array (found "
            "by perturbing it), in-memory offsets, nbuffer, save/load/re-save identity on random mjgen models, and the accept/reject "
            "decision WITH its warning for truncations (every length for small models in thorough, section boundaries + random in quick), "
            "every header byte/field, every size field, consistent size+nbuffer edits, nnames_map edits, every non-empty reference array "
            "set out of range, appended and random bytes. NOT covered: the leak on a rejected file, allocation failure for huge sizes "
            "(harness allocator refuses > 64 MiB), mj_loadModel's file reading (only the buffer API), XML/MJCF.",
    "note": "Trusted: Coq kernel; hand-written model Model/MJB.v of the order of tests in mj_loadModelBuffer/mj_makeModel (tied by "
            "differential runs, reason by reason); translator translate/xmacro2v.py + gcc for sizeof/constants; driver c31_mjb.c (canary "
            "allocator, inaccessible page after the input buffer, forked workers). All theorems closed under the global context.",
    "assumptions": ["buffer_sz = length of the buffer and 0 <= buffer_sz <= INT_MAX (the API takes an int)",
                    "little-endian 4-byte int / 8-byte mjtSize (checked by the translator's info program and the byte-exact comparison)",
                    "mju_malloc succeeds (sizes leading to allocations above 64 MiB are not compared)"],
}

INT_MAX = 2147483647
ALLOC_LIMIT = 1 << 26

# int arrays of mjModel that hold indices/addresses but are neither in MJMODEL_REFERENCES nor exercised by the
# models of this check (no flex, mesh, bvh, plugin, history in them): reported in the evidence, not findings
NOT_EXERCISED = ["flex_matid", "flex_vertbodyid", "flex_nodebodyid", "flex_nodeadr", "flex_vertedgeadr", "flex_edgeflap",
                 "flex_stiffnessadr", "flex_bendingadr", "flexedge_J_rowadr", "flexvert_J_rowadr", "efm0_dofid", "efm0_L_rowadr",
                 "bvh_child", "bvh_nodeid", "oct_child", "mesh_octadr", "name_flexadr", "name_pluginadr", "geom_plugin",
                 "actuator_historyadr", "sensor_historyadr", "ten_J_rowadr", "mapM2M", "mapM2D", "mapD2M", "D_diag"]

# independent oracle: cross-references of mjModel as documented in mjmodel.h (hand-written, not derived from
# MJMODEL_REFERENCES): array -> (target size, num array or None).  in bounds: -1 <= v and v + num <= target
ORACLE_REFS = {
    "body_parentid": ("nbody", None), "body_rootid": ("nbody", None), "body_weldid": ("nbody", None),
    "body_mocapid": ("nmocap", None), "body_treeid": ("ntree", None),
    "body_jntadr": ("njnt", "body_jntnum"), "body_dofadr": ("nv", "body_dofnum"), "body_geomadr": ("ngeom", "body_geomnum"),
    "body_bvhadr": ("nbvh", "body_bvhnum"),
    "jnt_qposadr": ("nq", None), "jnt_dofadr": ("nv", None), "jnt_bodyid": ("nbody", None), "jnt_actuatorid": ("nactuator", None),
    "dof_bodyid": ("nbody", None), "dof_jntid": ("njnt", None), "dof_parentid": ("nv", None), "dof_treeid": ("ntree", None),
    "dof_Madr": ("nM", None),
    "tree_bodyadr": ("nbody", "tree_bodynum"), "tree_dofadr": ("nv", "tree_dofnum"),
    "geom_bodyid": ("nbody", None), "geom_matid": ("nmat", None), "site_bodyid": ("nbody", None), "site_matid": ("nmat", None),
    "cam_bodyid": ("nbody", None), "cam_targetbodyid": ("nbody", None), "light_bodyid": ("nbody", None),
    "light_targetbodyid": ("nbody", None), "light_texid": ("ntex", None), "mat_texid": ("ntex", None),
    "pair_geom1": ("ngeom", None), "pair_geom2": ("ngeom", None),
    "tendon_adr": ("nwrap", "tendon_num"), "tendon_matid": ("nmat", None), "tendon_actuatorid": ("nactuator", None),
    "tendon_treeid": ("ntree", None),
    "actuator_actadr": ("na", "actuator_actnum"), "actuator_ctrladr": ("nu", "actuator_ctrlnum"),
    "actuator_outadr": ("nout", "actuator_outnum"),
    "numeric_adr": ("nnumericdata", "numeric_size"), "text_adr": ("ntextdata", "text_size"), "tuple_adr": ("ntupledata", "tuple_size"),
    "name_bodyadr": ("nnames", None), "name_jntadr": ("nnames", None), "name_geomadr": ("nnames", None),
    "name_siteadr": ("nnames", None), "name_camadr": ("nnames", None), "name_lightadr": ("nnames", None),
    "name_hfieldadr": ("nnames", None), "name_texadr": ("nnames", None), "name_matadr": ("nnames", None),
    "name_pairadr": ("nnames", None), "name_excludeadr": ("nnames", None), "name_eqadr": ("nnames", None),
    "name_tendonadr": ("nnames", None), "name_actuatoradr": ("nnames", None), "name_sensoradr": ("nnames", None),
    "name_numericadr": ("nnames", None), "name_textadr": ("nnames", None), "name_tupleadr": ("nnames", None),
    "name_keyadr": ("nnames", None),
    "B_rowadr": ("nB", "B_rownnz"), "M_rowadr": ("nC", "M_rownnz"), "D_rowadr": ("nD", "D_rownnz"),
    "B_colind": ("nv", None), "M_colind": ("nv", None), "D_colind": ("nv", None),
}

# arrays for which mjmodel.h documents -1 as "none" (or whose -1 entries occur in valid models); every other array
# of ORACLE_REFS has no "none" value: a negative entry is out of bounds
ORACLE_OPTIONAL = {"body_mocapid", "body_treeid", "body_jntadr", "body_dofadr", "body_geomadr", "body_bvhadr", "dof_parentid",
                   "geom_matid", "site_matid", "cam_targetbodyid", "light_targetbodyid", "light_texid", "mat_texid", "tendon_matid",
                   "tendon_actuatorid", "tendon_treeid", "jnt_actuatorid", "actuator_actadr", "actuator_ctrladr", "actuator_outadr"}

# object type -> size field (numObjects of engine_io.c, re-stated from the documentation of mjtObj)
OBJ_SIZE = {"mjOBJ_BODY": "nbody", "mjOBJ_XBODY": "nbody", "mjOBJ_JOINT": "njnt", "mjOBJ_DOF": "nv", "mjOBJ_GEOM": "ngeom",
            "mjOBJ_SITE": "nsite", "mjOBJ_CAMERA": "ncam", "mjOBJ_LIGHT": "nlight", "mjOBJ_FLEX": "nflex", "mjOBJ_MESH": "nmesh",
            "mjOBJ_SKIN": "nskin", "mjOBJ_HFIELD": "nhfield", "mjOBJ_TEXTURE": "ntex", "mjOBJ_MATERIAL": "nmat", "mjOBJ_PAIR": "npair",
            "mjOBJ_EXCLUDE": "nexclude", "mjOBJ_EQUALITY": "neq", "mjOBJ_TENDON": "ntendon", "mjOBJ_ACTUATOR": "nactuator",
            "mjOBJ_SENSOR": "nsensor", "mjOBJ_NUMERIC": "nnumeric", "mjOBJ_TEXT": "ntext", "mjOBJ_TUPLE": "ntuple", "mjOBJ_KEY": "nkey",
            "mjOBJ_PLUGIN": "nplugin"}


def typed_refs(arrays, ds, E):
    """cross-references whose target depends on a type field (the hand-written part of mj_validateReferences), re-stated
    from mjmodel.h: yields (array, element, value, lo, hi, type description); in bounds iff lo <= value < hi.
    arrays: name -> bytes; ds: size name -> value; E: enumerator name -> value (from the driver)"""
    def ints(name):
        raw = arrays.get(name, b"")
        return struct.unpack("<%di" % (len(raw) // 4), raw[:4 * (len(raw) // 4)])
    inv = {}
    for k_, v_ in E.items():
        inv.setdefault(k_.split("_")[0], {})[v_] = k_
    out = []
    trn, tid = ints("actuator_trntype"), ints("actuator_trnid")
    for i, t in enumerate(trn):
        if 2 * i + 1 >= len(tid):
            break
        tn = inv["mjTRN"].get(t)
        a, b = tid[2 * i], tid[2 * i + 1]
        if tn in ("mjTRN_JOINT", "mjTRN_JOINTINPARENT"):
            out.append(("actuator_trnid", 2 * i, a, 0, ds["njnt"], tn))
        elif tn == "mjTRN_TENDON":
            out.append(("actuator_trnid", 2 * i, a, 0, ds["ntendon"], tn))
        elif tn == "mjTRN_SITE":
            out.append(("actuator_trnid", 2 * i, a, 0, ds["nsite"], tn))
            out.append(("actuator_trnid", 2 * i + 1, b, -1, ds["nsite"], tn + " refsite"))
        elif tn == "mjTRN_SLIDERCRANK":
            out.append(("actuator_trnid", 2 * i, a, 0, ds["nsite"], tn + " crank site"))
            out.append(("actuator_trnid", 2 * i + 1, b, 0, ds["nsite"], tn + " slider site"))
        elif tn == "mjTRN_BODY":
            out.append(("actuator_trnid", 2 * i, a, 0, ds["nbody"], tn))
        elif tn == "mjTRN_SO3":
            if b == -1:
                out.append(("actuator_trnid", 2 * i, a, 0, ds["njnt"], tn + " joint"))
            else:
                out.append(("actuator_trnid", 2 * i, a, 0, ds["nsite"], tn + " site"))
                out.append(("actuator_trnid", 2 * i + 1, b, 0, ds["nsite"], tn + " refsite"))
    wt, wo = ints("wrap_type"), ints("wrap_objid")
    for i, t in enumerate(wt[:len(wo)]):
        tn = inv["mjWRAP"].get(t)
        tgt = {"mjWRAP_JOINT": "njnt", "mjWRAP_SITE": "nsite", "mjWRAP_SPHERE": "ngeom", "mjWRAP_CYLINDER": "ngeom"}.get(tn)
        if tgt:
            out.append(("wrap_objid", i, wo[i], 0, ds[tgt], tn))
    et, eo, e1, e2 = ints("eq_type"), ints("eq_objtype"), ints("eq_obj1id"), ints("eq_obj2id")
    for i, t in enumerate(et[:len(e1)]):
        tn = inv["mjEQ"].get(t)
        if tn in ("mjEQ_JOINT", "mjEQ_TENDON"):
            n = ds["njnt" if tn == "mjEQ_JOINT" else "ntendon"]
            out.append(("eq_obj1id", i, e1[i], 0, n, tn))
            out.append(("eq_obj2id", i, e2[i], -1, n, tn))
        elif tn in ("mjEQ_CONNECT", "mjEQ_WELD"):
            on = inv["mjOBJ"].get(eo[i])
            if on in ("mjOBJ_BODY", "mjOBJ_SITE"):
                n = ds[OBJ_SIZE[on]]
                out.append(("eq_obj1id", i, e1[i], 0, n, tn + "/" + on))
                out.append(("eq_obj2id", i, e2[i], 0, n, tn + "/" + on))
        elif tn in ("mjEQ_FLEX", "mjEQ_FLEXVERT", "mjEQ_FLEXSTRAIN"):
            out.append(("eq_obj1id", i, e1[i], 0, ds["nflex"], tn))
    so, si, sr, sri = ints("sensor_objtype"), ints("sensor_objid"), ints("sensor_reftype"), ints("sensor_refid")
    for i in range(min(len(so), len(si))):
        on = inv["mjOBJ"].get(so[i])
        if on in OBJ_SIZE:
            out.append(("sensor_objid", i, si[i], 0, ds[OBJ_SIZE[on]], on))
        rn = inv["mjOBJ"].get(sr[i]) if i < len(sr) else None
        if rn in OBJ_SIZE and i < len(sri):
            out.append(("sensor_refid", i, sri[i], -1, ds[OBJ_SIZE[rn]], rn))
    ta, tsz, tt, to = ints("tuple_adr"), ints("tuple_size"), ints("tuple_objtype"), ints("tuple_objid")
    for i in range(min(len(ta), len(tsz))):
        for j in range(max(0, tsz[i])):
            a = ta[i] + j
            if 0 <= a < min(len(tt), len(to)):
                on = inv["mjOBJ"].get(tt[a])
                if on in OBJ_SIZE:
                    out.append(("tuple_objid", a, to[a], 0, ds[OBJ_SIZE[on]], on))
    gt, gd = ints("geom_type"), ints("geom_dataid")
    for i, t in enumerate(gt[:len(gd)]):
        tn = inv["mjGEOM"].get(t)
        if tn == "mjGEOM_HFIELD":
            out.append(("geom_dataid", i, gd[i], -1, ds["nhfield"], tn))
        elif tn in ("mjGEOM_MESH", "mjGEOM_SDF"):
            out.append(("geom_dataid", i, gd[i], -1, ds["nmesh"], tn))
    return out


# lower bounds other than -1/0: -2 is the "several actuators on this joint/tendon" sentinel of mj_setConst
ORACLE_LO = {"jnt_actuatorid": -2, "tendon_actuatorid": -2}
# arrays holding a type enumerator that selects a branch of mj_validateReferences
TYPE_FIELDS = ["jnt_type", "geom_type", "eq_type", "eq_objtype", "wrap_type", "actuator_trntype", "sensor_type", "sensor_objtype",
               "sensor_reftype", "tuple_objtype"]

CODEC_WARN = [
    ("Model file has an incomplete header", (1, 0)),
    ("Model missing header ID", (2, 0)),
    ("Model and executable have different floating point precision", (2, 1)),
    ("Model and executable have different number of sizes in mjModel", (2, 2)),
    ("Model and executable use different MuJoCo version", (2, 3)),
    ("Model and executable have different number of pointers in mjModel", (2, 4)),
    ("Truncated model file - ran out of data while reading sizes", (3, 0)),
    ("Invalid model: nbody == 0", (6, 0)),
    ("Invalid model: size of nnames_map is larger than INT_MAX", (7, 0)),
    ("Truncated model file - ran out of data while reading structs", (10, 0)),
    ("Model file is too large", (12, 0)),
]
SPECIAL_SAME_TEXT = {"jnt_qposadr", "jnt_dofadr"}   # the special-case logic emits the same text as the table


def lcg_bytes(seed, n):
    x = (seed * 2654435761 + 12345) & 0xFFFFFFFF
    out = []
    for _ in range(n):
        x = (x * 1664525 + 1013904223) & 0xFFFFFFFF
        out.append(x >> 24)
    return out


def packed(bs):
    """bytes as 16-byte little-endian words (far fewer literals for Coq to parse)"""
    ws = []
    for i in range(0, len(bs), 16):
        ws.append(int.from_bytes(bytes(bs[i:i + 16]), "little"))
    return "(firstn %d (flat_map (le_enc 16) %s))" % (len(bs), zl(ws))


class Impl:
    """parsed answers of the driver for one model"""
    pass


def classify(meta, kind, first, last):
    """implementation outcome -> (class, index) in the numbering of Model/MJB.v reason_code;
    15 = rejected by a check of mj_validateReferences outside the table; 90 mju_error; 91 crash"""
    if kind == "A":
        return (0, 0)
    if kind == "E":
        return (90, 0)
    if kind == "C":
        return (91, 0)
    sidx = {s: i for i, s in enumerate(meta["sizes"])}
    aidx = {a["name"]: i for i, a in enumerate(meta["arrays"])}
    w = first
    for txt, code in CODEC_WARN:
        if w == txt:
            return code
    import re
    m = re.fullmatch(r"Corrupted model, wrong (\w+) field", w)
    if m:
        if m.group(1) == meta["sizes"][-1]:
            return (9, 0)
        if m.group(1) == meta["sizes"][meta["map_idx"]]:
            return (18, 0)
    m = re.fullmatch(r"Invalid model: (\w+) is negative \((-?\d+)\)\.", w)
    if m and m.group(1) in sidx:
        return (4, sidx[m.group(1)])
    m = re.fullmatch(r"Invalid model: (\w+) is too large\. Expected < \d+\. Got -?\d+\.", w)
    if m and m.group(1) in sidx:
        return (5, sidx[m.group(1)])
    m = re.fullmatch(r"Invalid model: (\w+) too large\.", w)
    if m and m.group(1) in aidx:
        return (8, aidx[m.group(1)])
    m = re.fullmatch(r"Truncated model file - ran out of data while reading (\w+)", w)
    if m and m.group(1) in aidx:
        return (11, aidx[m.group(1)])
    m = re.fullmatch(r"Invalid model: m->(\w+) is negative\.", w)
    if m:
        for j, rf in enumerate(meta["refs"]):
            if rf["num_name"] == m.group(1):
                return (13, j)
    m = re.fullmatch(r"Invalid model: (\w+) is negative\.", w)
    if m:
        for j, q in enumerate(meta["reqs"]):
            if q["name"] == m.group(1):
                return (19, j)
    m = re.fullmatch(r"Invalid model: (\w+) out of bounds\.", w)
    if m:
        for j, rf in enumerate(meta["refs"]):
            if rf["name"] == m.group(1):
                return (16 if m.group(1) in SPECIAL_SAME_TEXT else 14, j)
    if w == "Invalid sizes, unable to load model":
        return (17, 0)
    return (15, 0)


def nbuffer_of(meta, sizes):
    """mj_makeModel's buffer size for given size fields (python copy used only to build consistent corruptions)"""
    off = 0
    al = meta["align"]
    s = list(sizes)
    s[meta["map_idx"]] = meta["map_mult"] * sum(s[t] for t in meta["map_terms"])
    for a in meta["arrays"]:
        t = a["nc"]
        nc = a["nc_const"] if t[0] != "s" else s[t[1]] * t[2]
        nr = s[a["nr_idx"]] if (a["nr_idx"] < meta["nmake"] or a["nr_idx"] == meta["map_idx"]) else 0
        off += (al - off % al) % al + a["esz"] * nr * nc
    return off


def hexlist(h):
    return list(bytes.fromhex(h))


def zl(xs):
    if not xs:
        return "(@nil Z)"
    return "[" + ";".join(("(%d)" % x) if x < 0 else str(x) for x in xs) + "]"


def run(ctx):
    import time
    rng = ctx.rng
    state = {}
    timing = {}
    t0 = time.time()

    def lap(name):
        nonlocal t0
        timing[name] = round(time.time() - t0, 1)
        t0 = time.time()
        ctx.cov["support"]["timing_s"] = timing

    def gen():
        def run_info(src):
            p = os.path.join(ctx.scratch, "c31_info.c")
            F.write_if_changed(p, src)
            exe = ctx.driver("c31_info", [p], with_lib=False)
            if exe is None:
                raise F.TranslatorError("cannot compile the info program against %s/include" % ctx.repo)
            rc, out, err = ctx.run(exe, "")
            if rc != 0:
                raise F.TranslatorError("info program failed rc=%s %s" % (rc, err[-300:]))
            return out
        try:
            files, meta = X.translate(ctx.repo, run_info)
        except X.TranslatorError as e:
            raise F.TranslatorError(str(e))
        state["meta"] = meta
        return files

    ok_props = ctx.coq_props(allowed_axioms=(), gen=gen,
                             extra_targets=["Model/MJB.vo", "Gen/ModelLayout.vo", "Proof/MJBProof.vo"])
    meta = state.get("meta")
    lap("coq_props")
    if meta is None:
        return
    if meta.get("unserialized"):
        ctx.broken.append(("translator", "mjModel member(s) %s are neither size fields nor written by mj_saveModel / read by "
                           "mj_loadModelBuffer (struct blocks: %s): a loaded model cannot reproduce them" %
                           (meta["unserialized"], [f for f, _, _ in meta["structs"]]), ""))
    ctx.cov["support"]["translator"] = {"sizes": len(meta["sizes"]), "arrays": len(meta["arrays"]), "refs": len(meta["refs"]),
                                        "header": meta["hdr"], "structs": meta["structs"], "nmake": meta["nmake"]}
    exe = ctx.driver("c31_mjb", ["c31_mjb.c"])
    if exe is None:
        return
    sizes_n, arrs = meta["sizes"], meta["arrays"]
    sidx = {s: i for i, s in enumerate(sizes_n)}
    aidx = {a["name"]: i for i, a in enumerate(arrs)}
    nmodels = 4
    thorough = ctx.tier == "thorough"

    # ---------------------------------------------------------------- phase A: the models themselves
    # random models of harness/drivers/mjgen.h: all get the save/load/re-save oracle, the first few the byte-exact model check
    ngen = 300 if thorough else 30
    gens = {}
    for i in range(ngen):
        gens[100 + i] = (rng.randrange(1 << 40), 0x7FFFF if i % 3 == 0 else rng.randrange(0x80000), rng.randrange(1, 8))
    full_ids = list(range(nmodels)) + [100 + i for i in range(12 if thorough else 3)]
    cmds = "ENUMS\n" + "".join("MODEL %d\nDUMP\nOFFS\nRELOAD\n" % k for k in range(nmodels))
    cmds += "".join("GEN %d %d %d %d\n%sRELOAD\n" % ((g,) + gens[g] + ("DUMP\nOFFS\n" if g in full_ids else "",)) for g in gens)
    rc, out, err = ctx.run(exe, cmds)
    if rc != 0 or "END" not in out:
        ctx.broken.append(("correspondence", "driver c31_mjb failed", "rc=%s %s %s" % (rc, out[-300:], err[-300:])))
        return
    models = {}
    cur = None
    ENUM = {}
    for line in out.split("\n"):
        t = line.split(" ")
        if t[0] == "E":
            ENUM[t[1]] = int(t[2])
        elif t[0] == "M":
            cur = Impl()
            cur.k = int(t[1]); cur.ok = t[2] == "1"; cur.msg = line
            if cur.ok:
                cur.size, cur.nbuffer, cur.over = int(t[3]), int(t[4]), int(t[5])
            cur.structs, cur.arrays, cur.offs = [], [], []
            models[cur.k] = cur
        elif t[0] == "Z":
            cur.sizes = list(map(int, t[1:]))
        elif t[0] == "T":
            cur.structs.append((t[1], hexlist(t[2]) if len(t) > 2 else []))
        elif t[0] == "A":
            cur.arrays.append((t[2], int(t[3]), int(t[4]), hexlist(t[5]) if len(t) > 5 else []))
        elif t[0] == "F":
            cur.file = hexlist(t[1])
        elif t[0] == "O":
            cur.offs.append((int(t[2]), int(t[3]), int(t[4]) if len(t) > 4 else -1))
        elif t[0] == "R":
            parts = line.split(" | ")
            cur.reload = parts[0].split(" ")[1:]
            cur.scalars = parts[1].split("=", 1)[1].strip(" ,") if len(parts) > 1 else ""
            cur.fwd = parts[2].split("=", 1)[1].strip() if len(parts) > 2 else "0"
    model_cases = []
    model_case_ids = []

    def mdesc(k):
        return {"model": k} if k < 100 else {"model": "mjgen", "seed": gens[k][0], "feat": gens[k][1], "nbody": gens[k][2]}
    for k in list(range(nmodels)) + sorted(gens):
        im = models.get(k)
        if im is None or not im.ok:
            ctx.violation("impl_violation", mdesc(k), expected="model compiles and mj_saveModel writes mj_sizeModel bytes",
                          observed=(im.msg if im else "no answer"), theorem="C31_size", signature={"site": "mj_saveModel", "model": k})
            continue
        if im.over:
            ctx.violation("impl_violation", mdesc(k), expected="mj_saveModel writes exactly mj_sizeModel bytes",
                          observed="size %d flags=%d (1: wrote past, 2: left bytes unwritten)" % (im.size, im.over), theorem="C31_size",
                          signature={"site": "mj_saveModel"})
        fwdval = None
        try:
            fwdval = float(im.fwd.split()[0])
        except (ValueError, IndexError, AttributeError):
            pass
        if getattr(im, "scalars", "") or (fwdval is not None and not (abs(fwdval) <= 1e-9)):
            ctx.violation("impl_violation", mdesc(k),
                          expected="load(save(m)) identical to m in every non-pointer member of mjModel and in mj_forward's qacc/qfrc_passive/qfrc_constraint",
                          observed="differing members after save+load: [%s]; mj_forward difference (max abs, or error): %s" % (im.scalars, im.fwd),
                          theorem="C31_roundtrip", signature={"site": "mj_saveModel", "defect": "member_not_serialized", "member": im.scalars})
        elif im.reload[:5] != ["1", "1", "1", "0", "1"]:
            ctx.violation("impl_violation", mdesc(k),
                          expected="load(save(m)) accepted, identical in every size/struct/array, re-save byte-identical",
                          observed="accepted same_sizes same_structs arrays_differing resave_identical = %s" % " ".join(im.reload),
                          theorem="C31_roundtrip", signature={"site": "mj_loadModelBuffer", "defect": "roundtrip"})
        if k not in full_ids:
            continue
        if [a[0] for a in im.arrays] != [a["name"] for a in arrs] or len(im.sizes) != len(sizes_n):
            ctx.broken.append(("correspondence", "driver and translator disagree on the X-macro tables", "model %d" % k))
            return
        # oracle on implementation output
        if len(im.file) != im.size:
            ctx.violation("impl_violation", mdesc(k), expected="mj_saveModel writes exactly mj_sizeModel bytes",
                          observed="size %d file %d" % (im.size, len(im.file)), theorem="C31_size", signature={"site": "mj_saveModel"})
        for (name, nb, mo, data), (first, cnt, last) in zip(im.arrays, im.offs):
            if nb and (cnt != nb or last - first + 1 != nb):
                    ctx.violation("impl_violation", dict(mdesc(k), array=name), expected="array occupies %d contiguous bytes of the file" % nb,
                              observed="perturbing it changes %d bytes in [%d,%d]" % (cnt, first, last), theorem="C31_size",
                              signature={"site": "mj_saveModel", "array": name})
        sd = dict(im.structs)
        if any(f not in sd for f, _, _ in meta["structs"]):
            ctx.broken.append(("correspondence", "mj_saveModel writes a block the driver does not dump",
                               str([f for f, _, _ in meta["structs"] if f not in sd])))
            return
        im.structs = [(f, sd[f]) for f, _, _ in meta["structs"]]
        memblob = [b for a in im.arrays for b in a[3]]
        model_cases.append("(%s, %s, [%s], (%s, %s), %d, %d, %s, %s)" % (
            packed(im.file), zl(im.sizes), ";".join(zl(b) for _, b in im.structs), packed(memblob), zl([a[1] for a in im.arrays]), im.size, im.nbuffer,
            "[" + ";".join("(%d,%d)" % (o[0] if a[1] else -1, a[1]) for a, o in zip(im.arrays, im.offs)) + "]",
            zl([a[2] for a in im.arrays])))
        model_case_ids.append(k)
    good = [k for k in range(nmodels) if k in models and models[k].ok]
    if not good:
        return
    pre0 = ""
    pre = "".join("Definition base%d : list Z := Eval vm_compute in %s.\n" % (k, packed(models[k].file)) for k in good)
    pre += "Definition base (k : Z) : list Z := %s [].\n" % "".join("if k =? %d then base%d else " % (k, k) for k in good)
    imports = ("From Coq Require Import ZArith List Bool.\nFrom MJV Require Import Lib.Eqb Model.MJB Gen.ModelLayout.\n"
               "Import ListNotations.\nOpen Scope Z_scope.")
    defs = r"""
Definition L := real_layout.
Fixpoint zll_eqb (a b : list (list Z)) : bool :=
  match a, b with [], [] => true | x :: r, y :: s => zlist_eqb x y && zll_eqb r s | _, _ => false end.
Definition model_eqb (a b : model) : bool :=
  zlist_eqb (m_sizes a) (m_sizes b) && zll_eqb (m_structs a) (m_structs b) && zll_eqb (m_arrays a) (m_arrays b).
Fixpoint offs_ok (pred : list (Z * Z)) (act : list (Z * Z)) : bool :=
  match pred, act with
  | [], [] => true
  | (po, pn) :: pr, (ao, an) :: ar => (pn =? an) && ((an =? 0) || (po =? ao)) && offs_ok pr ar
  | _, _ => false
  end.
Fixpoint split_lens (lens : list Z) (l : list Z) : list (list Z) :=
  match lens with [] => [] | n :: r => firstn (Z.to_nat n) l :: split_lens r (skipn (Z.to_nat n) l) end.
Definition check_model (c : list Z * list Z * list (list Z) * (list Z * list Z) * Z * Z * list (Z * Z) * list Z) : bool :=
  let '(file, szs, sts, (blob, lens), fsize, nbuf, foffs, moffs) := c in
  let ars := split_lens lens blob in
  let m := mkModel szs sts ars in
  wf_layout L && wf_modelb L m && zlist_eqb (encode L m) file && (sizeModel L m =? fsize)
  && match decode L file with Ok m' => model_eqb m m' | _ => false end
  && offs_ok (file_offsets szs (arrays_start L) (l_arrays L)) foffs
  && match make_model L szs with
     | inr (nb, plan) => (nb =? nbuf) && zlist_eqb (map fst plan) moffs
     | inl _ => false end.
(* corrupted copies: (model, truncation, patches, appended bytes, implementation class, index, canary, alloc limit) *)
Definition agree (mc ic : Z * Z) (nb lim : Z) (ovf : bool) (canary : Z) : bool :=
  let '(mcl, mi) := mc in let '(icl, ii) := ic in
  if mcl =? 99 then true                                   (* undefined behaviour in the C code: not compared *)
  else if ovf then ((0 <? canary) || (icl =? 91))           (* predicted write outside the model buffer *)
  else (canary =? 0) &&
    (if (lim <? nb) && (icl =? 90) then true               (* allocation refused by the harness allocator *)
     else if mcl =? 0 then (icl =? 0) || (icl =? 15) || (icl =? 16)   (* table accepts: special-case logic may still reject *)
     else if (mcl =? 14) && (icl =? 16) then mi =? ii
     else if (4 <=? mcl) && (mcl <=? 8) && (icl =? 17) then true      (* only the generic "Invalid sizes" warning seen *)
     else (mcl =? icl) && (mi =? ii)).
Definition mkc (a b : Z) (c : list (Z * Z)) (d : list Z) (e1 e2 f g : Z) := (a, b, c, d, (e1, e2), f, g).
Definition check_case (c : Z * Z * list (Z * Z) * list Z * (Z * Z) * Z * Z) : bool :=
  let '(k, trunc, ps, app, ic, canary, lim) := c in
  let b := apply_patches (firstn (Z.to_nat trunc) (base k) ++ app) ps in
  let lb := zlen b in
  let '(o, rds, wrs, nb) := decode_i L b in
  forallb (fun r => (0 <=? fst r) && (0 <=? snd r) && (fst r + snd r <=? lb)) rds &&
  agree (outcome_code o) ic nb lim (existsb (write_outside nb) wrs) canary.
"""
    lap("driver_models")
    fails = ctx.coq_eval("c31_models", imports, model_cases, "check_model", shard=1,
                         pre="Definition base (k : Z) : list Z := [].\n" + defs)
    pre = pre + defs
    lap("coq_models")
    for i in fails[:3]:
        k = model_case_ids[i] if i < len(model_case_ids) else -1
        ctx.violation("correspondence", mdesc(k), expected="Model/MJB.v: encode = file bytes, sizeModel = mj_sizeModel, decode(file) = the "
                      "model in memory, predicted file/memory offsets of every array = actual, nbuffer equal, model well-formed",
                      observed="disagreement for mjSpec model %s (see build/scratch/C31/eval_c31_models)" % k, found_input=False,
                      theorem="correspondence c31_models")

    # ---------------------------------------------------------------- phase B: corrupted copies
    cases = []   # dict(model, trunc, patches, nappend, seed, dump, fwd, tag)

    def add(k, tag, trunc=None, patches=(), nappend=0, seed=0, dump=0, fwd=0, info=None):
        im = models[k]
        cases.append({"model": k, "tag": tag, "trunc": im.size if trunc is None else trunc, "patches": list(patches),
                      "nappend": nappend, "seed": seed, "dump": dump, "fwd": fwd, "info": info})

    def setint(off, val, width):
        b = struct.pack("<q" if width == 8 else "<i", val)
        return [(off + i, b[i]) for i in range(width)]

    nh = 4 * len(meta["hdr"])
    szoff = lambda i: nh + 8 * i
    for k in good:
        im = models[k]
        n = im.size
        # truncations
        if thorough and n <= 4000:
            lens = list(range(n))
        else:
            ess = {0, 1, nh - 1, nh, nh + 1, nh + 8 * len(sizes_n) - 1, nh + 8 * len(sizes_n), nh + 8 * len(sizes_n) + 1, n - 1, n - 2}
            p = nh + 8 * len(sizes_n)
            for _, _, sz in meta["structs"]:
                p += sz
                ess |= {p - 1, p, p + 1}
            bnd = set()
            for (name, nb, mo, data), (first, cnt, last) in zip(im.arrays, im.offs):
                if nb:
                    bnd |= {first - 1, first, first + 1}
            bnd = sorted(x for x in bnd if 0 <= x < n)
            if not thorough:
                bnd = rng.sample(bnd, min(len(bnd), 40 if k > 1 else 70))
            lens = sorted({x for x in ess if 0 <= x < n} | set(bnd) | {rng.randrange(n) for _ in range(3000 if thorough else 30)})
        for ln in lens:
            add(k, "trunc", trunc=ln)
        # appended bytes
        for na in (1, 3, 64):
            add(k, "append", nappend=na, seed=rng.randrange(1 << 30))
        # header: every byte, two values; every field to a neighbouring value
        for o in range(nh):
            for v in ((im.file[o] ^ 0xFF), (im.file[o] + 1) & 0xFF):
                if thorough or k in (0, 2):
                    add(k, "hdr", patches=[(o, v)])
        for i, hv in enumerate(meta["hdr"]):
            for v in (hv + 1, hv - 1, 0, -hv):
                add(k, "hdr", patches=setint(4 * i, v, 4))
        # size fields: single bytes and whole values
        for i, sname in enumerate(sizes_n):
            o = szoff(i)
            v0 = im.sizes[i]
            cand = [(o, (im.file[o] + 1) & 0xFF), (o, (im.file[o] - 1) & 0xFF), (o + 3, 0x80), (o + 7, 0x80), (o + 1, 1)]
            if not thorough:
                cand = cand[:3] if k == 0 else (rng.sample(cand, 1) if (k == 1 or rng.random() < 0.5) else [])
            for pv in cand:
                add(k, "size1", patches=[pv], info=sname)
            vals = [-1, 0, v0 + 1, INT_MAX, INT_MAX - 1, 1 << 40]
            if not thorough:
                vals = vals[:3] if k == 0 else (rng.sample(vals, 1) if (k == 1 or rng.random() < 0.5) else [])
            for v in vals:
                add(k, "sizeN", patches=setint(o, v, 8), info=sname)
        # consistent multi-field corruptions: shrink one array family, fix nbuffer
        for sname in ("nq", "nv", "nbody", "ngeom", "nkey", "nnames", "npaths", "nuser_geom", "nmocap", "ntexdata", "nsensor"):
            i = sidx[sname]
            for d in (-1, 1):
                s2 = list(im.sizes)
                s2[i] += d
                if s2[i] < 0:
                    continue
                pt = setint(szoff(i), s2[i], 8) + setint(szoff(len(sizes_n) - 1), nbuffer_of(meta, s2), 8)
                add(k, "sizeN+nbuffer", patches=pt, info=sname)
        # the unvalidated size field: nnames_map larger/smaller than allocated, with and without matching file length
        mi = meta["map_idx"]
        for d in (1, 16, 300, 2000, -1):
            s2 = list(im.sizes)
            s2[mi] += d
            if s2[mi] < 0:
                continue
            pt = setint(szoff(mi), s2[mi], 8)
            if d > 0:
                add(k, "mapfield+append", patches=pt, nappend=4 * d, seed=rng.randrange(1 << 30), info=d)
            else:
                add(k, "mapfield+trunc", trunc=n + 4 * d, patches=pt, dump=1, info=d)
            add(k, "mapfield", patches=pt, info=d)
        for v in (-1, -(1 << 62), 1 << 62, (1 << 62) + 1, 1 << 61):
            add(k, "mapfield", patches=setint(szoff(mi), v, 8), info=v)
        # same length: names shortened by 4k bytes, names_map lengthened by k entries, nbuffer recomputed
        inn = sidx["nnames"] if "nnames" in sidx else None
        if inn is not None:
            for kk in (1, 8, 100, 400):
                s2 = list(im.sizes)
                if s2[inn] - 4 * kk < 1:
                    continue
                s2[inn] -= 4 * kk
                nb2 = nbuffer_of(meta, s2)
                s2[mi] += kk
                pt = setint(szoff(inn), s2[inn], 8) + setint(szoff(mi), s2[mi], 8) + setint(szoff(len(sizes_n) - 1), nb2, 8)
                add(k, "mapfield-samelength", patches=pt, info=kk)
        # reference arrays (table of the code and the oracle's own list)
        refnames = [rf["name"] for rf in meta["refs"]]
        tested = list(dict.fromkeys(refnames + sorted(ORACLE_REFS)))
        for name in tested:
            ai = aidx.get(name)
            if ai is None or arrs[ai]["esz"] != 4:
                continue
            nb = im.arrays[ai][1]
            if nb < 4:
                continue
            first = im.offs[ai][0]
            tgtname = ORACLE_REFS[name][0] if name in ORACLE_REFS else [rf for rf in meta["refs"] if rf["name"] == name][0]["tgt_name"]
            tgt = im.sizes[sidx[tgtname]]
            nel = nb // 4
            vals = [tgt, -1, INT_MAX, -2, tgt + 1000000, tgt - 1]
            if not thorough:
                vals = vals[:3] if k == 2 else rng.sample(vals, 1)
            if name in ORACLE_LO and (thorough or k == 2):
                vals = vals + [v for v in (-2, -3) if v not in vals]
            for v in vals:
                e = rng.randrange(nel) if nel > 1 else 0
                if nel > 1 and rng.random() < 0.5:
                    e = nel - 1
                add(k, "ref", patches=setint(first + 4 * e, v, 4), dump=1, fwd=1 if (k >= 2 and (thorough or rng.random() < 0.3)) else 0,
                    info=(name, e, v))
        # references whose target depends on a type field (actuator_trnid by trntype, wrap_objid, eq_obj*id, sensor_objid/refid,
        # tuple_objid, geom_dataid): every entry, just outside its range on both sides (fixed corpus for the rich model)
        base_arr = {a[0]: bytes(a[3]) for a in im.arrays}
        for (name, e, v, lo, hi, tdesc) in typed_refs(base_arr, dict(zip(sizes_n, im.sizes)), ENUM):
            ai = aidx.get(name)
            vals = [hi, lo - 1, hi + 1000000, INT_MAX]
            if not thorough:
                vals = vals[:2] if k == 2 else rng.sample(vals, 1)
            for nv in vals:
                add(k, "typedref", patches=setint(im.offs[ai][0] + 4 * e, nv, 4), dump=1,
                    fwd=1 if (k == 2 and thorough) else 0, info=(name, e, nv, tdesc))
        # type fields set to values outside their enumeration (and sensor_type to mjSENS_PLUGIN in a model without plugins):
        # the loader must reject (or accept) without raising mju_error or crashing.  Fixed corpus for the rich model.
        if k == 2 or thorough:
            for name in TYPE_FIELDS:
                ai = aidx.get(name)
                if ai is None or im.arrays[ai][1] < 4:
                    continue
                nel = im.arrays[ai][1] // 4
                tvals = [99, -1, 1 << 20] + ([ENUM["mjSENS_PLUGIN"]] if name == "sensor_type" and "mjSENS_PLUGIN" in ENUM else [])
                for e in sorted({0, nel - 1}):
                    for nv in tvals:
                        add(k, "typefield", patches=setint(im.offs[ai][0] + 4 * e, nv, 4), dump=1, info=(name, e, nv))
        # fixed corpus (both tiers, independent of the seed): -1 in references that have no "none" value
        if k == 2:
            for name, e, fw in (("M_rowadr", 11, 1), ("body_parentid", 3, 0), ("jnt_bodyid", 1, 0), ("geom_bodyid", 2, 0),
                                ("dof_Madr", 3, 0), ("name_bodyadr", 1, 0), ("B_rowadr", 2, 0)):
                ai = aidx.get(name)
                if ai is not None and im.arrays[ai][1] >= 4 * (e + 1):
                    add(k, "ref", patches=setint(im.offs[ai][0] + 4 * e, -1, 4), dump=1, fwd=fw, info=(name, e, -1))
        # random bytes in header+sizes, and anywhere
        for rep in range(300 if thorough else 40):
            kb = rng.randrange(1, 5)
            add(k, "rand-prefix", patches=[(rng.randrange(nh + 8 * len(sizes_n)), rng.randrange(256)) for _ in range(kb)])
        for rep in range(200 if thorough else 25):
            kb = rng.randrange(1, 4)
            add(k, "rand-any", patches=[(rng.randrange(n), rng.randrange(256)) for _ in range(kb)], dump=1)
    rp = getattr(ctx, "replay", None)
    if rp and isinstance(rp.get("case"), dict) and "patches(offset,byte)" in rp["case"] and rp["case"].get("model") in good:
        rc_ = rp["case"]                 # --replay: exactly that corrupted buffer
        cases = [{"model": rc_["model"], "tag": rc_.get("tag", "replay"), "trunc": rc_["truncate_to"],
                  "patches": [tuple(x) for x in rc_["patches(offset,byte)"]], "nappend": rc_["appended"],
                  "seed": rc_["append_seed"], "dump": 1, "fwd": 1, "info": rc_.get("info")}]
    inp = []
    curk = None
    for i, c in enumerate(cases):
        if c["model"] != curk:
            curk = c["model"]
            inp.append("MODEL %d" % curk)
        inp.append("LOAD %d %d %d %d %d %s %d %d" % (i, c["trunc"], c["dump"], c["fwd"], len(c["patches"]),
                                                    " ".join("%d %d" % p for p in c["patches"]), c["nappend"], c["seed"]))
    # the file built by Proof/MJBProof.v overflow_witness for the regenerated layout (smallest model, derived size field
    # and its array lengthened): the witness of a write outside the model when the derived field is not checked
    okw, outw = ctx.coq_run("c31_witness", "From Coq Require Import ZArith List.\nFrom MJV Require Import Model.MJB Gen.ModelLayout Proof.MJBProof.\n"
                            "Definition w := Eval vm_compute in (let x := overflow_witness real_layout in (zlen x, le_dec_u x)).\nPrint w.\n"
                            "Definition p := Eval vm_compute in (let '(o, rds, wrs, nb) := decode_i real_layout (overflow_witness real_layout) in (outcome_code o, existsb (write_outside nb) wrs)).\nPrint p.\n")
    witness = None
    wpred = None
    if okw:
        import re
        m = re.search(r"w\s*=\s*\(\s*(\d+)\s*,\s*(\d+)\s*\)", outw)
        m2 = re.search(r"p\s*=\s*\(\s*(\d+)\s*,\s*(\d+)\s*,\s*(true|false)\s*\)", outw)
        if m and m2:
            witness = list(int(m.group(2)).to_bytes(int(m.group(1)), "little"))
            wpred = ((int(m2.group(1)), int(m2.group(2))), m2.group(3) == "true")
    if witness is not None:
        inp.append("RAW %d 0 0 %s" % (len(cases), bytes(witness).hex()))
    else:
        ctx.broken.append(("correspondence", "overflow_witness of Proof/MJBProof.v could not be evaluated", outw[-500:]))
    with open(os.path.join(ctx.scratch, "cases_input.txt"), "w") as f:
        f.write("\n".join(inp) + "\n")
    rc, out, err = ctx.run(exe, "\n".join(inp) + "\n", timeout=1500)
    if rc != 0 or "END" not in out:
        ctx.broken.append(("correspondence", "driver c31_mjb failed on the corruption cases", "rc=%s %s %s" % (rc, out[-300:], err[-300:])))
        return
    lap("driver_cases")
    res = {}
    dumps = {}
    curdump = None
    for line in out.split("\n"):
        if line.startswith("L "):
            head, w1, w2, em = (line.split(" | ") + ["", "", ""])[:4]
            t = head.split()
            i = int(t[1])
            res[i] = {"kind": t[2], "canary": int(t[3].split("=")[1]), "nwarn": int(t[4].split("=")[1]), "first": w1.strip(),
                      "last": w2.strip(), "err": em.strip(), "fwd": None}
            curdump = i
        elif line.startswith("Z ") and curdump is not None:
            dumps[curdump] = {"sizes": list(map(int, line.split()[1:])), "arrays": {}}
        elif line.startswith("A ") and curdump in dumps:
            t = line.split(" ")
            dumps[curdump]["arrays"][t[2]] = bytes.fromhex(t[5]) if len(t) > 5 else b""
        elif line.startswith("W "):
            head, em = (line.split(" | ") + [""])[:2]
            t = head.split()
            res[int(t[1])]["fwd"] = (t[2].split("=")[1], int(t[3].split("=")[1]), em.strip())

    def case_desc(c):
        return {"model": c["model"], "tag": c["tag"], "truncate_to": c["trunc"], "patches(offset,byte)": c["patches"],
                "appended": c["nappend"], "append_seed": c["seed"], "info": c["info"]}

    coq_cases = []
    nontriv = set()
    stats = {}
    for i, c in enumerate(cases):
        r = res.get(i)
        if r is None:
            ctx.broken.append(("correspondence", "no answer of the driver for case %d" % i, str(case_desc(c))))
            return
        code = classify(meta, r["kind"], r["first"], r["last"])
        stats[(c["tag"], r["kind"])] = stats.get((c["tag"], r["kind"]), 0) + 1
        nontriv.add((c["tag"], code))
        touched = {sizes_n[(o - nh) // 8] for o, _ in c["patches"] if nh <= o < nh + 8 * len(sizes_n)}
        is_map = c["tag"].startswith("mapfield") or sizes_n[meta["map_idx"]] in touched
        mapname = sizes_n[meta["map_idx"]]
        # ---- oracle on the implementation's behaviour (property text)
        if r["canary"] > 0 or r["kind"] == "C":
            field = mapname if is_map else (sorted(touched)[0] if touched else None)
            defect = "size_field_not_validated" if (is_map or touched or r["canary"] > 0) else "crash_in_loader"
            ctx.violation("impl_violation", case_desc(c), expected="rejected with a warning and NULL, or accepted without touching memory outside the model",
                          observed=("crash in mj_loadModelBuffer (%s)" % r["err"]) if r["kind"] == "C" else
                          "mj_loadModelBuffer returned %s after writing outside the allocated model buffer (canary overwritten)" %
                          ("a model" if r["kind"] == "A" else "NULL"),
                          theorem="C31_real_layout_sizes_checked" if defect == "size_field_not_validated" else "C31_reads_in_bounds",
                          signature={"site": "mj_loadModelBuffer", "defect": defect, "field": field,
                                     "array": c["info"][0] if c["tag"] in ("ref", "typedref", "typefield") else None})
        elif r["kind"] == "E" and "ould not allocate" not in r["err"]:
            ctx.violation("impl_violation", case_desc(c), expected="rejected with a warning and NULL", observed="mju_error: " + r["err"],
                          theorem="C31_reads_in_bounds", signature={"site": "mj_loadModelBuffer", "defect": "error_instead_of_rejection",
                                                                    "field": mapname if is_map else None})
        elif r["kind"] == "R" and r["nwarn"] == 0:
            ctx.violation("impl_violation", case_desc(c), expected="NULL together with a warning", observed="NULL without warning",
                          theorem="C31_truncation_rejected", signature={"site": "mj_loadModelBuffer", "defect": "silent_rejection"})
        elif r["kind"] == "A" and c["tag"] in ("trunc", "append"):
            ctx.violation("impl_violation", case_desc(c), expected="truncated file / file with trailing bytes rejected",
                          observed="accepted", theorem="C31_truncation_rejected" if c["tag"] == "trunc" else "C31_trailing_bytes_rejected",
                          signature={"site": "mj_loadModelBuffer", "defect": "wrong_length_accepted"})
        if r["kind"] == "A" and i in dumps:
            d = dumps[i]
            ds = dict(zip(sizes_n, d["sizes"]))
            for (name, e, v, lo, hi, tdesc) in typed_refs(d["arrays"], ds, ENUM):
                if not (lo <= v < hi):
                    ctx.violation("impl_violation", dict(case_desc(c), array=name, element=e, value=v, type=tdesc, range=[lo, hi]),
                                  expected="accepted model has %d <= %s[%d] < %d (%s)" % (lo, name, e, hi, tdesc),
                                  observed="%s[%d] = %d for %s, accepted without warning" % (name, e, v, tdesc),
                                  theorem="C31_validate_partial",
                                  signature={"site": "mj_validateReferences", "defect": "typed_reference_not_validated", "array": name,
                                             "type": tdesc})
                    break
            for name, (tgtname, numname) in ORACLE_REFS.items():
                raw = d["arrays"].get(name, b"")
                vals = struct.unpack("<%di" % (len(raw) // 4), raw[:4 * (len(raw) // 4)])
                nums = None
                if numname:
                    rawn = d["arrays"].get(numname, b"")
                    nums = struct.unpack("<%di" % (len(rawn) // 4), rawn[:4 * (len(rawn) // 4)])
                for e, v in enumerate(vals):
                    nmv = nums[e] if nums and e < len(nums) else 1
                    lo = ORACLE_LO.get(name, -1 if name in ORACLE_OPTIONAL else 0)
                    if v < lo or nmv < 0 or v + nmv > ds[tgtname]:
                        inrefs = name in refnames
                        if inrefs and v + nmv > INT_MAX:
                            defect = "adr_plus_num_int_overflow"
                        elif inrefs and v == -1:
                            defect = "negative_reference_accepted"
                        else:
                            defect = "reference_array_not_validated"
                        ctx.violation("impl_violation", dict(case_desc(c), array=name, element=e, value=v, num=nmv, target=ds[tgtname]),
                                      expected="accepted model has %d <= %s[i] and %s[i]+num <= %s" % (lo, name, name, tgtname),
                                      observed="%s[%d] = %d (num %d), %s = %d, accepted without warning" % (name, e, v, nmv, tgtname, ds[tgtname]),
                                      theorem="C31_validate_required_partial" if defect == "negative_reference_accepted" else "C31_validate_partial",
                                      signature={"site": "mj_validateReferences", "defect": defect, "array": name})
                        break
        if r["fwd"] is not None and (r["fwd"][0] == "crash" or r["fwd"][1] > 0):
            name = c["info"][0] if c["tag"] == "ref" else None
            neg = c["tag"] == "ref" and c["info"][2] == -1
            ctx.violation("impl_violation", case_desc(c), expected="an accepted model can be simulated without leaving its buffers",
                          observed="mj_makeData/mj_forward/mj_step on the accepted model: %s" % (r["fwd"],), theorem="C31_validate_partial",
                          signature={"site": "mj_validateReferences", "defect": "negative_reference_accepted" if neg else
                                     "reference_array_not_validated", "array": name})
        coq_cases.append("mkc %d %d %s %s %d %d %d %d" % (
            c["model"], c["trunc"], ("[" + ";".join("(%d,%d)" % p for p in c["patches"]) + "]") if c["patches"] else "(@nil (Z*Z))",
            zl(lcg_bytes(c["seed"], c["nappend"])), code[0], code[1], r["canary"] if r["canary"] >= 0 else 0, ALLOC_LIMIT))
    fails = ctx.coq_eval("c31_cases", imports, coq_cases, "check_case", shard=max(50, len(coq_cases) // 8 + 1), pre=pre, timeout=1200)
    lap("coq_cases")
    for i in fails[:5]:
        c, r = cases[i], res[i]
        ctx.violation("correspondence", case_desc(c), expected="decision of Model/MJB.v decode_i on the same bytes",
                      observed="implementation: %s %s | %s (class %s)" % (r["kind"], r["first"], r["err"], classify(meta, r["kind"], r["first"], r["last"])),
                      found_input=False, theorem="correspondence c31_cases",
                      note="model and implementation disagree on accept/reject (or its reason) for this buffer; the oracle on the implementation's own behaviour is reported separately if it fired")
    # ---- replay of the witness file
    if witness is not None:
        r = res.get(len(cases))
        if r is None:
            ctx.broken.append(("correspondence", "no answer for the witness replay", ""))
        else:
            icode = classify(meta, r["kind"], r["first"], r["last"])
            if r["canary"] > 0 or r["kind"] in ("C", "E"):
                ctx.violation("impl_violation", {"witness_hex": bytes(witness).hex(), "bytes": len(witness)},
                              expected="rejected with a warning and NULL, or accepted without writing outside the model",
                              observed="mj_loadModelBuffer -> %s canary=%d %s %s" % (r["kind"], r["canary"], r["first"], r["err"]),
                              theorem="C31_real_layout_sizes_checked",
                              signature={"site": "mj_loadModelBuffer", "defect": "size_field_not_validated", "field": sizes_n[meta["map_idx"]]})
            if wpred[1] != (r["canary"] > 0 or r["kind"] == "C") or (not wpred[1] and icode != wpred[0]):
                ctx.violation("correspondence", {"witness_hex": bytes(witness).hex()[:400]},
                              expected="model: outcome %s, write outside m->buffer %s" % wpred,
                              observed="implementation: %s canary=%d %s (class %s)" % (r["kind"], r["canary"], r["first"], icode), found_input=False,
                              theorem="correspondence c31 witness")
            ctx.cov["support"]["witness_replay"] = {"model": wpred, "impl": r}
    ctx.cov["evaluations"] = len(cases) + len(model_cases)
    ctx.cov["distinct_nontrivial"] = len(nontriv)
    ctx.cov["rule"] = ("%d mjSpec models (minimal, pendulum, rich, rich with long names); per model: truncations (%s), appended bytes, every header byte "
                       "x2 + every header field x4, every size field (bytes and whole values), consistent size+nbuffer edits, nnames_map edits, every "
                       "non-empty reference array of MJMODEL_REFERENCES and of the oracle's list set out of range, random bytes; non-trivial = distinct "
                       "(case family, implementation outcome class/index)" % (len(good), "every length" if thorough else "section boundaries + random"))
    ctx.cov["samples"] = [case_desc(cases[j]) for j in (0, len(cases) // 2, len(cases) - 1)]
    ctx.cov["support"]["reference arrays not validated by mj_validateReferences and not exercised"] = NOT_EXERCISED
    ctx.cov["support"]["random_mjgen_models_roundtrip"] = len(gens)
    ctx.cov["support"]["outcomes_by_family"] = {"%s:%s" % k: v for k, v in sorted(stats.items())}
    ctx.cov["correspondence_disagreements"] = len(fails)
    ctx.cov["explanation"] = ("codec theorems proved for every layout table; model tied to engine_io.c by translator + %d byte-exact model checks + %d "
                              "corrupted-buffer decisions" % (len(model_cases), len(cases)))
