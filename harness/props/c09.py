"""C09 — forward and inverse dynamics agree."""
import json, math, subprocess, time
from concurrent.futures import ThreadPoolExecutor
import framework as F
import c12_common as CU

META = {
    "id": "C09", "category": "proof", "design_ref": "DESIGN.md section 4, C09",
    "technique": "Coq proof over R (pure algebra over finite sums, all sizes) of the forward/inverse identities for a model of mj_fwdAcceleration / "
                 "mj_inverseSkip / mj_discreteAcc with an arbitrary shared force law + float correspondence of the model's per-dof combinations with the engine's "
                 "arrays and of the inverse constraint force with the C12 model of mj_constraintUpdate_impl + oracle on mj_inverse output after converged forward solves",
    "text": "Proved in Coq over the reals for every number of dofs and rows, every M, J, aref and EVERY force law f shared by both directions: for every acceleration a, "
            "qfrc_inverse(a) - (qfrc_applied + J'xfrc_applied + qfrc_actuator) equals the residual M a - qfrc_smooth - J' f(J a - aref) of the forward equation (C09_residual), hence a solves the "
            "forward equation iff inverse dynamics at a returns exactly the applied forces, with the same constraint forces f(J a - aref) (C09_identity); with invdiscrete, if the integrator "
            "obtained a_d from a forward solution a_c by A a_d = qfrc_smooth + qfrc_constraint(a_c) for ANY matrix A (M + h diag(B) for Euler with implicit damping, M - h qDeriv for implicit / "
            "implicitfast, M otherwise), the change of variables of mj_discreteAcc (M a' = A a_d, M positive definite) returns a_c and inverse dynamics at a' returns the applied forces and the "
            "forward constraint forces (C09_discrete_partial; C09_integrator_matrices for the two concrete matrices). Partial: that mj_EulerSkip / mj_implicitSkip and mj_discreteAcc apply the same "
            "matrix A, that the forward solver reaches a solution, and everything inside M, J, bias (mj_rne), passive forces are NOT proved. "
            "Tied on every run: the per-dof combinations of the model (smooth_row, inverse_row) are run at float inside Coq on the engine's own arrays and compared with qfrc_smooth / qfrc_inverse; "
            "the constraint force of mj_inverse is compared with mj_constraintUpdate_impl and with the C12 Coq model on the same residual (the law shared with the forward solvers: "
            "mj_invConstraint and the primal solvers both call mj_constraintUpdate(_impl)). "
            "Oracle on implementation output (random mjgen models with equality, friction-loss, limit, pyramidal and elliptic contacts of condim 1/3/4/6, tendons, springs/dampers, actuators, "
            "gravity compensation, joint and Cartesian applied forces; Euler, implicit, implicitfast; Newton, CG, PGS (PGS with pyramidal cones only, see C10-F1); mjDSBL_EULERDAMP / mjDSBL_DAMPER): "
            "qfrc_smooth = passive - bias + qfrc_applied + qfrc_actuator + J'xfrc_applied to 1e-9 on the scale of these terms alone; qfrc_inverse - applied = forward residual to 1e-9 for the primal solvers whether converged or not; a solver that stops before its iteration limit must leave a forward residual below 1e-6*scale (a larger one is a wrong qacc, not non-convergence); after a converged forward solve qfrc_inverse = qfrc_applied + J'xfrc_applied + "
            "qfrc_actuator and efc_force(inverse) = efc_force(forward) to 1e-6*scale (1e-4*scale for PGS, whose stopping test bounds its accuracy only loosely), also with mjENBL_INVDISCRETE at the discrete acceleration produced by mj_Euler / mj_implicit (plus 1e5 x the forward residual, which the constraint stiffness amplifies there), and the "
            "mj_compareFwdInv statistics equal the independently computed norms. The fixed scene of the repaired finding C09-F1 (one damped hinge, Euler, dampers disabled) is checked on every run.",
    "note": "Trusted: Coq kernel + std-lib real-number axioms; hand-written models Model/FwdInv.v, Model/ConstraintUpdate.v; correspondence harness (gcc, drivers c09_fwdinv.c / c12_update.c, "
            "Coq PrimFloat evaluation). IEEE rounding is outside every theorem.",
    "assumptions": ["theorems are over the real numbers; float runs are compared with scaled tolerances",
                    "convergence of the forward solver is not a theorem; the oracle gates on the reported iteration count and on the forward residual",
                    "PGS is exercised with pyramidal cones only (PGS with elliptic cones can stop away from the optimum: finding C10-F1)"],
}

INTEG = {0: "Euler", 1: "RK4", 2: "implicit", 3: "implicitfast"}
SOLVER = {0: "PGS", 1: "CG", 2: "Newton"}
TOL = 1e-6          # Newton, CG
TOL_PGS = 1e-4      # PGS stops on a small cost improvement per sweep, which bounds its accuracy only loosely


def hx(x):
    return float(x).hex()


def mx(v):
    return max([abs(x) for x in v] + [0.0])


def parse(line):
    t = line.split()
    p = 1
    names = ["seed", "step", "integ", "cone", "solver", "eoff", "doff", "nv", "nefc", "ne", "nf", "nell", "npyr", "nlim", "niter", "maxiter"]
    r = {k: int(t[p + i]) for i, k in enumerate(names)}
    p += len(names)
    r["h"] = float.fromhex(t[p]); p += 1
    nv, nefc = r["nv"], r["nefc"]
    def nums(n):
        nonlocal p
        v = [float.fromhex(x) if x != "nan" else float("nan") for x in t[p:p + n]]; p += n
        return v
    def ints(n):
        nonlocal p
        v = [int(x) for x in t[p:p + n]]; p += n
        return v
    for k in ["applied", "actuator", "xq", "smooth", "passive", "bias", "constraint", "Ma", "qacc", "inverse", "constraint_inv"]:
        r[k] = nums(nv)
    r["force"] = nums(nefc); r["force_inv"] = nums(nefc)
    r["disc"], nd = ints(2)
    if r["disc"]:
        r["ad"] = nums(nv); r["inverse_d"] = nums(nv); r["nefc_d"] = nd; r["force_inv_d"] = nums(nd)
    r["fwdinv"] = nums(2)
    D, R, fl, jar = nums(nefc), nums(nefc), nums(nefc), nums(nefc)
    tp, idd = ints(nefc), ints(nefc)
    ncon = ints(1)[0]
    con = []
    for _ in range(ncon):
        dim = ints(1)[0]; mu = nums(1)[0]; fr = nums(5); adr = ints(1)[0]
        con.append({"dim": dim, "mu": mu, "fr": fr, "adr": adr})
    r["cfg"] = CU.finish_cfg({"ne": r["ne"], "nf": r["nf"], "D": D, "R": R, "fl": fl, "type": tp, "id": idd, "con": con, "related": True,
                              "src": "mjgen(c09) seed=%d step=%d" % (r["seed"], r["step"])})
    r["jar"] = jar
    r["tbias"] = nums(1)[0] if p < len(t) else 0.0
    r["ds"], r["jnt_m2"], r["jnt_single"], r["anyd"] = ints(4) if p + 4 <= len(t) else (0, 0, 0, 1)
    r["nisland"], r["noninv"], r["enable"], r["disable"], r["sparse"] = ints(5) if p + 5 <= len(t) else (0, 0, 0, 0, 0)
    r["nfree"], r["lowfree"] = ints(2) if p + 2 <= len(t) else (0, 0)
    if p + 6 <= len(t):
        r["npt"], r["npf"], r["nsingle"], r["nother"] = ints(4); r["ptq"] = nums(1)[0]; r["nqa"] = ints(1)[0]
    else:
        r["npt"], r["npf"], r["nsingle"], r["nother"], r["ptq"], r["nqa"] = 0, 0, 0, 0, 0.0, 0
    return r


def run_chunks(ctx, exe, ranges):
    def work(rg):
        try:
            r = subprocess.run([exe, str(rg[0]), str(rg[1])], capture_output=True, text=True, timeout=1500)
            return (None if r.returncode == 0 else "rc=%s %s" % (r.returncode, r.stderr[-300:]), r.stdout)
        except subprocess.TimeoutExpired:
            return ("timeout", "")
    with ThreadPoolExecutor(max_workers=4) as ex:
        rs = list(ex.map(work, ranges))
    recs, xs = [], []
    for err, out in rs:
        if err:
            ctx.broken.append(("oracle", "driver c09_fwdinv failed", err))
            return None, xs
        for line in out.split("\n"):
            if line.startswith("R "):
                try:
                    recs.append(parse(line))
                except (ValueError, IndexError) as e:
                    ctx.broken.append(("oracle", "driver c09_fwdinv: unparsable record", str(e)))
                    return None, xs
            elif line.startswith("X "):
                xs.append(line)
    return recs, xs


def check_damper(ctx, exe, stats):
    """fixed corpus: one damped hinge, Euler, the four combinations of mjDSBL_DAMPER / mjDSBL_EULERDAMP (repaired finding C09-F1)."""
    rc, out, err = ctx.run(exe, "", args=["damper"])
    rows = [l.split() for l in out.split("\n") if l.startswith("D ")]
    if rc != 0 or len(rows) != 4:
        ctx.broken.append(("oracle", "c09_fwdinv damper failed", "rc=%s %s" % (rc, err[-300:])))
        return
    for t in rows:
        doff, eoff = int(t[1]), int(t[2])
        qacc, ad, qinv, app = [float.fromhex(x) for x in t[3:7]]
        if not abs(qinv - app) <= 1e-9 * (1 + abs(app)):
            ctx.violation("impl_violation",
                          {"scene": "one hinge (axis y, damping 2, capsule 0.4 x r 0.05), Euler, h = 0.002, qvel = 1.5, qfrc_applied = 0.3",
                           "mjDSBL_DAMPER": bool(doff), "mjDSBL_EULERDAMP": bool(eoff), "replay": "c09_fwdinv damper"},
                          expected={"qfrc_inverse (invdiscrete, at the discrete acceleration of mj_Euler)": app},
                          observed={"qfrc_inverse": qinv, "forward qacc": qacc, "discrete acceleration": ad},
                          theorem="C09_discrete_partial (oracle: integrator and mj_discreteAcc use the same matrix)",
                          signature={"site": "mj_discreteAcc", "class": "euler-damper-disabled" if (doff and not eoff) else "invdiscrete-mismatch"})
            stats.add("fixed damper scene FAILED")
        else:
            stats.add("fixed damper scene: damper_off=%d eulerdamp_off=%d" % (doff, eoff))


ROW_PRE = """
Definition tol := 0x1p-40%float.
Definition chk (c : list (list float) * list (list float)) : bool :=
  match c with (sm, iv) =>
    andb (forallb (fun r => match r with
                    | p :: b :: a :: u :: x :: s :: sc :: nil =>
                        PrimFloat.leb (PrimFloat.abs (PrimFloat.sub (smooth_row (T:=float) p b a u x) s)) (PrimFloat.mul tol sc)
                    | _ => false end) sm)
         (forallb (fun r => match r with
                    | b :: ma :: p :: cc :: q :: sc :: nil =>
                        PrimFloat.leb (PrimFloat.abs (PrimFloat.sub (inverse_row (T:=float) b ma p cc) q)) (PrimFloat.mul tol sc)
                    | _ => false end) iv)
  end.
"""
ROW_IMPORTS = "From Coq Require Import ZArith List Bool PrimFloat.\nFrom MJV Require Import Lib.Num Lib.NumF Model.FwdInv.\nOpen Scope float_scope."


def row_tie(ctx, recs):
    """the model's per-dof combinations (Model/FwdInv.v: smooth_row, inverse_row) run at float on the engine's arrays."""
    lits = []
    for r in recs:
        nv = r["nv"]
        sc = 1 + max(mx(r["Ma"]), mx(r["smooth"]), mx(r["constraint"]), mx(r["bias"]), mx(r["passive"]))
        sm = "[" + "; ".join(F.flist([r["passive"][i], r["bias"][i], r["applied"][i], r["actuator"][i], r["xq"][i], r["smooth"][i], sc]) for i in range(nv)) + "]"
        iv = "[" + "; ".join(F.flist([r["bias"][i], r["Ma"][i], r["passive"][i], r["constraint_inv"][i], r["inverse"][i], sc]) for i in range(nv)) + "]"
        lits.append("(%s, %s)" % (sm, iv))
    fails = ctx.coq_eval("c09rows", ROW_IMPORTS, lits, "chk", pre=ROW_PRE, shard=60)
    for i in fails[:3]:
        r = recs[i]
        ctx.violation("correspondence", {"src": r["cfg"]["src"], "integrator": INTEG[r["integ"]]},
                      expected="qfrc_smooth = smooth_row(passive, bias, applied, actuator, J'xfrc) and qfrc_inverse = inverse_row(bias, M qacc, passive, qfrc_constraint) (Model/FwdInv.v, float run)",
                      observed={"qfrc_smooth": [hx(x) for x in r["smooth"]], "qfrc_inverse": [hx(x) for x in r["inverse"]]}, found_input=False,
                      theorem="correspondence mj_fwdAcceleration / mj_inverseSkip (C09_residual)", signature={"site": "mj_inverseSkip"})
    return len(lits), len(fails)


def law_tie(ctx, recs, exe12, stats):
    """constraint force of mj_inverse = mj_constraintUpdate_impl(J qacc - aref) = C12 Coq model."""
    budget = 1500 if ctx.tier == "quick" else 12000
    sel_recs, tot = [], 0
    for r in sorted(recs, key=lambda x: x["nefc"]):
        if r["nefc"] == 0:
            continue
        n = r["nefc"] + 8
        if tot + n > budget:
            break
        sel_recs.append(r); tot += n
    if not sel_recs:
        return 0, 0
    outs = CU.run_raw(ctx, exe12, [(r["cfg"], r["jar"], 0) for r in sel_recs])
    if outs is None:
        return 0, 0
    sel = []
    for r, o in zip(sel_recs, outs):
        cfg = r["cfg"]
        bad = [i for i in range(cfg["nefc"]) if not abs(o["force"][i] - r["force_inv"][i]) <= 1e-9 * (1 + abs(o["force"][i]) + abs(cfg["D"][i] * r["jar"][i]))]
        if bad:
            i = bad[0]
            ctx.violation("correspondence", {"src": cfg["src"], "row": i, "efc_type": cfg["type"][i]},
                          expected="efc_force of mj_inverse = mj_constraintUpdate_impl at jar = J*qacc - aref (the law of the forward solvers)",
                          observed={"efc_force(inverse)": r["force_inv"][i], "force_law": o["force"][i], "jar": r["jar"][i]}, found_input=False,
                          theorem="tie: forward and inverse share the C12 force law", signature={"site": "mj_invConstraint"})
        else:
            stats.add("efc_force(inverse) = mj_constraintUpdate_impl(J qacc - aref)")
        sel.append({"cfg": cfg, "jar": r["jar"], "flgH": 0, "tag": "engine-jar", "out": o})
    fails = CU.correspond(ctx, "c09law", sel)
    for i in fails[:3]:
        c = sel[i]
        ctx.violation("correspondence", CU.case_json(c), expected="output of Model/ConstraintUpdate.v (float run)", observed=CU.out_json(c["out"]),
                      found_input=False, theorem="correspondence c12_update (force law, C12 tie)", signature={"site": "mj_constraintUpdate_impl"})
    return len(sel), len(fails)


def oracle(ctx, recs, stats):
    nconv, ntot, nontrivial = 0, 0, 0
    ndiv = [0]
    combos = {}
    for r in recs:
        nv = r["nv"]
        tot = [r["applied"][i] + r["actuator"][i] + r["xq"][i] for i in range(nv)]
        res = [r["Ma"][i] - r["smooth"][i] - r["constraint"][i] for i in range(nv)]
        sc = 1 + max(mx(r["Ma"]), mx(r["smooth"]), mx(r["constraint"]), mx(r["bias"]), mx(r["passive"]))
        fs = 1 + mx(r["force"])
        name = "%s/%s/%s" % (INTEG[r["integ"]], SOLVER[r["solver"]], "elliptic" if r["cone"] else "pyramidal")
        combos[name] = combos.get(name, 0) + 1
        case = {"src": r["cfg"]["src"], "replay": {"seed": r["seed"], "step": r["step"]}, "integrator": INTEG[r["integ"]], "solver": SOLVER[r["solver"]],
                "cone": "elliptic" if r["cone"] else "pyramidal", "mjDSBL_EULERDAMP": bool(r["eoff"]), "mjDSBL_DAMPER": bool(r["doff"]), "nv": nv, "nefc": r["nefc"],
                "bodies with pure torque / pure force / single component / other wrench": [r["npt"], r["npf"], r["nsingle"], r["nother"]], "islands": r["nisland"], "dofs outside every island": r["nfree"], "one of them below an island dof": bool(r["lowfree"]), "island permutation not an involution": bool(r["noninv"]), "enableflags": r["enable"], "disableflags": r["disable"],
                "sparse jacobian": bool(r["sparse"]), "max |tendon-armature bias|": r["tbias"], "damping-source stratum": r["ds"], "joints with several damped/armature actuators": r["jnt_m2"], "rows": {"equality": r["ne"], "friction": r["nf"], "elliptic": r["nell"], "pyramidal": r["npyr"], "limit": r["nlim"]}, "niter": r["niter"]}
        sig0 = {"integrator": INTEG[r["integ"]], "cone": case["cone"]}
        def viol(site, cls, expected, observed, theorem):
            ctx.violation("impl_violation", case, expected=expected, observed=observed, theorem=theorem, signature=dict(sig0, site=site, **{"class": cls}))
            stats.add(cls + " FAILED")
        allv = r["inverse"] + r["force_inv"] + (r["inverse_d"] + r["force_inv_d"] if r["disc"] else [])
        if not all(math.isfinite(x) for x in allv):
            viol("mj_inverse", "non-finite", "finite outputs", "NaN/inf", "C09_identity")
            continue
        if mx(r["qacc"]) > 1e6 or sc > 1e8 or (r["disc"] and mx(r["ad"]) > 1e6):
            # the simulation has numerically diverged before this sample (accelerations / forces beyond 1e6 / 1e8): relative comparisons of
            # ill-conditioned maps on such a state say nothing about the property
            stats.add("diverged state (skipped)")
            ndiv[0] += 1
            continue
        ntot += 1
        # (0) the right-hand side of the forward equation, on the scale of the applied-side terms only (constraint forces can be orders of
        #     magnitude larger and would hide a dropped wrench): qfrc_smooth = passive - bias + qfrc_applied + qfrc_actuator + J'xfrc_applied,
        #     with J'xfrc_applied from mj_jac at the body centre of mass (computed by the driver, never by mj_xfrcAccumulate)
        sa = 1 + max(mx(r["passive"]), mx(r["bias"]), mx(r["applied"]), mx(r["actuator"]), mx(r["xq"]))
        dsm = [r["smooth"][i] - (r["passive"][i] - r["bias"][i] + r["applied"][i] + r["actuator"][i] + r["xq"][i]) for i in range(nv)]
        if mx(dsm) > 1e-9 * sa:
            worst = max(range(nv), key=lambda i: abs(dsm[i]))
            viol("mj_fwdAcceleration", "qfrc_smooth-rhs", "qfrc_smooth = qfrc_passive - qfrc_bias + qfrc_applied + qfrc_actuator + J'xfrc_applied within 1e-9 * (1 + largest of these terms)",
                 {"largest difference": dsm[worst], "dof": worst, "J'xfrc_applied there (mj_jac)": r["xq"][worst], "qfrc_applied there": r["applied"][worst],
                  "scale of the applied-side terms": sa}, "C09_identity (qfrc_smooth of the forward equation)")
        else:
            stats.add("qfrc_smooth = passive - bias + applied + actuator + J'xfrc (mj_jac)")
        mis = [r["inverse"][i] - tot[i] for i in range(nv)]
        # (1) for the primal solvers, converged or not: inverse - applied = residual of the forward equation
        if r["solver"] != 0:
            e = mx([mis[i] - res[i] for i in range(nv)]) / sc
            if e > 1e-9:
                viol("mj_inverseSkip", "inverse-minus-applied-not-residual", "qfrc_inverse - (qfrc_applied + J'xfrc + qfrc_actuator) = M qacc - qfrc_smooth - qfrc_constraint",
                     {"relative difference": e}, "C09_residual")
            else:
                stats.add("qfrc_inverse - applied = forward residual (any convergence state)")
        # engine statistic = independently computed norms
        n1 = math.sqrt(sum(x * x for x in mis))
        n0 = math.sqrt(sum((a - b) ** 2 for a, b in zip(r["constraint"], r["constraint_inv"])))
        if r["nefc"] > 0 and (abs(r["fwdinv"][1] - n1) > 1e-9 * sc * math.sqrt(nv) or abs(r["fwdinv"][0] - n0) > 1e-9 * sc * math.sqrt(nv)):
            viol("mj_compareFwdInv", "fwdinv-statistic", {"fwdinv[0]": n0, "fwdinv[1]": n1}, {"solver_fwdinv": r["fwdinv"]}, "C09 (solver_fwdinv statistics)")
        elif r["nefc"] > 0:
            stats.add("solver_fwdinv = independently computed norms")
        # a solver that stops before its iteration limit REPORTS convergence: the forward equation M qacc = qfrc_smooth + qfrc_constraint must then
        # hold (1e-6*scale: far above what Newton / CG leave behind at tolerance 1e-14); a larger residual is not "unconverged", it is a wrong qacc
        if r["niter"] < r["maxiter"] and mx(res) / sc > 1e-6:
            worst = max(range(nv), key=lambda i: abs(res[i]))
            viol("mj_fwdConstraint", "forward-equation-violated", "M qacc - qfrc_smooth - qfrc_constraint = 0 within 1e-6*scale after the solver reported convergence",
                 {"relative forward residual": mx(res) / sc, "worst dof": worst, "residual there": res[worst], "qfrc_inverse - applied there": mis[worst],
                  "dofs outside every island": r["nfree"], "one of them below an island dof": bool(r["lowfree"])}, "C09_identity (forward_solution)")
            continue
        conv = r["niter"] < r["maxiter"] and mx(res) / sc <= 1e-9
        if not conv:
            stats.add("forward solve not converged (skipped)")
            continue
        nconv += 1
        if r["nefc"] >= 4 and sum(1 for k in ("ne", "nf", "nell", "npyr", "nlim") if r[k] > 0) >= 2:
            nontrivial += 1
        # (2) the property: inverse returns the applied forces and the forward constraint forces
        TOL = TOL_PGS if r["solver"] == 0 else 1e-6
        e, ef = mx(mis) / sc, mx([a - b for a, b in zip(r["force"], r["force_inv"])]) / fs
        if e > TOL or ef > TOL:
            viol("mj_inverse", "qfrc_inverse-mismatch" if e > TOL else "efc_force-mismatch",
                 "qfrc_inverse = qfrc_applied + J'xfrc_applied + qfrc_actuator and efc_force(inverse) = efc_force(forward) within %g*scale" % TOL,
                 {"relative qfrc_inverse mismatch": e, "relative efc_force mismatch": ef, "relative forward residual": mx(res) / sc}, "C09_identity")
        else:
            stats.add("inverse = applied, same efc_force: %s" % name)
        if r["nefc"] > 0 and r["fwdinv"][1] > TOL * sc * math.sqrt(nv):
            viol("mj_compareFwdInv", "fwdinv-large", "solver_fwdinv small after convergence", {"solver_fwdinv": r["fwdinv"], "scale": sc}, "C09 (solver_fwdinv statistics)")
        # (3) invdiscrete
        if r["disc"]:
            ed = mx([r["inverse_d"][i] - tot[i] for i in range(nv)]) / sc
            efd = mx([a - b for a, b in zip(r["force"], r["force_inv_d"])]) / fs if r["nefc_d"] == r["nefc"] else float("inf")
            # the inverse is evaluated at a' = a_c - M^-1 * (forward residual): the solver's remaining residual is amplified by the constraint
            # stiffness (M^-1 J' D J), so the admissible mismatch grows with it (the gate keeps the residual <= 1e-9*scale, i.e. this slack <= 1e-4*scale)
            slack = 1e5 * mx(res)
            if ed > TOL + slack / sc or efd > TOL + slack / fs:
                cls = "euler-damper-disabled" if (r["integ"] == 0 and r["doff"] and not r["eoff"]) else "invdiscrete-mismatch"
                viol("mj_discreteAcc", cls, "with mjENBL_INVDISCRETE at the discrete acceleration of the integrator: qfrc_inverse = applied forces, efc_force = forward efc_force within %g*scale" % TOL,
                     {"relative qfrc_inverse mismatch": ed, "relative efc_force mismatch": efd}, "C09_discrete_partial")
            else:
                stats.add("invdiscrete: inverse = applied: %s%s%s" % (INTEG[r["integ"]], " eulerdamp-off" if r["eoff"] else "", " damper-off" if r["doff"] else ""))
    combos["(diverged states skipped)"] = ndiv[0]
    return ntot, nconv, nontrivial, combos


def run(ctx):
    quick = ctx.tier == "quick"
    tm = {}
    t0 = time.time()
    ctx.coq_props(allowed_axioms=F.STD_AXIOMS, extra_targets=["Lib/Num.vo", "Lib/NumF.vo", "Lib/Eqb.vo", "Model/FwdInv.vo", "Model/ConstraintUpdate.vo"])
    exe = ctx.driver("c09_fwdinv", ["c09_fwdinv.c"])
    exe12 = ctx.driver("c12_update", ["c12_update.c"])
    if exe is None or exe12 is None:
        return
    tm["coq_props+build"] = round(time.time() - t0, 1); t0 = time.time()
    stats = CU.Stats()
    check_damper(ctx, exe, stats)
    rep = ctx.replay.get("case") if getattr(ctx, "replay", None) else None
    base = 1 + (ctx.seed - 1) * 2000
    if isinstance(rep, dict) and isinstance(rep.get("replay"), dict) and "seed" in rep["replay"]:
        s = int(rep["replay"]["seed"])
        ranges = [(s, s + 1)]
    elif quick:
        ranges = [(base + 40 * k, base + 40 * (k + 1)) for k in range(4)]
    else:
        ranges = [(base + 60 * k, base + 60 * (k + 1)) for k in range(16)]
    recs, xs = run_chunks(ctx, exe, ranges)
    if recs is None:
        return
    tm["driver"] = round(time.time() - t0, 1); t0 = time.time()
    for x in xs:
        if " compile" in x:
            continue
        ctx.violation("impl_violation", {"src": "mjgen(c09) " + x}, expected="mj_forward / mj_inverse complete", observed=x, theorem="C09 (runs)",
                      signature={"site": "mj_inverse", "class": "mju_error"})
    ntot, nconv, nontrivial, combos = oracle(ctx, recs, stats)
    if not rep:
        if len(recs) < 40:
            ctx.broken.append(("oracle", "too few forward/inverse records were produced", "%d" % len(recs)))
        if ntot < 0.9 * max(1, len(recs)):
            ctx.broken.append(("oracle", "too many records are skipped as numerically diverged states", "%d of %d kept" % (ntot, len(recs))))
        if nconv < 0.8 * max(1, ntot):
            ctx.broken.append(("oracle", "the forward solver converged on too few records for the oracle to mean anything", "%d of %d" % (nconv, ntot)))
    tm["oracle"] = round(time.time() - t0, 1); t0 = time.time()
    tie_recs = recs[::2] if quick else recs[::max(1, len(recs) // 600)]
    nrow, nrowfail = row_tie(ctx, tie_recs)
    exe12 = ctx.driver("c12_update", ["c12_update.c"]) or exe12   # the shared binary cache keeps few versions: re-acquire (relinks if pruned meanwhile)
    nlaw, nlawfail = law_tie(ctx, recs, exe12, stats)
    tm["ties"] = round(time.time() - t0, 1)
    ctx.cov["evaluations"] = len(recs) + nrow + nlaw + 4
    ctx.cov["distinct_nontrivial"] = nontrivial
    ctx.cov["rule"] = ("records = (mjgen model of 1..5 bodies, state at steps 0/5/20) with integrator = seed%3 (Euler, implicit, implicitfast), cone = (seed/3)%2, solver CG for seed%5 = 0, "
                       "PGS (pyramidal only) for seed%7 = 0, else Newton; mjDSBL_EULERDAMP for seed%4 = 1, mjDSBL_DAMPER for seed%16 = 11; every record: forward at tolerance 1e-14, mj_inverse, "
                       "integrator on the forward solution, mj_inverse with invdiscrete, mj_compareFwdInv; non-trivial = converged record with >= 4 rows of >= 2 kinds")
    ctx.cov["records_by_configuration"] = combos
    ctx.cov["converged_records"] = nconv
    DS = {0: "as generated", 1: "no damping", 2: "joint damping on the last dof only", 3: "polynomial joint damping only", 4: "one damped actuator",
          5: "two damped actuators on one joint (jnt_actuatorid=-2)", 6: "two armature-only actuators on one joint", 7: "damped + polynomial-damped actuators on one joint"}
    strata = {}
    for r in recs:
        k = "%s / %s" % (INTEG[r["integ"]], DS.get(r["ds"], r["ds"]))
        strata[k] = strata.get(k, 0) + 1
    ctx.cov["records_by_integrator_and_damping_source"] = strata
    nm2 = sum(1 for r in recs if r["integ"] == 0 and r["jnt_m2"] > 0 and not r["anyd"] and not r["eoff"] and not r["doff"] and r["disc"])
    ctx.cov["euler_invdiscrete_records_damped_only_through_several_actuators"] = nm2
    if not rep and nm2 < 3:
        ctx.broken.append(("oracle", "too few Euler/invdiscrete records whose only damping comes from several actuators on one joint", "%d" % nm2))
    ctx.cov["records_by_option"] = {
        "diagexact": sum(1 for r in recs if r["enable"] & 32), "override": sum(1 for r in recs if r["enable"] & 1),
        "island disabled": sum(1 for r in recs if r["disable"] & (1 << 18)), "warmstart disabled": sum(1 for r in recs if r["disable"] & (1 << 9)),
        "refsafe disabled": sum(1 for r in recs if r["disable"] & (1 << 12)), "gravity disabled": sum(1 for r in recs if r["disable"] & (1 << 7)),
        "spring disabled": sum(1 for r in recs if r["disable"] & (1 << 5)), "sparse jacobian": sum(1 for r in recs if r["sparse"]),
        ">= 2 islands": sum(1 for r in recs if r["nisland"] >= 2),
        "efc<->island permutation not an involution": sum(1 for r in recs if r["noninv"]),
        "diagexact with a non-involutive island permutation": sum(1 for r in recs if r["noninv"] and r["enable"] & 32)}
    nni = ctx.cov["records_by_option"]["diagexact with a non-involutive island permutation"]
    if not rep and nni < 5:
        ctx.broken.append(("oracle", "too few records combine diagexact with islands whose rows interleave in efc order", "%d" % nni))
    ctx.cov["records_by_option"]["dofs outside every island"] = sum(1 for r in recs if r["nfree"] > 0)
    ctx.cov["records_by_option"]["an unconstrained dof below an island dof, warm start on, Newton/CG"] = nlf = sum(
        1 for r in recs if r["lowfree"] and not (r["disable"] & (1 << 9)) and r["solver"] != 0)
    if not rep and nlf < 5:
        ctx.broken.append(("oracle", "too few records have an unconstrained tree whose dofs precede an island's dofs", "%d" % nlf))
    ctx.cov["records_by_applied_force_support"] = {
        "a body with a pure torque": sum(1 for r in recs if r["npt"] > 0), "pure torque with non-zero joint-space image": sum(1 for r in recs if r["ptq"] > 1e-9),
        "a body with a pure force": sum(1 for r in recs if r["npf"] > 0), "a body with a single non-zero component": sum(1 for r in recs if r["nsingle"] > 0),
        "a body with force and torque": sum(1 for r in recs if r["nother"] > 0), "no Cartesian wrench": sum(1 for r in recs if r["npt"] + r["npf"] + r["nother"] == 0),
        "qfrc_applied = 0": sum(1 for r in recs if r["nqa"] == 0), "qfrc_applied on one dof": sum(1 for r in recs if r["nqa"] == 1)}
    npt = ctx.cov["records_by_applied_force_support"]["pure torque with non-zero joint-space image"]
    if not rep and npt < 10:
        ctx.broken.append(("oracle", "too few records apply a pure torque that maps to a non-zero generalized force", "%d" % npt))
    ntb = sum(1 for r in recs if r["tbias"] > 1e-6)
    ctx.cov["records_with_nonzero_tendon_armature_bias"] = ntb
    if not rep and ntb < 0.1 * max(1, len(recs)):
        ctx.broken.append(("oracle", "too few records exercise the tendon-armature bias term (spatial tendon with armature at non-zero velocity)", "%d of %d" % (ntb, len(recs))))
    ctx.cov["records_with"] = {"equality rows": sum(1 for r in recs if r["ne"] > 0), "friction-loss rows": sum(1 for r in recs if r["nf"] > 0),
                               "limit rows": sum(1 for r in recs if r["nlim"] > 0), "pyramidal contact rows": sum(1 for r in recs if r["npyr"] > 0),
                               "elliptic contact rows": sum(1 for r in recs if r["nell"] > 0), "no constraint": sum(1 for r in recs if r["nefc"] == 0)}
    dims = {}
    for r in recs:
        for c in r["cfg"]["con"]:
            if c["adr"] >= 0:
                k = "%s condim %d" % ("elliptic" if r["cone"] else "pyramidal", c["dim"])
                dims[k] = dims.get(k, 0) + 1
    ctx.cov["contacts_by_cone_and_condim"] = dims
    ctx.cov["oracle_checks"] = stats.as_dict()
    ctx.cov["support"].update({"row_tie_cases": nrow, "law_tie_cases": nlaw, "timing_s": tm, "skipped_models": len(xs)})
    ctx.cov["samples"] = [{"src": r["cfg"]["src"], "integrator": INTEG[r["integ"]], "solver": SOLVER[r["solver"]], "nv": r["nv"], "nefc": r["nefc"]}
                          for r in (recs[:1] + recs[len(recs) // 2:len(recs) // 2 + 1] + recs[-1:])]
    ctx.cov["correspondence_disagreements"] = nrowfail + nlawfail
    ctx.cov["explanation"] = ("Theorems of Props/C09.v proved over R; model rows tied by %d float cases, the shared force law by %d cases; %d forward/inverse records (%d converged), "
                              "%d oracle checks; convergence itself is not a theorem" % (nrow, nlaw, len(recs), nconv, stats.total()))
