"""C34 — name lookup inverts naming for every object type."""
import importlib.util, os
import framework as F

META = {
    "id": "C34", "category": "proof", "design_ref": "DESIGN.md section 4, C34",
    "technique": "Coq proof of a model of mj_hashString, namelist/CopyNames (linear-probing tables, concatenated names buffer), _getnumadr, "
                 "mj_name2id, mj_id2name; two fail-closed translators regenerating the object-type order from the switch of _getnumadr and from "
                 "the namelist call sequence of CopyNames; exact correspondence on mjSpec-built models with adversarial name sets",
    "text": "see run(): filled below",
    "note": "Trusted: Coq kernel; translate/names2v.py; hand-written model Model/Names.v (probing loops as one explicit table cycle); gcc; driver "
            "c34_names.c. Theorems closed under the global context.",
    "assumptions": ["names contain no NUL byte (C strings)", "char is signed (x86-64 gcc), as in the build under test"],
}
META["text"] = (
    "PROVED for ANY hash function into [0,size), any load multiple M >= 1, any number of objects and any assignment of names whose non-empty "
    "members are pairwise distinct within the type: building the table never runs out of slots; name2id(id2name i) = i for every named object; "
    "id2name i = None exactly for out-of-range ids and unnamed objects; name2id s = -1 for every string that is not the name of an object of "
    "that type (prefixes, extensions, names of other types, the empty string); every lookup and insertion ends within one table cycle "
    "(by construction of the probe sequence).  PROVED for the whole-model layout (any list of types): the offset _getnumadr computes by "
    "subtracting from nnames_map equals the offset CopyNames reaches by adding, the table slice of each type inside names_map is its own table, "
    "tables of different types do not overlap, and strncmp against the names buffer at name_adr decides name equality, so the whole-model "
    "name2id/id2name equal the per-type ones.  mj_hashString is modelled exactly (signed char sign extension, mod 2^64, mod n) and proved to "
    "land in [0,n).  PROVED BY COMPUTATION on tables regenerated from the working tree on every run: the order of object types in the switch of "
    "_getnumadr equals the order of the namelist calls in CopyNames, the sum defining nnames_map ranges over the same count fields, and all "
    "definitions of mjLOAD_MULTIPLE agree.  TIED BY CORRESPONDENCE ONLY: the loop bodies of namelist, mj_name2id, mj_id2name and mj_hashString "
    "(hand-written model) are compared exactly with the implementation (hash values, complete m->names_map, names buffer, name_*adr, every "
    "lookup result) on models with forced hash collisions and wrap-around chains, prefix pairs, non-ASCII bytes, unnamed objects, all 23 "
    "object types the mjSpec API can create.  NOT COVERED: models loaded from MJB files; duplicate names (rejected by the compiler).")

KIND_OF_COUNT = {"nbody": "body", "njnt": "joint", "ngeom": "geom", "nsite": "site", "ncam": "camera", "nlight": "light", "nflex": "flex",
                 "nmesh": "mesh", "nskin": "skin", "nhfield": "hfield", "ntex": "texture", "nmat": "material", "npair": "pair",
                 "nexclude": "exclude", "neq": "equality", "ntendon": "tendon", "nactuator": "actuator", "nsensor": "sensor",
                 "nnumeric": "numeric", "ntext": "text", "ntuple": "tuple", "nkey": "key", "nplugin": "plugin"}
MUST_BE_NAMED = {"mesh", "hfield", "texture", "material"}
M64 = (1 << 64) - 1


def load_translator():
    p = os.path.join(F.VERIF, "translate", "names2v.py")
    spec = importlib.util.spec_from_file_location("names2v", p)
    mod = importlib.util.module_from_spec(spec)
    spec.loader.exec_module(mod)
    return mod


def hash64(bs):
    """harness' own mj_hashString (djb2-xor, signed char)"""
    h = 5381
    for c in bs:
        if c >= 128:
            c = (c - 256) & M64
        h = (((h << 5) + h) & M64) ^ c
    return h


def hx(bs):
    return "-" if not bs else bytes(bs).hex()


def unhx(s):
    return [] if s in ("-", "") else list(bytes.fromhex(s))


def zl(xs):
    return F.zlist(xs)


ALPHA = list(b"abcdefghijklmnopqrstuvwxyzABCXYZ0123456789_.- ") + [0x80, 0x81, 0xC3, 0xA9, 0xE2, 0xFE, 0xFF, 0x7F, 0x01]


def rand_name(rng, lo=1, hi=9):
    return [rng.choice(ALPHA) for _ in range(rng.randrange(lo, hi))]


def gen_names(rng, n, size, taken, allow_unnamed, style):
    """n names for a table of `size` slots; style selects the adversarial pattern"""
    out = []

    def fresh(s):
        t = tuple(s)
        if not s or t in taken or 0x2F in s:
            return False
        taken.add(t)
        return True
    target = rng.choice([size - 1, size - 2, 0, rng.randrange(size)]) % size if size else 0
    while len(out) < n:
        r = rng.random()
        if allow_unnamed and r < (0.25 if style != "collide" else 0.1):
            out.append([])
            continue
        if style == "collide" or (style == "mixed" and r < 0.6):
            # search a name hashing to the target slot (or the one just before it: chains that merge)
            want = {target, (target - 1) % size} if rng.random() < 0.3 else {target}
            for _ in range(4000):
                s = rand_name(rng, 1, 8)
                if hash64(s) % size in want and fresh(s):
                    out.append(s)
                    break
            else:
                s = rand_name(rng, 6, 10)
                if fresh(s):
                    out.append(s)
        elif style == "prefix" or (style == "mixed" and r < 0.85):
            base = out[-1] if out and out[-1] and rng.random() < 0.7 else rand_name(rng, 1, 5)
            s = rng.choice([base + [rng.choice(ALPHA)], base[:-1], base + base, base[:1], base + [0x20], [0x80 + (base[0] & 0x7F)] + base[1:]])
            if len(s) <= 60 and fresh(s):
                out.append(s)
        else:
            s = rand_name(rng, 1, rng.choice([4, 9, 40]))
            if fresh(s):
                out.append(s)
    return out


def predicted_counts(req):
    """object counts after the driver added its helpers"""
    nb, npair, nex = len(req.get("body", [])), len(req.get("pair", [])), len(req.get("exclude", []))
    ncar = (len(req.get("joint", [])) + 5) // 6      # carrier bodies: at most 6 hinge dofs per body
    c = {k: len(v) for k, v in req.items()}
    c["body"] = 1 + 2 + nb + 2 * npair + 2 * nex + ncar
    c["geom"] = (2 + nb + 2 * npair + 2 * nex + ncar) + len(req.get("geom", []))
    c["joint"] = 2 + len(req.get("joint", []))
    c["site"] = 2 + len(req.get("site", []))
    return c


def helper_names(req):
    t = {k: set() for k in KIND_OF_COUNT.values()}
    t["body"] |= {tuple(b"world"), tuple(b"HB0"), tuple(b"HB1")} | {tuple(("xb%d_%s" % (i, ab)).encode()) for i in range(300) for ab in "ab"}
    t["geom"] |= {tuple(("hg%d" % i).encode()) for i in range(1500)}
    t["joint"] |= {tuple(b"HJ0"), tuple(b"HJ1")}
    t["site"] |= {tuple(b"HS0"), tuple(b"HS1")}
    return t


def make_model(rng, kinds, style, big):
    """choose counts first (sizes must be known to force collisions), then names"""
    req_n = {}
    for k in kinds:
        hi = (14 if big else 6)
        req_n[k] = rng.randrange(0, hi) if rng.random() < 0.85 else 0
    focus = rng.choice(kinds)
    req_n[focus] = max(req_n[focus], rng.randrange(5, 40 if big else 12))
    if "pair" in req_n:
        req_n["pair"] = min(req_n["pair"], 6)
    if "exclude" in req_n:
        req_n["exclude"] = min(req_n["exclude"], 6)
    fake = {k: [None] * n for k, n in req_n.items()}
    cnt = predicted_counts(fake)
    taken = helper_names(fake)
    req = {}
    for k in kinds:
        req[k] = gen_names(rng, req_n[k], 2 * cnt.get(k, req_n[k]), taken[k], k not in MUST_BE_NAMED, style)
    return req


def run(ctx):
    rng = ctx.rng
    tr = load_translator()

    def gen():
        try:
            return {"Gen/ObjOrder.v": tr.generate(ctx.repo)}
        except tr.TranslatorError as e:
            raise F.TranslatorError(str(e))

    targets = ["Lib/Eqb.vo", "Model/Names.vo", "Gen/ObjOrder.vo", "Proof/NamesProof.vo"]
    if not ctx.coq_props(allowed_axioms=(), gen=gen, extra_targets=targets):
        F.coq_make(targets)
    try:
        T = tr.tables(ctx.repo)
        order = [(labels, cnt, adr) for labels, cnt, adr in T["groups"]]
        objval = dict(T["objvals"])
        mult = T["mult"][0][1]
    except tr.TranslatorError:
        # translator failed (already recorded): fall back to the order of the unchanged tree so that the failing-input search still runs
        order = [(["BODY", "XBODY"] if c == "nbody" else [l], c, a) for l, c, a in [
            ("BODY", "nbody", "name_bodyadr"), ("JOINT", "njnt", "name_jntadr"), ("GEOM", "ngeom", "name_geomadr"), ("SITE", "nsite", "name_siteadr"),
            ("CAMERA", "ncam", "name_camadr"), ("LIGHT", "nlight", "name_lightadr"), ("FLEX", "nflex", "name_flexadr"), ("MESH", "nmesh", "name_meshadr"),
            ("SKIN", "nskin", "name_skinadr"), ("HFIELD", "nhfield", "name_hfieldadr"), ("TEXTURE", "ntex", "name_texadr"), ("MATERIAL", "nmat", "name_matadr"),
            ("PAIR", "npair", "name_pairadr"), ("EXCLUDE", "nexclude", "name_excludeadr"), ("EQUALITY", "neq", "name_eqadr"),
            ("TENDON", "ntendon", "name_tendonadr"), ("ACTUATOR", "nactuator", "name_actuatoradr"), ("SENSOR", "nsensor", "name_sensoradr"),
            ("NUMERIC", "nnumeric", "name_numericadr"), ("TEXT", "ntext", "name_textadr"), ("TUPLE", "ntuple", "name_tupleadr"), ("KEY", "nkey", "name_keyadr"),
            ("PLUGIN", "nplugin", "name_pluginadr")]]
        objval = {"mjOBJ_" + l: i for i, l in enumerate(
            ["UNKNOWN", "BODY", "XBODY", "JOINT", "DOF", "GEOM", "SITE", "CAMERA", "LIGHT", "FLEX", "MESH", "SKIN", "HFIELD", "TEXTURE", "MATERIAL",
             "PAIR", "EXCLUDE", "EQUALITY", "TENDON", "ACTUATOR", "SENSOR", "NUMERIC", "TEXT", "TUPLE", "KEY", "PLUGIN"])}
        mult = 2
    exe = ctx.driver("c34_names", ["c34_names.c"])
    if exe is None:
        return
    kinds_all = [KIND_OF_COUNT[c] for _, c, _ in order if c in KIND_OF_COUNT]
    if len(kinds_all) != len(order):
        ctx.broken.append(("correspondence", "harness does not know how to create objects for a count field of the regenerated order",
                           str([c for _, c, _ in order if c not in KIND_OF_COUNT])))
    # object type integers to query: every label of the order, plus types without names
    type_of_k = []
    for k, (labels, cnt, adr) in enumerate(order):
        for l in labels:
            type_of_k.append((objval.get("mjOBJ_" + l, -99), k))
    nameless = [objval.get("mjOBJ_UNKNOWN", 0), objval.get("mjOBJ_DOF", 4), objval.get("mjOBJ_FRAME", 100), objval.get("mjOBJ_DEFAULT", 101),
                objval.get("mjOBJ_MODEL", 102), 57, -1, -7]

    nmodels = 8 if ctx.tier == "quick" else 200
    styles = ["collide", "prefix", "mixed", "random"]
    models = []
    for mi in range(nmodels):
        style = styles[mi % len(styles)]
        if mi == 0:
            kinds = kinds_all           # every type at once
        elif mi % 3 == 0:
            kinds = kinds_all
        else:
            kinds = rng.sample(kinds_all, rng.randrange(2, 8))
        models.append((style, make_model(rng, kinds, style, big=(ctx.tier == "thorough" and mi % 5 == 0))))

    # ------------------------------------------------------------------ first pass: compile, learn the real names
    inp = ""
    for style, req in models:
        inp += "MODEL\n" + "".join("T %s %d %s\n" % (k, len(v), " ".join(hx(s) for s in v)) for k, v in req.items() if v) + "END\n"
    rc, out, err = ctx.run(exe, inp, timeout=600)
    lines = out.strip().split("\n")
    if rc != 0 or len(lines) != len(models):
        ctx.broken.append(("correspondence", "driver c34_names failed", "rc=%s %s %s" % (rc, err[-600:], out[-300:])))
        return
    parsed = []
    for (style, req), line in zip(models, lines):
        if not line.startswith("model "):
            ctx.broken.append(("correspondence", "model did not compile", line[:300] + " :: " + str({k: [hx(s) for s in v] for k, v in req.items()})[:600]))
            parsed.append(None)
            continue
        head, cpart, apart, bufhex, mpart = line.split("|")
        ht = head.split()
        nnames, nmap = int(ht[2]), int(ht[4])
        ct = cpart.split()
        counts = {ct[i]: int(ct[i + 1]) for i in range(0, len(ct), 2)}
        at = apart.split()
        adrs, i = {}, 0
        while i < len(at):
            n = int(at[i + 1])
            adrs[at[i]] = list(map(int, at[i + 2:i + 2 + n]))
            i += 2 + n
        buf = list(bytes.fromhex(bufhex.strip()))
        nmapv = list(map(int, mpart.split()))
        # names per type read from the struct arrays (independent of mj_id2name)
        types = []
        for labels, cnt, adr in order:
            ns = []
            for a in adrs.get(adr, []):
                e = a
                while e < len(buf) and buf[e] != 0:
                    e += 1
                ns.append(buf[a:e])
            types.append(ns)
        e = 0
        while e < len(buf) and buf[e] != 0:
            e += 1
        modelname = buf[:e]
        pc = predicted_counts(req)
        for labels, cnt, adr in order:
            kd = KIND_OF_COUNT.get(cnt)
            if kd and counts.get(cnt) != pc.get(kd, 0):
                ctx.broken.append(("correspondence", "driver created an unexpected number of objects", "%s: %s vs predicted %s" % (cnt, counts.get(cnt), pc.get(kd, 0))))
        parsed.append(dict(nnames=nnames, nmap=nmap, counts=counts, adrs=adrs, buf=buf, map=nmapv, types=types, modelname=modelname))

    # ------------------------------------------------------------------ second pass: queries
    inp = ""
    qlist = []      # per model: list of ("Q", type, k, s) / ("I", type, k, i) / ("H", n, s)
    for (style, req), P in zip(models, parsed):
        inp += "MODEL\n" + "".join("T %s %d %s\n" % (k, len(v), " ".join(hx(s) for s in v)) for k, v in req.items() if v) + "END\n"
        qs = []
        if P is not None:
            allnames = [s for ns in P["types"] for s in ns if s]
            pool = list(allnames)
            for s in allnames[:200]:
                pool += [s[:-1], s + [rng.choice(ALPHA)], s[:1], s + [0x20], s[:-1] + [(s[-1] ^ 0x20) or 0x41], [c ^ 0x80 or 1 for c in s]]
            pool += [[], [0x41], [0xFF], list(b"world"), list(b"World"), list(b"worl"), list(b"world ")]
            uniq = []
            seen = set()
            for s in pool:
                if tuple(s) not in seen and len(s) < 120 and 0 not in s:
                    seen.add(tuple(s))
                    uniq.append(s)
            for (tv, k) in type_of_k:
                own = [s for s in P["types"][k] if s]
                others = [s for s in uniq if tuple(s) not in set(map(tuple, own))]
                sel = own + (others if len(others) < 30 else rng.sample(others, 30))
                for s in sel:
                    qs.append(("Q", tv, k, s))
                for i in list(range(-2, len(P["types"][k]) + 2)) + [1 << 20, -(1 << 20)]:
                    qs.append(("I", tv, k, i))
            for tv in nameless:
                for s in (uniq[:3] + [[]]):
                    qs.append(("Q", tv, 999, s))
                for i in (-1, 0, 1):
                    qs.append(("I", tv, 999, i))
            for s in uniq[:40]:
                for n in (1, 2, 7, 2 * max(1, len(P["types"][0])), 1 << 33, (1 << 63) + 5):
                    qs.append(("H", n, s))
        for q in qs:
            if q[0] == "Q":
                inp += "Q %d %s\n" % (q[1], hx(q[3]))
            elif q[0] == "I":
                inp += "I %d %d\n" % (q[1], q[3])
            else:
                inp += "H %d %s\n" % (q[1], hx(q[2]))
        qlist.append(qs)
    rc, out, err = ctx.run(exe, inp, timeout=900)
    lines = out.strip().split("\n")
    if rc != 0 or len(lines) != len(models) + sum(len(q) for q in qlist):
        ctx.broken.append(("correspondence", "driver c34_names failed on the query pass", "rc=%s %s" % (rc, err[-600:])))
        return

    # ------------------------------------------------------------------ oracle on implementation outputs + Coq cases
    coq_cases = []
    pos = 0
    nq_total = 0
    nontriv = set()
    nviol = 0
    case_model = []
    for mi, ((style, req), P, qs) in enumerate(zip(models, parsed, qlist)):
        pos += 1
        res = lines[pos:pos + len(qs)]
        pos += len(qs)
        if P is None:
            continue
        nq_total += len(qs)
        n2i, i2n = {}, {}
        enc = []
        for q, r in zip(qs, res):
            if q[0] == "Q":
                n2i[(q[1], tuple(q[3]))] = int(r)
                enc.append([0, min(q[2], 999), int(r)] + q[3])
            elif q[0] == "I":
                i2n[(q[1], q[3])] = None if r == "NULL" else unhx(r)
                enc.append([1, min(q[2], 999), q[3], 0 if r == "NULL" else 1] + ([] if r == "NULL" else unhx(r)))
            else:
                hv = int(r)
                if hv != hash64(q[2]) % q[1]:
                    ctx.violation("correspondence", {"op": "mj_hashString", "name_hex": hx(q[2]), "n": q[1]}, expected=hash64(q[2]) % q[1], observed=hv,
                                  theorem="correspondence c34_names (mj_hashString)", signature={"site": "mj_hashString"}, found_input=False,
                                  note="the hash value differs from the modelled function; the property itself only needs a hash into [0,n) "
                                       "used consistently by insertion and lookup")
                enc.append([2, q[1], hv] + q[2])

        def viol(what, case, exp, obs, thm):
            nonlocal nviol
            nviol += 1
            if nviol <= 8:
                case = dict(case, model_index=mi, style=style, request={k: [hx(s) for s in v] for k, v in req.items() if v})
                ctx.violation("impl_violation", case, expected=exp, observed=obs, theorem=thm, signature={"site": what})
        for (tv, k) in type_of_k:
            ns = P["types"][k]
            named = {tuple(s): i for i, s in enumerate(ns) if s}
            for i in list(range(-2, len(ns) + 2)) + [1 << 20, -(1 << 20)]:
                got = i2n.get((tv, i), "missing")
                want = ns[i] if 0 <= i < len(ns) and ns[i] else None
                if got != want:
                    viol("mj_id2name", {"objtype": tv, "id": i, "names_hex": [hx(s) for s in ns]}, hx(want) if want else "NULL",
                         hx(got) if got not in (None, "missing") else str(got), "C34_id2name")
            for (t2, s), r in n2i.items():
                if t2 != tv:
                    continue
                want = named.get(s, -1)
                if r != want:
                    viol("mj_name2id", {"objtype": tv, "query_hex": hx(list(s)), "names_hex": [hx(x) for x in ns],
                                        "table": P["map"]}, want, r, "C34_roundtrip" if want >= 0 else "C34_absent")
                if want >= 0:
                    sz = mult * len(ns)
                    chain = sum(1 for x in named if hash64(list(x)) % sz == hash64(list(s)) % sz)
                    if chain >= 2:
                        nontriv.add((mi, tv, s))
        for tv in nameless:
            for (t2, s), r in n2i.items():
                if t2 == tv and r != -1:
                    viol("mj_name2id", {"objtype": tv, "query_hex": hx(list(s))}, -1, r, "C34_absent")
            for (t2, i), r in i2n.items():
                if t2 == tv and r is not None:
                    viol("mj_id2name", {"objtype": tv, "id": i}, "NULL", hx(r), "C34_id2name")
        # Coq case: flat list of length-prefixed segments
        segs = [[mult], P["modelname"], [len(P["types"])]]
        for ns in P["types"]:
            segs.append([len(ns)])
            segs += ns
        segs.append(P["map"])
        segs.append(P["buf"])
        for labels, cnt, adr in order:
            segs.append(P["adrs"].get(adr, []))
        segs.append([len(enc)])
        segs += enc
        flat = []
        for sg in segs:
            flat += [len(sg)] + list(sg)
        coq_cases.append(zl(flat))
        case_model.append(mi)

    pre = r'''
Fixpoint unflat (fuel : nat) (l : list Z) : list (list Z) :=
  match fuel with
  | O => []
  | S f => match l with [] => [] | k :: r => firstn (Z.to_nat k) r :: unflat f (skipn (Z.to_nat k) r) end
  end.
(* read n groups, each announced by a one-element segment holding its length *)
Fixpoint groups (n : nat) (sg : list (list Z)) : list (list (list Z)) * list (list Z) :=
  match n with
  | O => ([], sg)
  | S n' => match sg with
            | [c] :: r => let k := Z.to_nat c in let (gs, rest) := groups n' (skipn k r) in (firstn k r :: gs, rest)
            | _ => ([], sg)
            end
  end.
Definition enc_slot (o : option nat) : Z := match o with Some j => Z.of_nat j | None => (-1)%Z end.
Definition enc_id (o : option nat) : Z := enc_slot o.
Definition chk_query (M : nat) (mn : name) (types : list (list name)) (map : table) (q : list Z) : bool :=
  match q with
  | 0%Z :: k :: r :: s => Z.eqb (enc_id (name2id hashN M mn types map (Z.to_nat k) s)) r
  | 1%Z :: k :: i :: fl :: s =>
      match id2name mn types (Z.to_nat k) i with
      | None => Z.eqb fl 0
      | Some t => Z.eqb fl 1 && zlist_eqb t s
      end
  | 2%Z :: n :: h :: s => Z.eqb (hashString s n) h
  | _ => false
  end.
Definition chk_model (c : list Z) : bool :=
  let sg := unflat (length c) c in
  match sg with
  | [m] :: mn :: [nt] :: r =>
      let M := Z.to_nat m in
      let (types, r1) := groups (Z.to_nat nt) r in
      match r1 with
      | mapv :: buf :: r2 =>
          let adrs := firstn (Z.to_nat nt) r2 in
          let r3 := skipn (Z.to_nat nt) r2 in
          match names_map hashN M types, r3 with
          | Some mp, [nq] :: qs =>
              zlist_eqb (map enc_slot mp) mapv &&
              zlist_eqb (names_buf mn types) buf &&
              Z.eqb (Z.of_nat (nnames_map M types)) (Z.of_nat (length mapv)) &&
              list_eqb zlist_eqb (map (fun k => map (fun j => Z.of_nat (name_adr mn types k j)) (seq 0 (length (nth k types [])))) (seq 0 (length types))) adrs &&
              forallb (chk_query M mn types mp) qs
          | _, _ => false
          end
      | _ => false
      end
  | _ => false
  end.
'''
    imports = ("From Coq Require Import List ZArith Bool.\nFrom MJV Require Import Lib.Eqb Model.Names.\nOpen Scope Z_scope.")
    fails = ctx.coq_eval("c34", imports, coq_cases, "chk_model", pre=pre, shard=max(1, (len(coq_cases) + 7) // 8), timeout=1500)
    for i in fails[:3]:
        mi = case_model[i]
        style, req = models[mi]
        P = parsed[mi]
        ctx.violation("correspondence", {"model_index": mi, "style": style, "request": {k: [hx(s) for s in v] for k, v in req.items() if v}},
                      expected="names_map, names buffer, name_*adr and every query result of Model/Names.v",
                      observed={"names_map": P["map"], "counts": P["counts"]}, found_input=False, theorem="correspondence c34_names",
                      note="implementation and Coq model disagree on this model, but the lookups satisfy the property on the implementation output")
    ctx.cov["evaluations"] = nq_total
    ctx.cov["distinct_nontrivial"] = len(nontriv)
    ctx.cov["rule"] = ("%d models built through mjSpec (styles: forced collisions on one slot incl. wrap-around, prefix/extension families, mixed, random; "
                       "unnamed objects; non-ASCII bytes); per model and object type: mj_name2id on every own name, on names of other types and on "
                       "mutated names (prefix, extension, case flip, high-bit flip, empty), mj_id2name on ids -2..count+1 and +-2^20, nameless object "
                       "types, mj_hashString on several table sizes; non-trivial = distinct (model, type, name) successful lookups whose home slot is "
                       "shared with another name of the type (collision chain)" % len(models))
    ctx.cov["samples"] = [{"style": models[i][0], "request": {k: [hx(s) for s in v][:12] for k, v in models[i][1].items() if v}} for i in (0, len(models) - 1)]
    ctx.cov["correspondence_disagreements"] = len(fails)
    ctx.cov["support"]["models"] = len(models)
    ctx.cov["support"]["object_types_created"] = sorted({k for _, req in models for k, v in req.items() if v})
    ctx.cov["explanation"] = "generic theorems for any hash function/any names + computed order equality; loops tied by exact comparison on %d queries" % nq_total
