"""C43 — restricted model family used by the whole-pipeline comparison: one python description, two printers
(MJCF for the wheel's parser -> MJX, line protocol of harness/drivers/c43_dump.c -> mjSpec C API of the working tree)."""
import math

GEOM_NAME = {0: "plane", 2: "sphere", 3: "capsule"}
JNT_NAME = {0: "free", 1: "ball", 2: "slide", 3: "hinge"}
CONE_NAME = {0: "pyramidal", 1: "elliptic"}
INTEG_NAME = {0: "Euler", 1: "RK4", 2: "implicit", 3: "implicitfast"}
SOLVER_NAME = {0: "PGS", 1: "CG", 2: "Newton"}


def r(x):
    return repr(float(x))


def vec(v):
    return " ".join(r(x) for x in v)


def unit(q):
    n = math.sqrt(sum(x * x for x in q))
    return [x / n for x in q]


def rquat(rng, amp=1.0):
    if amp >= 1.0:
        return unit([rng.gauss(0, 1) for _ in range(4)])
    return unit([1.0] + [rng.uniform(-amp, amp) for _ in range(3)])


DEF_SOLREF = (0.02, 1.0)
DEF_SOLIMP = (0.9, 0.95, 0.001, 0.5, 2.0)


def geom(gtype, size, pos=(0, 0, 0), quat=(1, 0, 0, 0), condim=3, friction=(1, 0.005, 0.0001), margin=0.0, gap=0.0, density=1000.0,
         solref=DEF_SOLREF, solimp=DEF_SOLIMP):
    return {"type": gtype, "size": list(size) + [0.0] * (3 - len(size)), "pos": list(pos), "quat": list(quat), "condim": condim,
            "friction": list(friction), "margin": margin, "gap": gap, "density": density, "solref": list(solref), "solimp": list(solimp)}


def rand_solref(rng, direct=None):
    """standard (timeconst, dampratio) - sometimes below 2 timesteps so that the REFSAFE clamp acts - or direct (-stiffness, -damping)"""
    if direct is None:
        direct = rng.random() < 0.5
    if direct:
        return [-rng.uniform(50.0, 3000.0), -rng.uniform(1.0, 80.0)]
    return [rng.choice([0.003, 0.01, 0.02, 0.05]) * rng.uniform(0.8, 1.2), rng.uniform(0.3, 1.6)]


def rand_solimp(rng):
    return [rng.uniform(0.4, 0.9), rng.uniform(0.9, 0.995), 10 ** rng.uniform(-3, -1), rng.uniform(0.2, 0.8), rng.choice([1.0, 2.0, 2.0, 3.0])]


def joint(jtype, axis=(0, 0, 1), pos=(0, 0, 0), damping=0.0, stiffness=0.0, armature=0.0, limited=False, rng_=(0.0, 0.0), springref=0.0,
          frictionloss=0.0, solref_limit=DEF_SOLREF, solimp_limit=DEF_SOLIMP, solref_friction=DEF_SOLREF, solimp_friction=DEF_SOLIMP,
          actgravcomp=False, actfrclimited=False, actfrcrange=(0.0, 0.0)):
    return {"type": jtype, "axis": list(axis), "pos": list(pos), "damping": damping, "stiffness": stiffness, "armature": armature,
            "limited": bool(limited), "range": list(rng_), "springref": springref, "frictionloss": frictionloss,
            "solref_limit": list(solref_limit), "solimp_limit": list(solimp_limit), "solref_friction": list(solref_friction),
            "solimp_friction": list(solimp_friction), "actgravcomp": bool(actgravcomp), "actfrclimited": bool(actfrclimited),
            "actfrcrange": list(actfrcrange)}


def make_model(rng, family):
    """families:
       'smooth'   : trees of hinge/slide/ball/free bodies, springs, dampers, armature, actuators; geoms do not collide (contype 0 is not
                    in the protocol: bodies are spread out and there is no plane)
       'contact1' : free/hinged spheres and capsules above a plane, frictionless contacts (condim 1)
       'contact3' : the same with condim 3 (pyramidal or elliptic)
       'spheres'  : free spheres resting on each other and on the plane (sphere-sphere, plane-sphere)
       'capsules' : sphere-capsule and capsule-capsule pairs (MJX kernels regularised with 1e-6: looser tolerance)"""
    M = {"family": family, "bodies": [], "wgeoms": [], "acts": [], "wsites": [], "tendons": [], "eqs": [], "sensors": []}
    opt = {"timestep": rng.choice([0.002, 0.004, 0.005]), "gravity": [0.0, 0.0, -9.81], "cone": 0, "integrator": 0, "solver": 2,
           "iterations": 100, "impratio": 1.0, "tolerance": 1e-10, "disableflags": 0}
    M["opt"] = opt
    njnt = 0
    scalar = []

    def add_body(parent, pos, quat=(1, 0, 0, 0)):
        M["bodies"].append({"parent": parent, "pos": list(pos), "quat": list(quat), "joints": [], "geoms": [], "sites": []})
        return len(M["bodies"]) - 1

    def add_joint(b, j):
        nonlocal njnt
        M["bodies"][b]["joints"].append(j)
        if j["type"] >= 2:
            scalar.append(njnt)
        njnt += 1

    if family == "smooth":
        opt["integrator"] = rng.choice([0, 0, 1, 3])
        opt["gravity"] = [rng.uniform(-1, 1), rng.uniform(-1, 1), -9.81]
        nb = rng.randrange(1, 5)
        for k in range(nb):
            root = k == 0 or rng.random() < 0.25
            parent = -1 if root else rng.randrange(k)
            pos = [3.0 * k + rng.uniform(-0.2, 0.2), rng.uniform(-0.2, 0.2), rng.uniform(0.5, 1.5)] if root else \
                  [rng.uniform(-0.3, 0.3), rng.uniform(-0.3, 0.3), rng.uniform(-0.3, 0.3)]
            b = add_body(parent, pos, rquat(rng) if rng.random() < 0.5 else (1, 0, 0, 0))
            kind = rng.choice([0, 1, 2, 3, 3, 3]) if root else rng.choice([1, 2, 3, 3, 3])
            if kind == 0:
                add_joint(b, joint(0))
            elif kind == 1:
                add_joint(b, joint(1, pos=[rng.uniform(-0.1, 0.1) for _ in range(3)], damping=rng.choice([0.0, rng.uniform(0, 0.5)]),
                                   stiffness=0.0, armature=rng.choice([0.0, rng.uniform(0, 0.1)])))
            else:
                for _ in range(rng.choice([1, 1, 2])):
                    t = kind if _ == 0 else rng.choice([2, 3])
                    add_joint(b, joint(t, axis=unit([rng.uniform(-1, 1) for _ in range(3)]), pos=[rng.uniform(-0.1, 0.1) for _ in range(3)],
                                       damping=rng.choice([0.0, rng.uniform(0, 1.0)]), stiffness=rng.choice([0.0, rng.uniform(0, 20.0)]),
                                       armature=rng.choice([0.0, rng.uniform(0, 0.2)]), springref=rng.choice([0.0, rng.uniform(-0.3, 0.3)])))
            # geoms far apart never touch: spheres / capsules of modest size, offset and rotated (inertia from geoms)
            for _ in range(rng.choice([1, 1, 2])):
                if rng.random() < 0.5:
                    g = geom(2, [rng.uniform(0.03, 0.08)], pos=[rng.uniform(-0.05, 0.05) for _ in range(3)], density=rng.uniform(500, 3000))
                else:
                    g = geom(3, [rng.uniform(0.02, 0.05), rng.uniform(0.04, 0.1)], pos=[rng.uniform(-0.05, 0.05) for _ in range(3)],
                             quat=rquat(rng), density=rng.uniform(500, 3000))
                M["bodies"][b]["geoms"].append(g)
        for jn in scalar:
            if rng.random() < 0.6:
                M["acts"].append({"joint": jn, "kind": rng.choice([0, 0, 1]), "gear": rng.uniform(0.5, 3.0), "kp": rng.uniform(1, 20)})
        M["collide"] = False
        return M

    if family == "solparams":
        # every kind of constraint row with its own solver parameters: solref in the standard (timeconst, dampratio) and in the direct
        # (-stiffness, -damping) form, solimp with other widths / midpoints / powers; rows active and moving (non-zero J qvel)
        opt["cone"] = rng.choice([0, 1])
        opt["impratio"] = rng.choice([1.0, 2.0]) if opt["cone"] else 1.0
        opt["disableflags"] = rng.choice([0, 0, 1 << 12])          # mjDSBL_REFSAFE
        presets = {}
        # (1) limited slide joint
        b0 = add_body(-1, [0, 0, 1])
        add_joint(b0, joint(2, axis=[1, 0, 0], limited=True, rng_=(-0.2, 0.3), solref_limit=rand_solref(rng), solimp_limit=rand_solimp(rng),
                            damping=rng.uniform(0, 0.3)))
        M["bodies"][b0]["geoms"].append(geom(2, [0.05]))
        presets[0] = [0.3 + rng.uniform(0.002, 0.04), -0.2 - rng.uniform(0.002, 0.04), rng.uniform(-0.1, 0.2)]
        # (2) limited hinge with friction loss and its own friction solver parameters
        b1 = add_body(-1, [2, 0, 1])
        add_joint(b1, joint(3, axis=[0, 1, 0], limited=True, rng_=(-0.5, 0.4), frictionloss=rng.uniform(0.05, 0.5),
                            solref_limit=rand_solref(rng), solimp_limit=rand_solimp(rng), solref_friction=rand_solref(rng), solimp_friction=rand_solimp(rng)))
        M["bodies"][b1]["geoms"].append(geom(3, [0.03, 0.15], pos=[0.15, 0, 0], quat=unit([1, 0, 1, 0])))
        presets[1] = [0.4 + rng.uniform(0.002, 0.05), rng.uniform(-0.3, 0.3), -0.5 - rng.uniform(0.002, 0.05)]
        # (3) two hinges coupled by a joint equality; a ball-jointed link connected to the world
        b2 = add_body(-1, [4, 0, 1])
        add_joint(b2, joint(3, axis=[0, 1, 0]))
        M["bodies"][b2]["geoms"].append(geom(3, [0.03, 0.15], pos=[0.15, 0, 0], quat=unit([1, 0, 1, 0])))
        b3 = add_body(b2, [0.3, 0, 0])
        add_joint(b3, joint(3, axis=[0, 1, 0]))
        M["bodies"][b3]["geoms"].append(geom(2, [0.04], pos=[0.1, 0, 0]))
        M["eqs"].append({"kind": 0, "j1": 3, "j2": 2, "c0": rng.uniform(-0.2, 0.2), "c1": rng.uniform(0.3, 1.5), "solref": rand_solref(rng), "solimp": rand_solimp(rng)})
        b4 = add_body(-1, [6, 0, 1])
        add_joint(b4, joint(3, axis=[0, 1, 0], damping=0.05))
        M["bodies"][b4]["geoms"].append(geom(3, [0.03, 0.2], pos=[0.2, 0, 0], quat=unit([1, 0, 1, 0])))
        M["eqs"].append({"kind": 0, "j1": 4, "j2": -1, "c0": rng.uniform(-0.1, 0.1), "c1": 0.0, "solref": rand_solref(rng), "solimp": rand_solimp(rng)})
        # (4) spheres on the plane, contact parameters mixed from two geoms (both standard or both direct)
        direct = rng.random() < 0.5
        cd = rng.choice([1, 3]) if opt["cone"] == 0 else 3
        fr = (rng.uniform(0.5, 1.2), 0.005, 0.0001)
        M["wgeoms"].append(geom(0, [5, 5, 0.1], condim=cd, friction=fr, solref=rand_solref(rng, direct), solimp=rand_solimp(rng)))
        for k in range(2):
            rad = rng.uniform(0.05, 0.1)
            b = add_body(-1, [8 + k, 0, rad - rng.uniform(0.001, 0.01)])
            add_joint(b, joint(0))
            M["bodies"][b]["geoms"].append(geom(2, [rad], condim=cd, friction=fr, solref=rand_solref(rng, direct), solimp=rand_solimp(rng)))
        M["presets"] = presets
        M["collide"] = True
        M["always_moving"] = True
        return M

    if family == "actuation":
        # the actuation stage: motors / position / velocity servos with gear, ctrlrange (ctrl beyond it), forcerange (tight, so that the clamp acts),
        # several actuators on one joint; joint-level actuatorfrcrange (tight) and actuatorgravcomp with body gravcomp, combined and separately
        opt["integrator"] = rng.choice([0, 0, 1])       # implicitfast with saturated servos: fixed replay `implicit_clamped_servo` (candidate finding)
        presets = {}
        nj = 0

        def act(jn, kind, **kw):
            a = {"joint": jn, "kind": kind, "gear": rng.choice([1.0, rng.uniform(0.5, 3.0), -rng.uniform(0.5, 2.0)]), "kp": rng.uniform(2, 30), "kv": rng.uniform(0.1, 2.0) if kind == 2 else 0.0,
                 "ctrllimited": rng.random() < 0.5, "ctrlrange": [-rng.uniform(0.2, 1.0), rng.uniform(0.2, 1.0)],
                 "forcelimited": rng.random() < 0.5, "forcerange": [-rng.uniform(0.1, 2.0), rng.uniform(0.1, 2.0)]}
            a.update(kw)
            M["acts"].append(a)
        combos = [(True, True), (True, False), (False, True), (False, False), (True, True)]
        rng.shuffle(combos)
        for k, (gc, lim) in enumerate(combos):
            root = k == 0 or rng.random() < 0.4
            parent = -1 if root else rng.randrange(k)
            pos = [2.5 * k, rng.uniform(-0.2, 0.2), 1.0] if root else [rng.uniform(0.15, 0.3), rng.uniform(-0.1, 0.1), rng.uniform(-0.2, 0.2)]
            b = add_body(parent, pos, rquat(rng) if rng.random() < 0.5 else (1, 0, 0, 0))
            M["bodies"][b]["gravcomp"] = rng.choice([0.0, 1.0, rng.uniform(0.2, 1.5)]) if not gc else rng.choice([1.0, rng.uniform(0.3, 1.5)])
            t = rng.choice([2, 3, 3])
            # the range is tight relative to the gravity-compensation force (m g ~ a few N / Nm) and to the actuator forces
            hi = rng.uniform(0.05, 1.5)
            lo = -rng.uniform(0.05, 1.5) if rng.random() < 0.7 else hi * rng.uniform(0.1, 0.9)       # asymmetric, sometimes entirely positive
            add_joint(b, joint(t, axis=unit([rng.uniform(-1, 1), rng.uniform(-1, 1), rng.uniform(-0.3, 0.3)]), damping=rng.uniform(0, 0.2),
                               actgravcomp=gc, actfrclimited=lim, actfrcrange=(min(lo, hi), max(lo, hi))))
            M["bodies"][b]["geoms"].append(geom(2, [rng.uniform(0.04, 0.08)], pos=[rng.uniform(0.05, 0.2), 0, 0], density=rng.uniform(800, 4000)))
            for _ in range(rng.choice([1, 1, 2])):
                act(nj, rng.choice([0, 0, 1, 2]))
            nj += 1
        M["ctrl_extreme"] = True
        M["collide"] = False
        M["always_moving"] = True
        return M

    if family == "sensors":
        # (sphere geoms only: accidental contacts between links then go through exact kernels, not the regularised capsule ones)
        # frame sensors with and without a reference frame, object and reference on DIFFERENT moving bodies (both directions), on the same body,
        # on bodies / inertial frames / sites; site sensors; joint, subtree, actuator sensors; everything moving
        opt["integrator"] = rng.choice([0, 1])
        nsite = [0]

        def add_site(b, pos):
            nm = "s%d" % nsite[0]
            nsite[0] += 1
            (M["wsites"] if b is None else M["bodies"][b]["sites"]).append({"name": nm, "pos": list(pos)})
            return nm
        R = add_body(-1, [0, 0, 1.5], rquat(rng))
        add_joint(R, joint(0))
        M["bodies"][R]["geoms"].append(geom(2, [0.05], pos=[0.05, 0, 0.02], density=3000.0))
        A = add_body(R, [0.3, 0.05, 0], rquat(rng))
        add_joint(A, joint(3, axis=unit([rng.uniform(-1, 1), 1, rng.uniform(-1, 1)]), damping=0.05))
        M["bodies"][A]["geoms"].append(geom(2, [0.06], pos=[0.1, 0.02, 0]))
        B = add_body(A, [0.25, 0, 0.1], rquat(rng))
        add_joint(B, joint(1, damping=0.02))
        M["bodies"][B]["geoms"].append(geom(2, [0.04], pos=[0.08, 0, 0]))
        T = add_body(B, [0.2, 0, 0], rquat(rng))                                   # welded tool frame with mass
        M["bodies"][T]["geoms"].append(geom(2, [0.03]))
        D = add_body(-1, [3, 0, 1], rquat(rng))
        add_joint(D, joint(3, axis=[0, 1, 0]))
        add_joint(D, joint(2, axis=[1, 0, 0]))
        M["bodies"][D]["geoms"].append(geom(2, [0.05], pos=[0.1, 0, 0]))
        sites = {R: add_site(R, [0.1, 0.05, 0.02]), A: add_site(A, [0.05, 0.1, -0.02]), B: add_site(B, [0.12, -0.03, 0.04]), T: add_site(T, [0.02, 0.02, 0.05]),
                 D: add_site(D, [0.2, 0.03, 0.0])}
        wsite = add_site(None, [1.0, 0.5, 0.7])
        bodies_ = [R, A, B, T, D]

        def obj(b, kind):
            return (kind, ("b", b)) if kind in ("body", "xbody") else ("site", ("s", sites[b]))
        S = M["sensors"]
        # every ordered pair of distinct bodies for the velocity sensors (the correction terms differ between object and reference)
        pairs = [(a, c) for a in bodies_ for c in bodies_ if a != c]
        rng.shuffle(pairs)
        for tname in ("framelinvel", "frameangvel", "framepos", "framequat"):
            for a, c in pairs[:6 if tname.endswith("vel") else 3]:
                S.append((tname,) + obj(a, rng.choice(["body", "xbody", "site"])) + obj(c, rng.choice(["body", "xbody", "site"])))
            b = rng.choice(bodies_)
            S.append((tname,) + obj(b, "site") + obj(b, "xbody"))                       # object and reference on the same body
            S.append((tname,) + obj(rng.choice(bodies_), "body") + ("none", None))      # world frame
            S.append((tname,) + obj(rng.choice(bodies_), "site") + ("site", ("s", wsite)))     # static reference site
        for tname in ("framexaxis", "frameyaxis", "framezaxis"):
            a, c = rng.choice(pairs)
            S.append((tname,) + obj(a, "site") + obj(c, "body"))
        for tname in ("framelinacc", "frameangacc"):
            for b in rng.sample(bodies_, 2):
                S.append((tname,) + obj(b, rng.choice(["body", "xbody", "site"])) + ("none", None))
        for tname in ("velocimeter", "gyro", "accelerometer"):
            for b in rng.sample(bodies_, 2):
                S.append((tname,) + obj(b, "site") + ("none", None))
        for tname in ("subtreecom", "subtreelinvel", "subtreeangmom"):
            S.append((tname, "body", ("b", rng.choice([R, A, D]))) + ("none", None))
        S.append(("jointpos", "joint", ("j", 1), "none", None))
        S.append(("jointvel", "joint", ("j", 4), "none", None))
        S.append(("ballquat", "joint", ("j", 2), "none", None))
        S.append(("ballangvel", "joint", ("j", 2), "none", None))
        M["acts"].append({"joint": 1, "kind": 0, "gear": 1.5, "kp": 0.0})
        M["acts"].append({"joint": 4, "kind": 1, "gear": 1.0, "kp": 5.0})
        for tname in ("actuatorpos", "actuatorvel", "actuatorfrc"):
            S.append((tname, "actuator", ("a", rng.randrange(2)), "none", None))
        S.append(("clock", "none", None, "none", None))
        M["collide"] = False
        M["always_moving"] = True
        return M

    if family == "welded":
        # body trees with JOINTLESS (welded) bodies and overlapping geoms in every relation the parent-child collision filter distinguishes:
        # (link, its welded child), (grand-parent link, body welded to the child link)  -> filtered;
        # (grand-parent link, jointed grand-child), siblings, geoms of a body welded to the world vs a free body -> collide
        opt["cone"] = rng.choice([0, 1])
        cd = 3 if opt["cone"] else rng.choice([1, 3])
        fr = (rng.uniform(0.5, 1.2), 0.005, 0.0001)
        e = lambda: rng.uniform(-0.01, 0.01)
        M["wgeoms"].append(geom(0, [5, 5, 0.1], condim=cd, friction=fr))
        # a body welded to the world carrying a geom (static), a free ball resting on it
        w = add_body(-1, [-2 + e(), 0, 0.3])
        M["bodies"][w]["geoms"].append(geom(2, [0.15], condim=cd, friction=fr))
        w2 = add_body(w, [0.2, 0, 0.05])                       # welded to a body welded to the world
        M["bodies"][w2]["geoms"].append(geom(2, [0.1], condim=cd, friction=fr))
        fb = add_body(-1, [-2 + 0.05, e(), 0.3 + 0.15 + 0.08 - rng.uniform(0.002, 0.01)])
        add_joint(fb, joint(0))
        M["bodies"][fb]["geoms"].append(geom(2, [0.08], condim=cd, friction=fr))
        # G (free) - A (hinge) - B (welded to A, reaches back into G) - C (hinge, reaches into G as well); S sibling of A overlapping A
        G = add_body(-1, [0, 0, 1.0])
        add_joint(G, joint(0))
        M["bodies"][G]["geoms"].append(geom(2, [0.1], condim=cd, friction=fr))
        A = add_body(G, [0.22 + e(), 0, 0])
        add_joint(A, joint(3, axis=[0, 1, 0], damping=0.1))
        M["bodies"][A]["geoms"].append(geom(2, [0.06], condim=cd, friction=fr))
        B = add_body(A, [-0.09 + e(), e(), 0.05])
        M["bodies"][B]["geoms"].append(geom(2, [0.05], condim=cd, friction=fr))                      # overlaps G's geom: filtered (weld parent of B is G)
        if rng.random() < 0.7:
            B2 = add_body(B, [0.0, 0.03, -0.1 + e()])                                                   # welded to a welded body: same weld body A
            M["bodies"][B2]["geoms"].append(geom(3, [0.025, 0.04], condim=cd, friction=fr, quat=rquat(rng)))
        Cc = add_body(B, [-0.12 + e(), 0.12, 0.0])
        add_joint(Cc, joint(3, axis=[0, 0, 1], damping=0.1))
        M["bodies"][Cc]["geoms"].append(geom(2, [0.06], condim=cd, friction=fr))                     # jointed grand-child touching G: collides
        S = add_body(G, [0.2 + e(), -0.1, 0.0])
        add_joint(S, joint(3, axis=[1, 0, 0], damping=0.1))
        M["bodies"][S]["geoms"].append(geom(2, [0.05], condim=cd, friction=fr))                      # sibling of A overlapping A: collides
        M["collide"] = True
        M["always_moving"] = rng.random() < 0.5
        return M

    if family == "implicit_clamped_servo":
        # fixed replay of the candidate finding "MJX deriv_smooth_vel keeps the velocity derivative of an actuator whose force is clamped by forcerange"
        # (C mjd_actuator_vel skips it): implicitfast, one hinge, a velocity servo with kv saturated by a tight forcerange
        opt["integrator"] = 3
        opt["timestep"] = 0.004
        b = add_body(-1, [0, 0, 1])
        add_joint(b, joint(3, axis=[0, 1, 0]))
        M["bodies"][b]["geoms"].append(geom(2, [0.06], pos=[0.15, 0, 0]))
        M["acts"].append({"joint": 0, "kind": 2, "gear": 1.0, "kp": 0.0, "kv": 2.0, "ctrllimited": False, "ctrlrange": [0.0, 0.0], "forcelimited": True, "forcerange": [-0.2, 0.2]})
        M["ctrl_fixed"] = [3.0]
        M["collide"] = False
        M["always_moving"] = True
        M["known"] = "implicit_clamp"
        return M

    if family == "connect_moving":
        # fixed replay of the candidate finding "MJX has no Jdot*v correction for connect / weld rows": a ball-jointed link whose tip is connected
        # to the world, moving
        opt["timestep"] = 0.004
        b = add_body(-1, [0, 0, 1])
        add_joint(b, joint(1, damping=0.05))
        M["bodies"][b]["geoms"].append(geom(3, [0.03, 0.2], pos=[0.2, 0, 0], quat=unit([1, 0, 1, 0])))
        M["eqs"].append({"kind": 1, "body": 0, "anchor": [0.4, 0.0, 0.0], "solref": [0.02, 1.0], "solimp": list(DEF_SOLIMP)})
        M["collide"] = True
        M["always_moving"] = True
        M["known"] = "jdotv"
        return M

    if family == "tendons":
        # fixed and spatial tendons with stiffness, damping and a genuine dead-band spring range lower < upper; the states put the
        # tendon lengths below, inside and above the band
        opt["integrator"] = rng.choice([0, 0, 3])
        nsite = [0]

        def add_site(b, pos):
            nm = "s%d" % nsite[0]
            nsite[0] += 1
            (M["wsites"] if b is None else M["bodies"][b]["sites"]).append({"name": nm, "pos": list(pos)})
            return nsite[0] - 1
        presets = {}
        # (1) slide joint with a fixed tendon: length = coef * q
        b0 = add_body(-1, [0, 0, 1])
        add_joint(b0, joint(2, axis=[1, 0, 0], damping=rng.uniform(0, 0.5)))
        M["bodies"][b0]["geoms"].append(geom(2, [0.05]))
        coef = rng.choice([1.0, 2.0, -1.5])
        lo, hi = sorted([rng.uniform(0.1, 0.4), rng.uniform(0.45, 0.9)])
        M["tendons"].append({"stiffness": rng.uniform(5, 60), "damping": rng.uniform(0, 1.0), "springlength": [lo, hi], "wraps": [(0, 0, coef)]})
        presets[0] = [(hi + rng.uniform(0.05, 0.3)) / coef, (lo - rng.uniform(0.05, 0.3)) / coef, (0.5 * (lo + hi)) / coef]
        # (2) two hinges in a chain with a fixed tendon over both
        b1 = add_body(-1, [2, 0, 1])
        add_joint(b1, joint(3, axis=[0, 1, 0], damping=0.1))
        M["bodies"][b1]["geoms"].append(geom(3, [0.03, 0.15], pos=[0.15, 0, 0], quat=unit([1, 0, 1, 0])))
        b2 = add_body(b1, [0.3, 0, 0])
        add_joint(b2, joint(3, axis=[0, 1, 0], stiffness=rng.choice([0.0, 3.0])))
        M["bodies"][b2]["geoms"].append(geom(3, [0.03, 0.15], pos=[0.15, 0, 0], quat=unit([1, 0, 1, 0])))
        c1, c2 = rng.uniform(0.5, 2), rng.uniform(-2, -0.5)
        lo2, hi2 = -rng.uniform(0.1, 0.4), rng.uniform(0.1, 0.4)
        M["tendons"].append({"stiffness": rng.uniform(5, 40), "damping": rng.uniform(0, 0.5), "springlength": [lo2, hi2], "wraps": [(0, 1, c1), (0, 2, c2)]})
        # (3) spatial tendon between a world site and a site on a pendulum tip; band inside the attainable range of lengths
        b3 = add_body(-1, [4, 0, 1])
        add_joint(b3, joint(3, axis=[0, 1, 0], damping=0.05))
        M["bodies"][b3]["geoms"].append(geom(3, [0.03, 0.2], pos=[0.2, 0, 0], quat=unit([1, 0, 1, 0])))
        sa = add_site(None, [4.3, 0.05, 1.2])
        sb = add_site(b3, [0.4, 0, 0])
        lo3 = rng.uniform(0.3, 0.4)
        M["tendons"].append({"stiffness": rng.uniform(20, 80), "damping": rng.uniform(0, 0.5), "springlength": [lo3, lo3 + rng.uniform(0.05, 0.15)],
                             "wraps": [(1, sa, 0.0), (1, sb, 0.0)]})
        if rng.random() < 0.5:     # a single-valued springlength too (the common case)
            sc = add_site(b2, [0.3, 0, 0.02])
            sd = add_site(None, [2.2, 0.1, 1.6])
            v = rng.uniform(0.3, 0.7)
            M["tendons"].append({"stiffness": rng.uniform(5, 30), "damping": 0.0, "springlength": [v, v], "wraps": [(1, sd, 0.0), (1, sc, 0.0)]})
        M["acts"].append({"joint": 0, "kind": 0, "gear": 1.0, "kp": 0.0})
        M["presets"] = presets
        M["collide"] = False
        return M

    # ---- contact families: a plane and bodies resting on / slightly penetrating it
    cd = 1 if family == "contact1" else 3
    if family in ("contact3", "spheres", "capsules"):
        opt["cone"] = rng.choice([0, 1])
        opt["impratio"] = rng.choice([1.0, 1.0, 2.0]) if opt["cone"] == 1 else 1.0
        cd = rng.choice([1, 3]) if family != "contact3" else 3
    fr = (rng.uniform(0.5, 1.2), 0.005, 0.0001)
    M["wgeoms"].append(geom(0, [5, 5, 0.1], condim=cd, friction=fr))
    if family in ("contact1", "contact3"):
        nb = rng.randrange(1, 4)
        for k in range(nb):
            sphere = rng.random() < 0.5
            rad = rng.uniform(0.05, 0.12)
            half = rng.uniform(0.08, 0.2)
            z = rad - rng.uniform(0.0, 0.01)
            b = add_body(-1, [1.5 * k, rng.uniform(-0.1, 0.1), z if sphere else z + rng.uniform(0.0, 0.02)],
                         (1, 0, 0, 0) if sphere else unit([1.0, rng.uniform(0.55, 0.85) * rng.choice([-1, 1]), rng.uniform(-0.1, 0.1), rng.uniform(-0.1, 0.1)]))
            add_joint(b, joint(0))
            M["bodies"][b]["geoms"].append(geom(2, [rad], condim=cd, friction=fr) if sphere else geom(3, [rad, half], condim=cd, friction=fr))
            if rng.random() < 0.4:
                c = add_body(b, [rng.uniform(0.1, 0.2), 0, rng.uniform(0.05, 0.15)])
                add_joint(c, joint(3, axis=unit([rng.uniform(-1, 1), 1.0, rng.uniform(-1, 1)]), damping=rng.uniform(0, 0.3)))
                M["bodies"][c]["geoms"].append(geom(2, [rng.uniform(0.03, 0.06)], condim=cd, friction=fr))
    elif family == "spheres":
        r1, r2 = rng.uniform(0.08, 0.12), rng.uniform(0.05, 0.1)
        b = add_body(-1, [0, 0, r1 - rng.uniform(0, 0.005)])
        add_joint(b, joint(0))
        M["bodies"][b]["geoms"].append(geom(2, [r1], condim=cd, friction=fr))
        b2 = add_body(-1, [rng.uniform(-0.03, 0.03), rng.uniform(-0.03, 0.03), 2 * r1 + r2 - rng.uniform(0.0, 0.01)])
        add_joint(b2, joint(0))
        M["bodies"][b2]["geoms"].append(geom(2, [r2], condim=cd, friction=fr))
        if rng.random() < 0.5:
            b3 = add_body(-1, [r1 + r2 * 0.9, 0.01, r2 * 1.02])
            add_joint(b3, joint(2, axis=[1, 0, 0], damping=0.1))
            M["bodies"][b3]["geoms"].append(geom(2, [r2], condim=cd, friction=fr))
    elif family == "capsules":
        r1, h1 = rng.uniform(0.04, 0.07), rng.uniform(0.15, 0.25)
        b = add_body(-1, [0, 0, r1 - rng.uniform(0, 0.004)], unit([1.0, 1.0 + rng.uniform(-0.05, 0.05), 0.0, 0.0]))   # lying capsule (axis ~ y)
        add_joint(b, joint(0))
        M["bodies"][b]["geoms"].append(geom(3, [r1, h1], condim=cd, friction=fr))
        if rng.random() < 0.5:
            r2 = rng.uniform(0.04, 0.08)
            b2 = add_body(-1, [rng.uniform(-0.01, 0.01), rng.uniform(-0.6, 0.6) * h1, 2 * r1 + r2 - rng.uniform(0.0, 0.006)])
            add_joint(b2, joint(0))
            M["bodies"][b2]["geoms"].append(geom(2, [r2], condim=cd, friction=fr))
        else:
            r2, h2 = rng.uniform(0.03, 0.06), rng.uniform(0.15, 0.25)
            b2 = add_body(-1, [rng.uniform(-0.02, 0.02), rng.uniform(-0.3, 0.3) * h1, 2 * r1 + r2 - rng.uniform(0.0, 0.006)],
                          unit([1.0, 0.0, 1.0 + rng.uniform(-0.2, 0.2), rng.uniform(-0.3, 0.3)]))                          # crossing capsule (axis ~ x)
            add_joint(b2, joint(0))
            M["bodies"][b2]["geoms"].append(geom(3, [r2, h2], condim=cd, friction=fr))
    M["collide"] = True
    return M


def dims(M):
    nq = nv = 0
    types = []
    for b in M["bodies"]:
        for j in b["joints"]:
            types.append(j["type"])
            nq += {0: 7, 1: 4, 2: 1, 3: 1}[j["type"]]
            nv += {0: 6, 1: 3, 2: 1, 3: 1}[j["type"]]
    return nq, nv, len(M["acts"]), types


def qpos0(M):
    """reference configuration: free joints at the body frame (world pose for top-level bodies), others 0 / identity"""
    q = []
    for b in M["bodies"]:
        for j in b["joints"]:
            if j["type"] == 0:
                q += list(b["pos"]) + list(b["quat"])
            elif j["type"] == 1:
                q += [1.0, 0.0, 0.0, 0.0]
            else:
                q += [0.0]
    return q


def random_state(M, rng, k):
    nq, nv, nu, types = dims(M)
    q = qpos0(M)
    amp = 0.003 if M["collide"] else 0.4
    i = 0
    for t in types:
        if t == 0:
            for a in range(3):
                q[i + a] += rng.uniform(-amp, amp) * (0.3 if (M["collide"] and a == 2) else 1.0)
            dq = rquat(rng, 0.01 if M["collide"] else 1.0)
            q[i + 3:i + 7] = quat_mul(q[i + 3:i + 7], dq)
            i += 7
        elif t == 1:
            q[i:i + 4] = rquat(rng, amp if M["collide"] else 1.0)
            i += 4
        else:
            q[i] += rng.uniform(-amp, amp)
            i += 1
    if M.get("presets"):
        i = 0
        for jn, t in enumerate(types):
            if jn in M["presets"]:
                q[i] = M["presets"][jn][k % len(M["presets"][jn])]
            elif t >= 2 and M["family"] == "tendons":
                q[i] = rng.uniform(-2.5, 2.5)
            i += {0: 7, 1: 4, 2: 1, 3: 1}[t]
    vs = 0.0 if k == 0 else (0.05 if M["collide"] else 1.0)
    if M.get("always_moving"):
        vs = 0.3
    v = [rng.uniform(-vs, vs) for _ in range(nv)]
    u = [rng.uniform(-1, 1) for _ in range(nu)]
    if M.get("ctrl_fixed"):
        u = list(M["ctrl_fixed"])
    if M.get("ctrl_extreme"):
        u = [rng.choice([-3.0, 3.0, -1.0, 1.0, 0.0, rng.uniform(-2, 2)]) for _ in range(nu)]
    return {"qpos": q, "qvel": v, "ctrl": u}


def quat_mul(a, b):
    return unit([a[0] * b[0] - a[1] * b[1] - a[2] * b[2] - a[3] * b[3],
                 a[0] * b[1] + a[1] * b[0] + a[2] * b[3] - a[3] * b[2],
                 a[0] * b[2] - a[1] * b[3] + a[2] * b[0] + a[3] * b[1],
                 a[0] * b[3] + a[1] * b[2] - a[2] * b[1] + a[3] * b[0]])


# ------------------------------------------------------------------------------------------------ printers
def geom_xml(g):
    n = {0: 3, 2: 1, 3: 2}[g["type"]]
    return ('<geom type="%s" size="%s" pos="%s" quat="%s" condim="%d" friction="%s" margin="%s" gap="%s" density="%s" solref="%s" solimp="%s"/>' %
            (GEOM_NAME[g["type"]], vec(g["size"][:n]), vec(g["pos"]), vec(g["quat"]), g["condim"], vec(g["friction"]), r(g["margin"]),
             r(g["gap"]), r(g["density"]), vec(g.get("solref", DEF_SOLREF)), vec(g.get("solimp", DEF_SOLIMP))))


def to_xml(M):
    o = M["opt"]
    flags = ""
    out = ['<mujoco>', '<compiler angle="radian" autolimits="false"/>',
           '<option timestep="%s" gravity="%s" cone="%s" integrator="%s" solver="%s" iterations="%d" impratio="%s" tolerance="%s" jacobian="dense"/>' %
           (r(o["timestep"]), vec(o["gravity"]), CONE_NAME[o["cone"]], INTEG_NAME[o["integrator"]], SOLVER_NAME[o["solver"]], o["iterations"],
            r(o["impratio"]), r(o["tolerance"])),
           ] + (['<option><flag refsafe="disable"/></option>'] if o["disableflags"] & (1 << 12) else []) + ['<worldbody>']
    for g in M["wgeoms"]:
        out.append(geom_xml(g))
    for st in M.get("wsites", []):
        out.append('<site name="%s" pos="%s"/>' % (st["name"], vec(st["pos"])))
    children = {}
    for i, b in enumerate(M["bodies"]):
        children.setdefault(b["parent"], []).append(i)
    jn = [0]

    def emit(i):
        b = M["bodies"][i]
        out.append('<body name="b%d" pos="%s" quat="%s" gravcomp="%s">' % (i, vec(b["pos"]), vec(b["quat"]), r(b.get("gravcomp", 0.0))))
        for j in b["joints"]:
            out.append('<joint name="j%d" type="%s" axis="%s" pos="%s" damping="%s" stiffness="%s" armature="%s" limited="%s" range="%s" springref="%s" '
                       'frictionloss="%s" solreflimit="%s" solimplimit="%s" solreffriction="%s" solimpfriction="%s" %s/>' %
                       (jn[0], JNT_NAME[j["type"]], vec(j["axis"]), vec(j["pos"]), r(j["damping"]), r(j["stiffness"]), r(j["armature"]),
                        "true" if j["limited"] else "false", vec(j["range"]), r(j["springref"]), r(j.get("frictionloss", 0.0)),
                        vec(j.get("solref_limit", DEF_SOLREF)), vec(j.get("solimp_limit", DEF_SOLIMP)), vec(j.get("solref_friction", DEF_SOLREF)),
                        vec(j.get("solimp_friction", DEF_SOLIMP)),
                        ('actuatorgravcomp="%s" actuatorfrclimited="%s" actuatorfrcrange="%s"' % ("true" if j.get("actgravcomp") else "false",
                         "true" if j.get("actfrclimited") else "false", vec(j.get("actfrcrange", (0.0, 0.0))))) if j["type"] >= 2 else ""))
            jn[0] += 1
        for g in b["geoms"]:
            out.append(geom_xml(g))
        for st in b.get("sites", []):
            out.append('<site name="%s" pos="%s"/>' % (st["name"], vec(st["pos"])))
        for c in children.get(i, []):
            emit(c)
        out.append('</body>')

    # NOTE: bodies are numbered in creation order; the C driver adds them in the same order, and a depth-first emission keeps the
    # compiled order identical only when children follow their parents contiguously; the model check compares the compiled arrays.
    for i in children.get(-1, []):
        emit(i)
    out.append('</worldbody>')
    if M.get("eqs"):
        out.append('<equality>')
        for e in M["eqs"]:
            if e["kind"] == 0:
                out.append('<joint joint1="j%d" %spolycoef="%s %s 0 0 0" solref="%s" solimp="%s"/>' %
                           (e["j1"], ('joint2="j%d" ' % e["j2"]) if e["j2"] >= 0 else "", r(e["c0"]), r(e["c1"]), vec(e["solref"]), vec(e["solimp"])))
            else:
                out.append('<connect body1="b%d" anchor="%s" solref="%s" solimp="%s"/>' % (e["body"], vec(e["anchor"]), vec(e["solref"]), vec(e["solimp"])))
        out.append('</equality>')
    if M.get("tendons"):
        out.append('<tendon>')
        for k, t in enumerate(M["tendons"]):
            tag = "fixed" if t["wraps"][0][0] == 0 else "spatial"
            out.append('<%s name="t%d" stiffness="%s" damping="%s" springlength="%s">' % (tag, k, r(t["stiffness"]), r(t["damping"]), vec(t["springlength"])))
            for kind, ref, coef in t["wraps"]:
                out.append('<joint joint="j%d" coef="%s"/>' % (ref, r(coef)) if kind == 0 else '<site site="s%d"/>' % ref)
            out.append('</%s>' % tag)
        out.append('</tendon>')
    if M["acts"]:
        out.append('<actuator>')
        for a in M["acts"]:
            lim = 'ctrllimited="%s" ctrlrange="%s" forcelimited="%s" forcerange="%s"' % (
                "true" if a.get("ctrllimited") else "false", vec(a.get("ctrlrange", (0.0, 0.0))), "true" if a.get("forcelimited") else "false",
                vec(a.get("forcerange", (0.0, 0.0))))
            ai = [id(x) for x in M["acts"]].index(id(a))
            if a["kind"] == 0:
                out.append('<motor name="a%d" joint="j%d" gear="%s" %s/>' % (ai, a["joint"], r(a["gear"]), lim))
            elif a["kind"] == 1:
                out.append('<position name="a%d" joint="j%d" gear="%s" kp="%s" kv="%s" %s/>' % (ai, a["joint"], r(a["gear"]), r(a["kp"]), r(a.get("kv", 0.0)), lim))
            else:
                out.append('<velocity name="a%d" joint="j%d" gear="%s" kv="%s" %s/>' % (ai, a["joint"], r(a["gear"]), r(a.get("kv", 0.0)), lim))
        out.append('</actuator>')
    if M.get("sensors"):
        out.append('<sensor>')
        for tname, ot, on, rt, rn in M["sensors"]:
            attr = ""
            if tname in ("velocimeter", "gyro", "accelerometer"):
                attr = ' site="%s"' % sname(on)
            elif tname.startswith("joint") or tname.startswith("ball"):
                attr = ' joint="%s"' % sname(on)
            elif tname.startswith("actuator"):
                attr = ' actuator="%s"' % sname(on)
            elif tname.startswith("subtree"):
                attr = ' body="%s"' % sname(on)
            elif tname != "clock":
                attr = ' objtype="%s" objname="%s"' % (ot, sname(on))
                if rt != "none":
                    attr += ' reftype="%s" refname="%s"' % (rt, sname(rn))
            out.append('<%s%s/>' % (tname, attr))
        out.append('</sensor>')
    out.append('</mujoco>')
    return "\n".join(out)


def sname(ref):
    """object name of a sensor reference: ("b" | "j" | "a", index) or ("s", site name)"""
    if ref is None:
        return "-"
    return ref[1] if ref[0] == "s" else "%s%d" % ref


def geom_line(kw, g):
    return "%s %d %s %s %s %d %s %s %s %s %s %s" % (kw, g["type"], vec(g["size"]), vec(g["pos"]), vec(g["quat"]), g["condim"], vec(g["friction"]),
                                                   r(g["margin"]), r(g["gap"]), r(g["density"]), vec(g.get("solref", DEF_SOLREF)), vec(g.get("solimp", DEF_SOLIMP)))


def to_lines(M, states):
    o = M["opt"]
    L = ["MODEL", "opt %s %s %d %d %d %d %s %s %d" % (r(o["timestep"]), vec(o["gravity"]), o["cone"], o["integrator"], o["solver"], o["iterations"],
                                                     r(o["impratio"]), r(o["tolerance"]), o["disableflags"])]
    for g in M["wgeoms"]:
        L.append(geom_line("wgeom", g))
    for st in M.get("wsites", []):
        L.append("wsite %s %s" % (st["name"], vec(st["pos"])))
    for b in M["bodies"]:
        L.append("body %d %s %s %s" % (b["parent"], vec(b["pos"]), vec(b["quat"]), r(b.get("gravcomp", 0.0))))
        for j in b["joints"]:
            L.append("joint %d %s %s %s %s %s %d %s %s %s %s %s %s %s %d %d %s" % (j["type"], vec(j["axis"]), vec(j["pos"]), r(j["damping"]), r(j["stiffness"]),
                                                                         r(j["armature"]), int(j["limited"]), vec(j["range"]), r(j["springref"]),
                                                                         r(j.get("frictionloss", 0.0)), vec(j.get("solref_limit", DEF_SOLREF)),
                                                                         vec(j.get("solimp_limit", DEF_SOLIMP)), vec(j.get("solref_friction", DEF_SOLREF)),
                                                                         vec(j.get("solimp_friction", DEF_SOLIMP)), int(bool(j.get("actgravcomp"))),
                                                                         int(bool(j.get("actfrclimited"))), vec(j.get("actfrcrange", (0.0, 0.0)))))
        for g in b["geoms"]:
            L.append(geom_line("geom", g))
        for st in b.get("sites", []):
            L.append("site %s %s" % (st["name"], vec(st["pos"])))
    for e in M.get("eqs", []):
        if e["kind"] == 0:
            L.append("eq 0 %d %d %s %s %s %s" % (e["j1"], e["j2"], r(e["c0"]), r(e["c1"]), vec(e["solref"]), vec(e["solimp"])))
        else:
            L.append("eq 1 %d %s %s %s" % (e["body"], vec(e["anchor"]), vec(e["solref"]), vec(e["solimp"])))
    for t in M.get("tendons", []):
        L.append("tendon %s %s %s %d %s" % (r(t["stiffness"]), r(t["damping"]), vec(t["springlength"]), len(t["wraps"]),
                                          " ".join("%d %d %s" % (kind, ref, r(coef)) for kind, ref, coef in t["wraps"])))
    for a in M["acts"]:
        L.append("act %d %d %s %s %s %d %s %d %s" % (a["joint"], a["kind"], r(a["gear"]), r(a["kp"]), r(a.get("kv", 0.0)), int(bool(a.get("ctrllimited"))),
                                                     vec(a.get("ctrlrange", (0.0, 0.0))), int(bool(a.get("forcelimited"))), vec(a.get("forcerange", (0.0, 0.0)))))
    for tname, ot, on, rt, rn in M.get("sensors", []):
        L.append("sensor %s %s %s %s %s" % (tname, ot, sname(on), rt, sname(rn)))
    L.append("END")
    for s in states:
        L.append("STATE %d %s %d %s %d %s" % (len(s["qpos"]), vec(s["qpos"]), len(s["qvel"]), vec(s["qvel"]), len(s["ctrl"]), vec(s["ctrl"])))
    L.append("DONE")
    return "\n".join(L) + "\n"


def reorder_depth_first(M):
    """renumber bodies (and joints, actuator targets) in depth-first order so that the order in which the C driver adds them is the
    order of the MJCF document and of both compiled models"""
    children = {}
    for i, b in enumerate(M["bodies"]):
        children.setdefault(b["parent"], []).append(i)
    order = []

    def visit(i):
        order.append(i)
        for c in children.get(i, []):
            visit(c)
    for i in children.get(-1, []):
        visit(i)
    newidx = {old: new for new, old in enumerate(order)}
    # joint renumbering
    jold = {}
    k = 0
    for i, b in enumerate(M["bodies"]):
        for j in b["joints"]:
            jold[(i, id(j))] = k
            k += 1
    jnew = {}
    k = 0
    for old in order:
        for j in M["bodies"][old]["joints"]:
            jnew[jold[(old, id(j))]] = k
            k += 1
    bodies = []
    for old in order:
        b = dict(M["bodies"][old])
        b["parent"] = -1 if b["parent"] < 0 else newidx[b["parent"]]
        bodies.append(b)
    M["bodies"] = bodies
    for a in M["acts"]:
        a["joint"] = jnew[a["joint"]]
    for t in M.get("tendons", []):
        t["wraps"] = [(kind, jnew[ref] if kind == 0 else ref, coef) for kind, ref, coef in t["wraps"]]
    def ren(ref):
        if ref is None or ref[0] in ("s", "a"):
            return ref
        return ("b", newidx[ref[1]]) if ref[0] == "b" else ("j", jnew[ref[1]])
    M["sensors"] = [(t, ot, ren(on), rt, ren(rn)) for t, ot, on, rt, rn in M.get("sensors", [])]
    for e in M.get("eqs", []):
        if e["kind"] == 0:
            e["j1"] = jnew[e["j1"]]
            e["j2"] = jnew[e["j2"]] if e["j2"] >= 0 else -1
        else:
            e["body"] = newidx[e["body"]]
    if M.get("presets"):
        M["presets"] = {jnew[j]: v for j, v in M["presets"].items()}
    return M
