"""C46 — Bounded least squares respects bounds and never gets worse."""
import itertools, json, math, os, subprocess
from fractions import Fraction
import framework as F

META = {
    "id": "C46", "category": "proof", "design_ref": "DESIGN.md section 4, C46 and section 7 item 4",
    "technique": ("Coq proof over R (invariant of the outer loop, induction over the Armijo search) about a Gallina model of least_squares/jacobian_fd written over the numeric class Num with the "
                  "residual and the box-QP solver as universally quantified parameters + refutation of the same statement at binary64 by vm_compute + oracle-trace replay: the real "
                  "minimize.py (imported by path) runs with an instrumented residual and a wrapped mju_boxQP, the recorded solver answers drive the model at binary64 inside Coq, which "
                  "must reproduce status, candidates, evaluation points, objectives and mu values"),
    "text": ("The model has a switch clipcand (true: the candidate x + D*dx is clipped to the bounds before the residual is evaluated - the source since the repair of the rounding defect; "
             "false: candidate used as is - the former source); the check reads the statements between `xnew = x + D * dx` and `rnew = residual(xnew)` from the source (fail-closed) and "
             "requires the clipped form. "
             "Proved in Coq over the real numbers (Props/C46.v), for both values of the switch, for EVERY residual function, every box-QP solver that honours its contract (answer within [dlower, dupper] and not an ascent "
             "direction, g.dx <= 0), every valid box with hi - lo >= 2 eps max(1,|lo|,|hi|), every positive scaling (x_scale array or 'jac'), every start point, all parameter values and every "
             "max_iter: every point at which the residual is evaluated (clipped start, finite-difference points, all candidates) and the returned point lie inside the box (C46_in_bounds); the trace "
             "is non-empty with non-increasing objectives, starts at the objective of the clipped start and ends with the returned point, whose objective is no larger (C46_monotone); the Armijo "
             "search ends within K+2 solver calls when mu_min mu_factor^K >= mu_max and the outer loop appends at most max_iter+1 logs (C46_terminates). "
             "For the explicitly UNCLIPPED variant the same in-bounds statement read at binary64 is refuted by computation (C46_float_unclipped_refuted, C46_float_unclipped_witness_values): box [-1.3, 0.9], "
             "x0 = 0.4, r(x) = x + 5 gives the candidate x + D*dx = -1.3000000000000003 < lo although dx >= dlower; in the clipped model the same problem stays inside at binary64 "
             "(C46_float_clipped_witness_in_bounds). That problem is run on the real minimize.py on every run, and every residual evaluation point and returned point of every run must lie "
             "inside the box EXACTLY (no tolerance); an unclipped source is reported as an implementation violation (signature site=least_squares class=candidate_outside_bounds_by_rounding). "
             "IEEE rounding is otherwise outside the theorems over R. "
             "Tied by oracle-trace replay (not proved): on the generated problems of the run (linear, quadratic and Rosenbrock-like residuals, n <= 4, x_scale None / array / 'jac', starts inside "
             "and outside the box) the model at binary64, fed with the recorded mju_boxQP answers, reproduces the status, every evaluation point, the trace (candidate, objective, reduction, mu) and "
             "the number of solver calls, and passes to the solver the same H, g, dlower, dupper (2^-30 scaled); runs in which a discrete decision (sign of the Armijo quantity or of the expected reduction, "
             "ratio thresholds) is taken within 1e-12 (1 + |y|) of its threshold are decided by rounding noise (numpy's dot products are not bit-reproducible): such a run is replayed only up to the iteration "
             "before that decision (counted in the evidence); all outputs still go through the oracles. The solver contract assumed by the theorems is checked on every recorded answer. "
             "NOT proved: the clause 'for linear residuals it reaches the bounded global minimum' (only observed: compared with an exact active-set enumeration on the linear problems of the run "
             "when the solver stops with G_TOL/DX_TOL); that g.dx <= 0 follows from q(dx) <= q(0) and H + mu I >= 0 (taken as part of the solver contract); bounds=None, user Jacobians and user "
             "norms are not modelled."),
    "note": ("Trusted: Coq kernel + std-lib real-number axioms; primitive floats of Coq (PrimFloat) for the refutation and the replay; hand-written model Model/LeastSquares.v; the installed mujoco "
             "wheel 3.13.0 supplies mju_boxQP as an EXTERNAL solver (it is not the code under test; its answers are recorded and its contract checked at run time); CPython/numpy of /venv; "
             "the replay harness (driver c46_ls.py)."),
    "assumptions": ["IEEE rounding is outside the theorems over R (and is exactly what C46_float_unclipped_refuted is about)",
                    "mju_boxQP is an external solver: theorems assume its contract (bounds respected, g.dx <= 0), checked on the recorded answers of the run",
                    "tie is a replay on the problems of this run with tolerance 2^-30 (scaled)"],
}

PY = "/venv/bin/python"
DRV = os.path.join(os.path.dirname(os.path.dirname(os.path.abspath(__file__))), "drivers")
STATUS = {"MAX_ITER": 0, "G_TOL": 1, "DX_TOL": 2, "NO_IMPROVEMENT": 3, "FACTORIZATION_FAILED": 4}
SIG_ROUND = {"site": "least_squares", "class": "candidate_outside_bounds_by_rounding"}
MARGIN = 1e-12    # runs with a decision (Armijo sign, expected-reduction sign, ratio thresholds) closer than this to its threshold are not replayed

WITNESS = {"A": [[1.0]], "B": [[0.0]], "b": [-5.0], "lo": [-1.3], "hi": [0.9], "x0": [0.4], "family": "witness"}


def read_candidate_construction(repo):
    """fail-closed reader of the statements of least_squares between `xnew = x + D * dx` and
    `rnew = residual(xnew)`: returns False (candidate used as is: the pinned source) or True (candidate
    clipped to the bounds first); anything else is not understood."""
    import re
    path = os.path.join(repo, "python", "mujoco", "minimize.py")
    lines = open(path).read().split("\n")
    starts = [i for i, l in enumerate(lines) if re.match(r"\s*xnew\s*=\s*(x \+ D \* dx|D \* dx \+ x)\s*$", l)]
    if len(starts) != 1:
        raise F.TranslatorError("cannot read %s: expected exactly one `xnew = x + D * dx`, found %d" % (path, len(starts)))
    i = starts[0]
    body = []
    for j in range(i + 1, min(i + 15, len(lines))):
        l = lines[j].split("#")[0].strip()
        if re.match(r"rnew\s*=\s*residual\(xnew\)$", l):
            break
        if l and l != "t_start = time.time()":
            body.append(l)
    else:
        raise F.TranslatorError("cannot read %s:%d: `rnew = residual(xnew)` does not follow the candidate" % (path, i + 1))
    if body == []:
        return False
    clip_forms = ("np.clip(xnew, bounds[0], bounds[1], out=xnew)", "xnew = np.clip(xnew, bounds[0], bounds[1])")
    if body in ([c] for c in clip_forms) or body in (["if bounds is not None:", c] for c in clip_forms):
        return True
    raise F.TranslatorError("cannot read %s:%d: statements between the candidate and its evaluation not understood: %r" % (path, i + 2, body))


def residual_py(pb, x):
    out = []
    for j in range(len(pb["b"])):
        s = 0.0
        for i in range(len(x)):
            s = s + pb["A"][j][i] * x[i]
        for i in range(len(x)):
            s = s + pb["B"][j][i] * (x[i] * x[i])
        out.append(s - pb["b"][j])
    return out


def objective_py(pb, x):
    r = residual_py(pb, x)
    return 0.5 * math.fsum(v * v for v in r)


def gen_problems(ctx):
    rng = ctx.rng
    quick = ctx.tier == "quick"
    pbs = [dict(WITNESS, max_iter=1), dict(WITNESS)]

    def box(n):
        lo = [rng.choice([rng.uniform(-2, 0), round(rng.uniform(-2, 0), 1)]) for _ in range(n)]
        hi = [l + rng.choice([rng.uniform(0.1, 3), round(rng.uniform(0.3, 3), 1)]) for l in lo]
        return lo, hi

    def scale(pb, n):
        c = rng.random()
        if c < 0.3:
            pb["x_scale"] = [rng.choice([0.1, 0.3, 0.7, 3.0, 10.0, rng.uniform(0.05, 20)]) for _ in range(n)]
        elif c < 0.45:
            pb["x_scale"] = "jac"
        return pb

    nlin, nquad, nros = (70, 30, 20) if quick else (700, 300, 200)
    for _ in range(nlin):
        n = rng.randint(1, 4); m = rng.randint(n, n + 2)
        A = [[rng.uniform(-2, 2) for _ in range(n)] for _ in range(m)]
        lo, hi = box(n)
        pbs.append(scale({"A": A, "B": [[0.0] * n for _ in range(m)], "b": [rng.uniform(-4, 4) for _ in range(m)],
                          "lo": lo, "hi": hi, "x0": [rng.uniform(-3, 3) for _ in range(n)], "family": "linear"}, n))
    # 1-D problems with short decimal bounds whose minimiser is outside the box (the rounding class)
    for _ in range(40 if quick else 400):
        lo = [round(rng.uniform(-2, 0), 1)]; hi = [round(lo[0] + rng.uniform(0.3, 3), 1)]
        pbs.append(scale({"A": [[1.0]], "B": [[0.0]], "b": [rng.choice([-5.0, 5.0])], "lo": lo, "hi": hi,
                          "x0": [round(rng.uniform(lo[0], hi[0]), 1)], "family": "linear"}, 1))
    for _ in range(nquad):
        n = rng.randint(1, 3); m = rng.randint(n, n + 2)
        A = [[rng.uniform(-2, 2) for _ in range(n)] for _ in range(m)]
        B = [[rng.choice([0.0, rng.uniform(-1, 1)]) for _ in range(n)] for _ in range(m)]
        lo, hi = box(n)
        pbs.append(scale({"A": A, "B": B, "b": [rng.uniform(-4, 4) for _ in range(m)], "lo": lo, "hi": hi,
                          "x0": [rng.uniform(-3, 3) for _ in range(n)], "family": "quadratic"}, n))
    for _ in range(nros):
        n = rng.randint(2, 4)
        A, B, b = [], [], []
        for i in range(n - 1):
            ra = [0.0] * n; rb = [0.0] * n; ra[i + 1] = 10.0; rb[i] = -10.0
            A.append(ra); B.append(rb); b.append(0.0)
            ra = [0.0] * n; ra[i] = -1.0
            A.append(ra); B.append([0.0] * n); b.append(-1.0)
        lo = [rng.uniform(-2, 0.5) for _ in range(n)]; hi = [l + rng.uniform(0.5, 3) for l in lo]
        pbs.append(scale({"A": A, "B": B, "b": b, "lo": lo, "hi": hi, "x0": [rng.uniform(-2, 2) for _ in range(n)],
                          "family": "rosenbrock", "max_iter": 60}, n))
    # residuals without a root near a flat spot: the undamped Gauss-Newton step overshoots and increases the objective;
    # with little damping allowed the search gives up (NO_IMPROVEMENT) after a real increase
    for _ in range(12 if quick else 120):
        n = rng.randint(1, 2)
        A = [[0.0] * n for _ in range(n)]; B = [[(1.0 if i == j else 0.0) for i in range(n)] for j in range(n)]
        pbs.append({"A": A, "B": B, "b": [-rng.uniform(0.05, 1.0) for _ in range(n)], "lo": [-rng.uniform(5, 10) for _ in range(n)],
                    "hi": [rng.uniform(5, 10) for _ in range(n)], "x0": [rng.choice([-1, 1]) * rng.uniform(0.005, 0.05) for _ in range(n)],
                    "family": "overshoot", "mu_max": rng.choice([0.0, 1e-6, 1e-4])})
    # parameter variations: little damping allowed (the search gives up after real increases), other factors / tolerances
    extra = []
    for pb in pbs[2:]:
        c = rng.random()
        if pb["family"] == "overshoot":
            continue
        if pb["family"] in ("rosenbrock", "quadratic") and c < 0.5:
            q = dict(pb); q["mu_max"] = rng.choice([0.0, 1e-6, 1e-3, 1.0]); q["x0"] = [rng.uniform(-3, 3) for _ in pb["x0"]]
            extra.append(q)
        elif c < 0.15:
            q = dict(pb); q["mu_factor"] = rng.choice([2.0, 10.0, 1.1]); q["mu_min"] = rng.choice([1e-6, 1e-3]); q["mu_max"] = rng.choice([1e8, 1e2])
            q["xtol"] = rng.choice([1e-8, 1e-5]); q["gtol"] = rng.choice([1e-8, 1e-4]); q["eps"] = rng.choice([2.0 ** -26, 1e-6])
            extra.append(q)
    return pbs + extra


def bounded_lsq_min(pb):
    """exact (rational) global minimum of 0.5|Ax-b|^2 over the box by enumeration of active sets (n <= 4)."""
    n = len(pb["x0"]); m = len(pb["b"])
    A = [[Fraction(v) for v in row] for row in pb["A"]]; b = [Fraction(v) for v in pb["b"]]
    lo = [Fraction(v) for v in pb["lo"]]; hi = [Fraction(v) for v in pb["hi"]]
    best = None
    for pat in itertools.product((0, 1, 2), repeat=n):     # 0 free, 1 at lo, 2 at hi
        free = [i for i in range(n) if pat[i] == 0]
        x = [None if pat[i] == 0 else (lo[i] if pat[i] == 1 else hi[i]) for i in range(n)]
        rhs = [b[j] - sum(A[j][i] * x[i] for i in range(n) if pat[i] != 0) for j in range(m)]
        if free:
            k = len(free)
            M = [[sum(A[j][free[p]] * A[j][free[q]] for j in range(m)) for q in range(k)] +
                 [sum(A[j][free[p]] * rhs[j] for j in range(m))] for p in range(k)]
            ok = True
            for c in range(k):
                piv = next((r for r in range(c, k) if M[r][c] != 0), None)
                if piv is None:
                    ok = False; break
                M[c], M[piv] = M[piv], M[c]
                M[c] = [v / M[c][c] for v in M[c]]
                for r in range(k):
                    if r != c and M[r][c] != 0:
                        f = M[r][c]; M[r] = [a - f * bb for a, bb in zip(M[r], M[c])]
            if not ok:
                continue
            for p in range(k):
                x[free[p]] = M[p][k]
            if any(not (lo[i] <= x[i] <= hi[i]) for i in free):
                continue
        val = sum((sum(A[j][i] * x[i] for i in range(n)) - b[j]) ** 2 for j in range(m)) / 2
        if best is None or val < best:
            best = val
    return float(best) if best is not None else None


def excess(pt, pb):
    return max(max(l - p, p - h) for p, l, h in zip(pt, pb["lo"], pb["hi"]))


def is_rounding(pt, pb):
    """outside by no more than 4 ulp of the largest magnitude inside that coordinate's interval (the error of
    x + D*((lo - x)/D) is a few ulp of |x| and |lo - x|, which are bounded by the box)"""
    for p, l, h in zip(pt, pb["lo"], pb["hi"]):
        u = 4 * math.ulp(max(abs(l), abs(h)))
        if (p < l and l - p > u) or (p > h and p - h > u):
            return False
    return True


def first_noise_iteration(rec):
    for k, m in enumerate(rec.get("margins", [])):
        if m < MARGIN:
            return k
    return None


def coq_case(pb, rec, k=None, clipcand=False):
    """k = None: the whole run; k >= 1: only the first k outer iterations (the model runs with max_iter = k)"""
    n = len(pb["x0"])
    xs = pb.get("x_scale")
    adaptive = xs == "jac"
    D = xs if isinstance(xs, list) else [1.0] * n
    d = rec["defaults"]
    prm = [pb.get(k, d[k]) for k in ("eps", "mu_min", "mu_max", "mu_factor", "xtol", "gtol")]
    box = "[" + "; ".join("mkBnd (%s)%%float (%s)%%float" % (F.fhex(l), F.fhex(h)) for l, h in zip(pb["lo"], pb["hi"])) + "]"
    mat = lambda M: "[" + "; ".join(F.flist(r) for r in M) + "]"
    recs = "[" + "; ".join("(%s, %s, %s, %s, %s)" % (F.flist([v for row in q["H"] for v in row]), F.flist(q["g"]), F.flist(q["lower"]), F.flist(q["upper"]),
                                                       ("Some %s" % F.flist(q["dx"])) if q["nfree"] >= 0 else "None") for q in rec["qp"]) + "]"
    tr, ev, st, xfin, nq, mi = rec["trace"], rec["evals"], STATUS[rec["status"]], rec["x"], len(rec["qp"]), pb.get("max_iter", 100)
    if k is not None:
        tr, ev, st, xfin, nq, mi = tr[:k + 1], ev[:rec["marks"][k - 1][0]], 0, tr[k]["x"], rec["marks"][k - 1][1], k
    trace = "[" + "; ".join("(%s, %s)" % (F.flist(t["x"]), F.flist([t["y"], t["red"], t["mu"]])) for t in tr) + "]"
    evals = "[" + "; ".join(F.flist(e) for e in ev) + "]"
    return ("((%s, %s, (%s, %s), %s, %d%%nat, %s), (%s, %s, %s), %s, (%s, %d%%nat, %d%%Z, %s, %s, %s))" %
            (box, F.flist(D), "true" if adaptive else "false", "true" if clipcand else "false", F.flist(prm), mi, F.flist(pb["x0"]),
             mat(pb["A"]), mat(pb["B"]), F.flist(pb["b"]), recs, "false" if k is None else "true", nq, st, F.flist(xfin), trace, evals))


PRE = r"""
Definition tol := 0x1p-30%float.
Definition prm (l : list float) (i : nat) : float := nth i l nan.
Definition qp_rec (recs : list (list float * list float * list float * list float * option (list float)))
  (k : nat) (h : list (list float)) (g dl du : list float) : option (list float) :=
  match nth_error recs k with
  | Some (h', g', dl', du', ans) =>
      if andb (andb (fclose_list tol (concat h) h') (fclose_list tol g g')) (andb (fclose_list tol dl dl') (fclose_list tol du du'))
      then ans else Some []      (* arguments differ from the recorded call: poison *)
  | None => None
  end.
(* pre = true: the run was cut after k iterations; the last log of the model is then compared on x and y only *)
Fixpoint trace_ok (pre : bool) (tr : list (LogEntry (T:=float))) (ex : list (list float * list float)) : bool :=
  match tr, ex with
  | [], [] => true
  | e :: tr', (x, yrm) :: ex' =>
      andb (andb (fclose_list tol (lg_x e) x)
                 (if andb pre (match tr' with [] => true | _ => false end) then fclose tol (lg_y e) (nth 0 yrm nan)
                  else fclose_list tol [lg_y e; lg_red e; lg_mu e] yrm))
           (trace_ok pre tr' ex')
  | _, _ => false
  end.
Fixpoint evals_ok (a b : list (list float)) : bool :=
  match a, b with
  | [], [] => true
  | x :: a', y :: b' => andb (fclose_list tol x y) (evals_ok a' b')
  | _, _ => false
  end.
Definition run_case (c : (list (Bnd (T:=float)) * list float * (bool * bool) * list float * nat * list float) *
                         (list (list float) * list (list float) * list float) *
                         list (list float * list float * list float * list float * option (list float)) *
                         (bool * nat * Z * list float * list (list float * list float) * list (list float))) : bool :=
  match c with
  | ((box, D, (adaptive, clipcand), p, max_iter, x0), (A, B, b), recs, (pre, nq, st, x, trace, evals)) =>
      let rs := least_squares (resfam A B b) (qp_rec recs) box D adaptive clipcand (prm p 0) (prm p 1) (prm p 2) (prm p 3) (prm p 4) (prm p 5)
                              400 max_iter x0 in
      andb (andb (Z.eqb (rs_status rs) st) (fclose_list tol (rs_x rs) x))
           (andb (andb (trace_ok pre (rs_trace rs) trace) (evals_ok (rs_evals rs) evals)) (Nat.eqb (rs_kq rs) nq))
  end.
"""


def run(ctx):
    ctx.coq_props(allowed_axioms=set(F.STD_AXIOMS) | {"float", "PrimFloat.float", "PrimInt63.int"},
                  extra_targets=["Lib/NumF.vo", "Model/LeastSquares.vo"])
    try:
        clipcand = read_candidate_construction(ctx.repo)
    except F.TranslatorError as e:
        ctx.broken.append(("translator", str(e), ""))
        clipcand = False
    ctx.cov["support"]["candidate_clipped_before_evaluation"] = clipcand
    unclipped_source = (clipcand is False) and not any(k == "translator" for k, _, _ in ctx.broken)
    pbs = gen_problems(ctx)
    if ctx.replay and isinstance(ctx.replay.get("case"), dict) and ctx.replay["case"].get("problem"):
        pbs = [ctx.replay["case"]["problem"]] + pbs[:2]
    send = [{k: v for k, v in pb.items() if k != "family"} for pb in pbs]
    r = subprocess.run([PY, os.path.join(DRV, "c46_ls.py"), ctx.repo], input=json.dumps({"problems": send}),
                       capture_output=True, text=True, timeout=1500)
    if r.returncode != 0:
        ctx.broken.append(("correspondence", "python driver c46_ls.py failed", (r.stderr or r.stdout)[-1500:]))
        return
    out = json.loads(r.stdout)
    if not os.path.realpath(out["file"]).startswith(os.path.realpath(ctx.repo)):
        ctx.broken.append(("correspondence", "minimize.py was not loaded from the tree under test", out["file"]))
        return
    res = out["results"]
    counts = {"evals": 0, "evals_outside_rounding": 0, "evals_outside_other": 0, "returned_outside": 0, "qp_calls": 0,
              "qp_contract_violations": 0, "linear_checked": 0, "status": {}}
    emitted = {}

    def viol(cls, pb, expected, observed, theorem, sig=None):
        emitted[cls] = emitted.get(cls, 0) + 1
        if emitted[cls] <= 2:
            ctx.violation("impl_violation", {"problem": pb, "what": cls}, expected=expected, observed=observed, theorem=theorem,
                          signature=sig or {"site": "least_squares", "class": cls})

    witness_reproduced = False
    order = sorted(range(len(pbs)), key=lambda i: (len(pbs[i]["x0"]), len(res[i].get("evals", []))))   # smallest first
    for i in order:
        pb, rec = pbs[i], res[i]
        if "error" in rec:
            viol("raised", pb, "a result", rec["error"], "C46_terminates")
            continue
        counts["status"][rec["status"]] = counts["status"].get(rec["status"], 0) + 1
        if not rec["inputs_unchanged"]:
            viol("inputs_modified", pb, "x0 and bounds unchanged", "modified", "C46_in_bounds")
        n = len(pb["x0"])
        clipped = [min(max(x, l), h) for x, l, h in zip(pb["x0"], pb["lo"], pb["hi"])]
        if not rec["evals"] or rec["evals"][0] != clipped:
            viol("first_evaluation_not_clipped_start", pb, clipped, rec["evals"][:1], "C46_in_bounds")
        # (a) every evaluation point inside the box
        worst = None
        for pt in rec["evals"]:
            counts["evals"] += 1
            if excess(pt, pb) > 0:
                if is_rounding(pt, pb):
                    counts["evals_outside_rounding"] += 1
                    if worst is None or worst[0] == "other":
                        worst = worst or ("rounding", pt)
                else:
                    counts["evals_outside_other"] += 1
                    if worst is None or worst[0] == "rounding":
                        worst = ("other", pt)
        ret_out = excess(rec["x"], pb) > 0
        if ret_out:
            counts["returned_outside"] += 1
        if worst is not None or ret_out:
            pt = worst[1] if worst else rec["x"]
            rounding = (worst is None or worst[0] == "rounding") and (not ret_out or is_rounding(rec["x"], pb))
            if pb.get("family") == "witness" and rounding:
                witness_reproduced = True
            if rounding:
                viol("candidate_outside_bounds_by_rounding", pb, "every residual evaluation and the returned point inside [lo, hi]",
                     {"evaluation_outside": pt if worst else None, "outside_by": excess(pt, pb), "returned_x": rec["x"], "returned_outside": ret_out,
                      "status": rec["status"], "n_evaluations": len(rec["evals"])}, "C46_float_unclipped_refuted", sig=SIG_ROUND)
            else:
                viol("evaluation_outside_bounds", pb, "every residual evaluation and the returned point inside [lo, hi]",
                     {"evaluation_outside": pt, "outside_by": excess(pt, pb), "returned_x": rec["x"], "status": rec["status"]}, "C46_in_bounds")
        # (c) monotone trace, (d) result no worse than the clipped start
        ys = [t["y"] for t in rec["trace"]]
        y0 = objective_py(pb, clipped)
        if not ys or any(b > a for a, b in zip(ys, ys[1:])):
            viol("trace_not_monotone", pb, "non-increasing objectives", ys, "C46_monotone")
        if ys and not (abs(ys[0] - y0) <= 1e-12 * (1 + abs(y0))):
            viol("trace_does_not_start_at_clipped_start", pb, y0, ys[0], "C46_monotone")
        yret = objective_py(pb, rec["x"])
        if ys and (rec["trace"][-1]["x"] != rec["x"] or abs(ys[-1] - yret) > 1e-12 * (1 + abs(yret)) or yret > y0 * (1 + 1e-12) + 1e-300):
            viol("result_worse_than_clipped_start", pb, {"objective_at_clipped_start": y0}, {"returned_x": rec["x"], "objective": yret, "last_log": rec["trace"][-1]}, "C46_monotone")
        if len(rec["trace"]) > pb.get("max_iter", 100) + 1:
            viol("more_than_max_iter_iterations", pb, pb.get("max_iter", 100) + 1, len(rec["trace"]), "C46_terminates")
        # solver contract on the recorded answers (hypothesis of the theorems; external solver)
        for q in rec["qp"]:
            counts["qp_calls"] += 1
            if q["nfree"] < 0:
                continue
            dx, g, H = q["dx"], q["g"], q["H"]
            inb = all(l <= d <= u for l, d, u in zip(q["lower"], dx, q["upper"]))
            gdx = math.fsum(a * b for a, b in zip(g, dx))
            qv = gdx + 0.5 * math.fsum(dx[a] * H[a][b2] * dx[b2] for a in range(n) for b2 in range(n))
            feasible0 = all(l <= 0 <= u for l, u in zip(q["lower"], q["upper"]))
            if not inb or (feasible0 and (gdx > 0 or qv > 1e-12 * (1 + abs(gdx)))):
                counts["qp_contract_violations"] += 1
        # linear residuals: bounded global minimum (observed only)
        if pb.get("family") == "linear" and n <= 4 and rec["status"] in ("G_TOL", "DX_TOL") and not ret_out and worst is None:
            opt = bounded_lsq_min(pb)
            counts["linear_checked"] += 1
            if opt is not None and yret > opt + 1e-6 * (1 + opt):
                viol("linear_not_global_minimum", pb, {"bounded_global_minimum": opt}, {"returned_x": rec["x"], "objective": yret, "status": rec["status"]},
                     "not proved (observed clause)")

    # ---------------------------------------------------------------- replay of the model at binary64
    cases, cidx = [], []
    nskipped = nprefix = niter = 0
    for i, (pb, rec) in enumerate(zip(pbs, res)):
        if "error" in rec or rec.get("status") is None:
            if "error" not in rec:
                ctx.broken.append(("correspondence", "could not parse the termination status", rec.get("message", "")[-300:]))
            continue
        k = first_noise_iteration(rec)
        if k == 0:
            nskipped += 1        # the very first decision of this run was taken within rounding noise: not replayable
            continue
        if k is not None:
            nprefix += 1         # replay the iterations before the first decision taken within rounding noise
            niter += k
        else:
            niter += len(rec["trace"]) - 1
        cases.append(coq_case(pb, rec, k, clipcand)); cidx.append(i)
    fails = ctx.coq_eval("c46", "From Coq Require Import ZArith PrimFloat Bool.\nFrom MJV Require Import Lib.Num Lib.NumF Model.LeastSquares.",
                         cases, "run_case", pre=PRE, shard=40, timeout=900)
    for k in fails[:5]:
        i = cidx[k]
        ctx.violation("correspondence", {"problem": pbs[i]}, expected="model replay (Model/LeastSquares.v at binary64 driven by the recorded mju_boxQP answers, tol 2^-30 scaled)",
                      observed={"status": res[i]["status"], "x": res[i]["x"], "trace": res[i]["trace"][:6], "n_evals": len(res[i]["evals"]), "n_qp": len(res[i]["qp"])},
                      found_input=False, theorem="replay c46",
                      note="implementation and Coq model disagree on this run (status / evaluation points / trace / mu / solver arguments), but the implementation output satisfies the oracles")
    if not witness_reproduced:
        ctx.cov["support"]["witness"] = "the binary64 witness of C46_float_unclipped_refuted does not reproduce on this tree (no evaluation outside the box)"
    else:
        ctx.cov["support"]["witness"] = "the binary64 witness of C46_float_unclipped_refuted REPRODUCES on minimize.py of this tree"
    if unclipped_source and not witness_reproduced and not ctx.replay:
        ctx.broken.append(("proof", "C46_float_unclipped_refuted applies to this source",
                           "the source evaluates the candidate x + D*dx without clipping it to the bounds: the in-bounds theorem does not hold at binary64 for this variant"))
    if counts["qp_contract_violations"]:
        ctx.broken.append(("correspondence", "external solver mju_boxQP broke the contract assumed by the theorems",
                           "%d of %d recorded answers" % (counts["qp_contract_violations"], counts["qp_calls"])))
    ctx.cov["evaluations"] = len(pbs)
    ctx.cov["distinct_nontrivial"] = sum(1 for pb, rec in zip(pbs, res) if "error" not in rec and len(rec["trace"]) >= 3 and
                                         any(x == l or x == h for x, l, h in zip(rec["x"], pb["lo"], pb["hi"])))
    ctx.cov["rule"] = ("the binary64 witness (max_iter 1 and 100); random linear (n<=4), 1-D linear with short decimal bounds and minimiser outside the box, quadratic (n<=3), Rosenbrock-like (n<=4) and overshooting (x^2 + c, n<=2, little damping allowed) "
                       "residuals; variations of mu_min/mu_max/mu_factor/xtol/gtol/eps; x_scale None / array / 'jac'; starts inside and outside the box; non-trivial = run with >= 2 accepted steps that ends on at least one active bound")
    ctx.cov["samples"] = [pbs[0], pbs[5], pbs[-1]]
    ctx.cov["correspondence_disagreements"] = len(fails)
    ctx.cov["support"]["runs_replayed_in_coq"] = len(cases)
    ctx.cov["support"]["runs_replayed_up_to_first_decision_within_rounding_noise"] = nprefix
    ctx.cov["support"]["runs_not_replayed_first_decision_within_rounding_noise"] = nskipped
    ctx.cov["support"]["outer_iterations_replayed"] = niter
    ctx.cov["support"].update({"residual_evaluations": counts["evals"], "evaluations_outside_by_rounding": counts["evals_outside_rounding"],
                               "evaluations_outside_otherwise": counts["evals_outside_other"], "returned_points_outside": counts["returned_outside"],
                               "qp_calls_recorded": counts["qp_calls"], "qp_contract_violations": counts["qp_contract_violations"],
                               "linear_problems_compared_with_exact_minimum": counts["linear_checked"], "status_histogram": counts["status"],
                               "implementation_file": out["file"], "oracle_violations": emitted})
    ctx.cov["explanation"] = ("3 theorems over R for every residual/solver/box + refutation at binary64; model tied to minimize.py by replay of %d runs (%d residual evaluations, %d solver calls)"
                              % (len(cases), counts["evals"], counts["qp_calls"]))
