"""C50 — visualization scene construction is bounded and faithful."""
import struct
import framework as F

META = {
    "id": "C50", "category": "proof", "design_ref": "DESIGN.md section 4, C50",
    "technique": "Coq proof (induction over attempt sequences) about a counter-machine model of acquireGeom/releaseGeom and a filter model of addGeomGeoms, "
                 "exact correspondence and oracle on mjv_makeScene/mjv_updateScene of the working tree for every scene capacity",
    "text": "PROVED of the model (coq/Props/C50.v), for every element type, every sequence of acquire attempts (released or left unreleased), every capacity >= 0 and every previous status: "
            "ngeom never exceeds maxgeom, every slot written by an accepted acquire lies inside the buffer, released geoms occupy slots 0..ngeom-1 in order, their payloads are the released "
            "attempts in order truncated to the capacity, the status is raised (0 -> 1, nonzero kept, never cleared) exactly when an attempt comes after the buffer is full "
            "(with every accepted geom released: iff more attempts than capacity), and returning at the first refusal equals attempting everything (C50_machine, C50_status_iff_overflow, C50_status_sticky). "
            "For the model-geom pass (C50_geom_pass): the scene holds exactly the model geoms whose category passes the effective catmask (mjCAT_STATIC removed unless mjVIS_STATIC), whose clamped "
            "group is enabled and whose alpha is nonzero, as (objid, category), in increasing id order, truncated to capacity. "
            "TIED to /repo: for generated models (random groups, also out-of-range groups and alpha-0 geoms), random geomgroup/catmask/static flag and EVERY capacity from 0 to needed+2, "
            "ngeom, status and the (objtype, objid, category, segid) sequence produced by mjv_makeScene+mjv_updateScene equal the model's. "
            "ORACLE on the implementation (all option sets, incl. default options and every visualization flag on): ngeom <= maxgeom and two guard slots after the buffer untouched, "
            "overflow reported through status whenever something was dropped and no status when everything attempted fits, status sticky, the scene at capacity c is bit for bit the first c geoms of the "
            "unbounded scene, a second mjv_updateScene gives the identical scene, and with only geoms drawn every scene geom's type/size/pos/mat equal the float casts of the model geom's "
            "geom_size (per-type layout of mjv_initGeom) / geom_xpos / geom_xmat. "
            "The pose oracle runs in every option mode on every model geom of the unbounded scene, planes included; the scenes add planes (finite and infinite), boxes, spheres, capsules and cylinders "
            "on offset+rotated jointless child bodies of the world (also nested) and on a mocap body moved and rotated before mj_forward; an infinite plane must stay in its plane and may only move along its infinite axes. "
            "PARTIAL/NOT PROVED: content of scene geoms other than identity and pose (colours, materials, labels), decor passes, lights, camera, flex and skin are only covered by the "
            "prefix/determinism oracle; the exact re-centring step of infinite planes is not checked. "
            "OBSERVATION (model and implementation agree, not counted as a violation): acquireGeom is called before the alpha test, so an alpha-0 geom met when the buffer is exactly full "
            "raises status/warning although no drawable geom was dropped (Example C50_example_alpha0).",
    "note": "Trusted: Coq kernel; hand-written model Model/Scene.v; correspondence harness (gcc, driver c50_scene.c, mjgen.h models). All theorems closed under the global context.",
    "assumptions": ["the model covers the geom buffer discipline and addGeomGeoms only; tie is differential testing on the cases of this run"],
}

IMPORTS = "From Coq Require Import ZArith.\nFrom MJV Require Import Model.Scene.\nOpen Scope Z_scope."
MJOBJ_GEOM = 5


def f32(x):
    return struct.unpack("f", struct.pack("f", x))[0]


def zl(xs):
    xs = list(xs)
    return F.zlist(xs) if xs else "(@nil Z)"


def run(ctx):
    rng = ctx.rng
    quick = ctx.tier == "quick"
    ctx.coq_props(allowed_axioms=(), extra_targets=["Model/Scene.vo"])
    exe = ctx.driver("c50_scene", ["c50_scene.c"])
    if exe is None:
        return
    FEATS = [1 | 8 | 1 << 15, 1 | 2 | 4 | 8 | 1 << 15 | 1 << 16, 0x7FFFF, 0x7FFFF & ~(1 << 9), 8, 1 << 15 | 1 << 16 | 1 << 5 | 1 << 6 | 4]
    cmds = []
    n = 210 if quick else 2100
    for rep in range(n):
        mode = [0, 0, 3, 0, 3, 1, 2][rep % 7]
        cmds.append("V %d %d %d %d %d" % (rng.randrange(1, 10 ** 6), rng.choice(FEATS), rng.randrange(1, 9 if mode == 2 else 14), mode, rng.randrange(10 ** 6)))
    rc, out, err = ctx.run(exe, "\n".join(cmds) + "\n", timeout=900)
    if rc != 0:
        ctx.broken.append(("correspondence", "driver c50_scene failed", "rc=%s %s" % (rc, err[-800:])))
        return
    lines = out.split("\n")
    pos = 0
    coq_cases, coq_src = [], []
    seen = set()
    stats = {"scenarios": 0, "capacities": 0, "overflowing": 0, "exact_fit": 0, "pose_checked": 0, "planes_checked": 0, "planes_off_world_frame": 0, "infinite_planes": 0, "alpha0_spurious_status": 0, "max_needed": 0}
    reported = set()

    def viol(what, case, exp, obs, site):
        if site in reported:
            return
        reported.add(site)
        ctx.violation("impl_violation", dict(case, what=what), expected=exp, observed=obs, signature={"site": site}, theorem="C50_machine / C50_geom_pass")

    for cmd in cmds:
        mode = int(cmd.split()[4])
        if pos >= len(lines) or not lines[pos]:
            ctx.broken.append(("correspondence", "driver output truncated", cmd)); return
        if lines[pos].startswith("X"):
            # model could not be built / stepped: skip scenario
            while not lines[pos].startswith("Z"):
                pos += 1
            pos += 1
            continue
        hd = lines[pos].split("|"); pos += 1
        h = hd[0].split()
        ng_model, needed, vis_static, catmask = int(h[1]), int(h[2]), int(h[3]), int(h[4])
        geomgroup = list(map(int, hd[1].split()))
        geoms = [tuple(map(int, g.split(":"))) for g in hd[2].split()]   # cat, group, alpha, type
        fullstatus = int(hd[3].split()[1])
        stats["scenarios"] += 1
        stats["max_needed"] = max(stats["max_needed"], needed)
        M, Fl = {}, []
        while lines[pos].startswith("M "):
            t = lines[pos].split(); pos += 1
            M[int(t[1])] = (int(t[2]), [float.fromhex(x) for x in t[3:]])
        while lines[pos].startswith("F "):
            t = lines[pos].split(); pos += 1
            Fl.append((int(t[1]), int(t[2]), int(t[3]), [float.fromhex(x) for x in t[4:]]))
        # ---- independent expectation for the geom-only modes
        cm = catmask if vis_static else (catmask & ~1)
        attempts = [i for i, (cat, grp, alpha, typ) in enumerate(geoms) if (cat & cm) and geomgroup[max(0, min(5, grp))]]
        shown = [i for i in attempts if geoms[i][2]]
        if fullstatus != 0:
            viol("status raised with a 20000-slot buffer", {"scenario": cmd}, 0, fullstatus, "status_spurious")
        if mode in (0, 3):
            if needed != len(shown):
                viol("number of geoms in the unbounded scene", {"scenario": cmd}, len(shown), needed, "content")
            if [f[1] for f in Fl] != shown[:needed]:
                viol("model geoms of the unbounded scene", {"scenario": cmd}, shown, [f[1] for f in Fl], "content")
        # ---- type / size / pos / mat of every model geom of the unbounded scene (all modes), planes included:
        # the float casts of geom_size (per-type layout of mjv_initGeom), geom_xpos, geom_xmat; an infinite
        # plane (size <= 0 along x or y) is re-centred under the camera along its infinite axes only
        for (k, i, styp, vals) in Fl:
            if i not in M:
                viol("scene geom with objid outside the model", {"scenario": cmd}, "0..ngeom-1", i, "content"); continue
            typ, mv = M[i]
            size, xpos, xmat = mv[0:3], mv[3:6], mv[6:15]
            if typ == 2:      # sphere
                es = [size[0]] * 3
            elif typ in (3, 5):  # capsule, cylinder
                es = [size[0], size[0], size[1]]
            else:
                es = size
            stats["pose_checked"] += 1
            case = {"scenario": cmd, "scene_geom": k, "model_geom": i, "geom_type": typ}
            if styp != typ:
                viol("type of scene geom", case, typ, styp, "pose")
            if vals[0:3] != [f32(x) for x in es] or vals[6:15] != [f32(x) for x in xmat]:
                viol("size/mat of scene geom", case, [f32(x) for x in es + xmat], vals[0:3] + vals[6:15], "pose")
            infinite = typ == 0 and (size[0] <= 0 or size[1] <= 0)
            if typ == 0:
                stats["planes_checked"] += 1
                if any(abs(xmat[j] - (1.0 if j in (0, 4, 8) else 0.0)) > 1e-9 for j in range(9)):
                    stats["planes_off_world_frame"] += 1
            if not infinite:
                if vals[3:6] != [f32(x) for x in xpos]:
                    viol("pos of scene geom differs from geom_xpos", case, [f32(x) for x in xpos], vals[3:6], "pose")
            else:
                stats["infinite_planes"] += 1
                dlt = [vals[3 + j] - xpos[j] for j in range(3)]
                scale = 1e-5 * (1 + max(abs(x) for x in vals[3:6]) + max(abs(x) for x in xpos))
                for ax in range(3):
                    comp = sum(dlt[j] * xmat[3 * j + ax] for j in range(3))   # along column ax of geom_xmat
                    if (ax == 2 or size[ax] > 0) and abs(comp) > scale:
                        viol("infinite plane moved off its plane / along a finite axis", case, "0 along axis %d" % ax, comp, "pose")
        while lines[pos].startswith("E "):
            viol("mju_error in mjv_updateScene", {"scenario": cmd}, "no error", lines[pos][:300], "error"); pos += 1
        while lines[pos].startswith("S ") or lines[pos].startswith("E "):
            if lines[pos].startswith("E "):
                viol("mju_error in mjv_updateScene", {"scenario": cmd}, "no error", lines[pos][:300], "error"); pos += 1
                continue
            parts = lines[pos].split("|"); pos += 1
            t = list(map(int, parts[0].split()[1:]))
            cap, ngeom, status, canary, det, nwarn, prefix, sticky = t
            ents = [tuple(map(int, e.split(":"))) for e in parts[1].split()]
            stats["capacities"] += 1
            case = {"scenario": cmd, "capacity": cap}
            if ngeom > cap or ngeom < 0 or not canary:
                viol("geom written beyond the scene capacity", case, "ngeom <= maxgeom, guard slots intact", {"ngeom": ngeom, "guard_intact": canary}, "bound")
            if not det:
                viol("second mjv_updateScene differs", case, "identical scene", "different", "determinism")
            if not sticky:
                viol("status changed by a second identical update", case, "sticky", "changed", "status_sticky")
            if not prefix:
                viol("scene at this capacity is not a prefix of the unbounded scene", case, "first %d geoms of the full scene" % min(cap, needed), "different", "content")
            if ngeom != min(cap, needed):
                viol("number of geoms", case, min(cap, needed), ngeom, "content")
            # status: dropped something -> must be reported; everything attempted fits -> must not
            nattempt = len(attempts) if mode in (0, 3) else needed
            if cap < needed:
                stats["overflowing"] += 1
                if status == 0:
                    viol("overflow not reported through scene status", case, "status != 0", status, "status_missing")
                if nwarn != 1:
                    viol("overflow warning count", case, 1, nwarn, "status_missing")
            elif cap >= nattempt:
                if cap == needed:
                    stats["exact_fit"] += 1
                if status != 0 or nwarn != 0:
                    viol("status raised although every attempted geom fits", case, 0, {"status": status, "nwarn": nwarn}, "status_spurious")
            elif status != 0:
                stats["alpha0_spurious_status"] += 1
            if mode in (0, 3):
                exp = [(MJOBJ_GEOM, i, geoms[i][0], k) for k, i in enumerate(shown[:cap])]
                if ents != exp:
                    viol("objtype/objid/category/segid sequence", case, exp, ents, "content")
                c = "((%d, 0, %d, %d), %s, [%s], (%d, %d), %s, %s, %s)" % (
                    cap, vis_static, catmask, zl(geomgroup),
                    "; ".join("(%d, %s, %d)" % (g[0], ("(%d)" % g[1]) if g[1] < 0 else str(g[1]), g[2]) for g in geoms),
                    ngeom, status, zl([e[1] for e in ents]), zl([e[2] for e in ents]), zl([e[3] for e in ents]))
                if c not in seen:
                    seen.add(c); coq_cases.append(c); coq_src.append("%s cap %d" % (cmd, cap))
        if not lines[pos].startswith("Z"):
            ctx.broken.append(("correspondence", "unexpected driver output", lines[pos][:200])); return
        pos += 1
    fails = ctx.coq_eval("c50", IMPORTS, coq_cases, "scene_check", shard=max(400, (len(coq_cases) + 7) // 8))
    for i in fails[:5]:
        ctx.violation("correspondence", {"driver_command": coq_src[i], "coq_case": coq_cases[i][:1500]}, expected="model output (Model/Scene.v)",
                      observed="implementation output inside the case", found_input=False, theorem="correspondence c50_scene",
                      note="implementation and Coq model disagree on this input, but the implementation output still satisfies the oracle")
    ctx.cov["evaluations"] = len(coq_cases)
    ctx.cov["distinct_nontrivial"] = stats["overflowing"]
    ctx.cov["exhaustive_part"] = "every capacity 0..needed+2 for each of the %d scenes (sampled above 120 geoms)" % stats["scenarios"]
    ctx.cov["rule"] = ("mjgen models of 1..13 bodies, 7 option modes cycling (geom-only x2, geom-only with alpha-0/out-of-range groups x2, default options, all flags on); "
                       "non-trivial = (scene, capacity) pairs where the capacity is smaller than the unbounded scene")
    ctx.cov["samples"] = [coq_src[k] for k in (0, len(coq_src) // 2, len(coq_src) - 1)] if coq_src else []
    ctx.cov["support"]["scenes"] = stats
    ctx.cov["correspondence_disagreements"] = len(fails)
    ctx.cov["explanation"] = ("counter-machine and geom-pass theorems proved for all inputs; model tied to engine_vis_visualize.c on %d distinct (scene, capacity) cases; "
                              "bounds/prefix/determinism/pose observed on %d (scene, capacity) pairs" % (len(coq_cases), stats["capacities"]))
