"""C42 — Schema generators faithfully translate any valid schema."""
import json, os, re, subprocess
import framework as F

META = {
    "id": "C42", "category": "proof", "design_ref": "DESIGN.md section 4, C42; section 7 item 10",
    "technique": "Coq proof (induction over fuel / the child tree) of a hand-written model of generate_mjcf_table.py and "
                 "generate_mjcf_map.py from the parsed schema + exact text correspondence on generated valid schemas and on the "
                 "checked-in schema + parse-back oracles for the other four generators",
    "text": "CLAIMED FOR TWO OF THE SIX GENERATORS ONLY: the element table (generate_mjcf_table.py) and the keyword map "
            "(generate_mjcf_map.py). PROVED of the Coq model Model/GenTables.v, which starts from the PARSED schema object (canonical dump of "
            "mjcf_schema.Schema; the parser is C41's subject): C42_table_faithful - for EVERY valid schema (Model valid = the structural rules of "
            "_validate: unique names, declared children/uses, no duplicate children or expanded attributes, no use cycle, and no child cycle through "
            "distinct non-alias elements) that declares mujoco, the generator terminates and the entry sequence equals the pre-order traversal of the "
            "child tree (relational spec is_ctree: node attributes = use-expansion gexp in declaration order, subtrees = exactly the children that get "
            "rows - not the element itself, not alias elements, not plugin in default context - with declared cardinality and default-context flag); "
            "C42_rows_content - each row is {tag, cardinality, expanded attribute names minus name/class/nodefault in default context}; list equality, "
            "so nothing else is emitted; C42_expansion_functional; C42_map_faithful - map items are exactly the (keyword, constant) pairs of every enum "
            "in order, with one head and one size row (item count) per enum. Determinism is definitional in the model and observed on the "
            "implementation by a second run. NOT proved (tied by exact text comparison only): the rendering of rows to text (_wrap_row line wrapping, "
            "indentation, padding) and the constraint table (row indices, surviving bundles) - both are modelled and compared exactly, and checked by "
            "an independent parse-back oracle. The child-cycle rule is in valid because this check found that a schema accepted by _validate with a "
            "child cycle through two distinct elements made generate_mjcf_table.visit recurse without bound (repaired in /repo by "
            "_check_child_cycles; the revert is a mutant). A valid schema without a mujoco element makes generate() raise KeyError: the theorem assumes "
            "the root is declared. Tie: exact text equality python vs model (inside Coq) on the checked-in mjcf.schema, and on grammar-generated schema "
            "texts accepted by the working tree's parser; model valid is also compared with the validator's verdict (accepted => valid; rejected for a "
            "modelled reason => not valid). The checked-in src/xml/generated/* files are compared with the generators' output. XSD, read table, default "
            "table and dm_control generators are NOT modelled: harness parse-back oracles (support only) read their output back and compare element "
            "sets, children, expanded attribute names/order, types, required, defaults, enum keywords, table rows; on generated schemas these "
            "generators often refuse (they assume element names and C headers of the real schema) and are then counted not-applicable. XSD oracle in "
            "detail: every type/itemType/base reference resolves to a definition of the right kind, kw_/kwlist_/vector simple types are defined exactly "
            "for what the EXPANDED attributes use and mean what their name says (item type, length bounds), inline restrictions carry the declared "
            "facets, constraint and cardinality annotations cover the transitively used groups, and the XSD is used as a validator (xmllint): it must "
            "compile, accept a legal document built from the dumped schema and reject documents with an undeclared attribute/child, a bad keyword, a "
            "wrong vector length or a missing required attribute. dm_control oracle also checks identifier/reference/path namespaces, repeated and "
            "on_demand flags. Fixed hand-written strata put every attribute kind behind nested use only.",
    "note": "Trusted: Coq kernel; hand-written model Model/GenTables.v (starts from a canonical dump of the parsed "
            "mjcf_schema.Schema object, dicts as association lists, KeyError/RecursionError as None); the dump code of the "
            "driver; correspondence harness.",
    "assumptions": ["model starts from the parsed schema object, not from schema text (the parser is C41's subject)",
                    "tie of model to python code is differential testing on the cases of this run",
                    "XSD / read table / default table / dm_control generators: parse-back oracles only (support), not modelled"],
}

HERE = os.path.dirname(os.path.abspath(__file__))
DRIVER = os.path.join(os.path.dirname(HERE), "drivers", "c42_gen.py")
PY = "/venv/bin/python"


# ------------------------------------------------------------------ Coq literals
def cs(x):
    return '"' + str(x).replace('"', '""') + '"'


def cb(b):
    return "true" if b else "false"


def clist(xs):
    return "[" + "; ".join(xs) + "]"


def coq_member(m):
    k = m["k"]
    if k == "attr":
        return "MAttr (mkAttr %s %s %s %s %s %s %s)" % (cs(m["name"]), cs(m["type"]), cs(m["target"] or ""), cs("%s..%s" % (m["lo"], m["hi"])),
                                                         cs("" if m["default"] is None else json.dumps(m["default"])), cb(m["nodefault"]), cb(m["required"]))
    if k == "use":
        return "MUse %s" % cs(m["group"])
    if k == "child":
        return "MChild %s %s" % (cs(m["name"]), cs(m["card"]))
    if k == "con":
        return "MCon %s %s" % (cs(m["kind"]), clist(clist(cs(n) for n in b) for b in m["bundles"]))
    return "MConst"


def coq_schema(d):
    enums = clist("mkEnum %s %s" % (cs(e["name"]), clist("(%s, %s)" % (cs(k), cs(v)) for k, v in e["items"])) for e in d["enums"])
    groups = clist("mkGroup %s %s" % (cs(g["name"]), clist(coq_member(m) for m in g["members"])) for g in d["groups"])
    elements = clist("mkElement %s %s %s %s" % (cs(e["name"]), cs(e["xml"]), cb(e["alias"]), clist(coq_member(m) for m in e["members"]))
                     for e in d["elements"])
    return "(mkSchema %s %s %s)" % (enums, groups, elements)


PRE = ("Definition lines_eqb := list_eqb String.eqb.\n"
       "Definition olines_eqb (a b : option (list string)) : bool := match a, b with Some x, Some y => lines_eqb x y | None, None => true | _, _ => false end.\n"
       "Definition chk (c : schema * option (list string) * string) : bool :=\n"
       "  match c with (s, tl, mt) => olines_eqb (table_lines s) tl && String.eqb (map_text s) mt && valid s end.\n")
IMPORTS = "From Coq Require Import String Bool.\nFrom MJV Require Import Lib.Eqb Model.GenTables.\nOpen Scope string_scope.\n"



# ------------------------------------------------------------------ generator of schema texts (grammar-based)
WORDS = ["pos", "quat", "size", "rgba", "mass", "friction", "solref", "solimp", "margin", "gap", "group", "priority", "condim",
         "contype", "conaffinity", "material", "fromto", "axisangle", "xyaxes", "zaxis", "euler", "range", "limited", "damping",
         "stiffness", "armature", "frictionloss", "springref", "inertiagrouprange", "actuatorgroupdisable", "ls_iterations",
         "noslip_tolerance", "a", "b", "x", "kp", "kv", "user", "childclass", "mocap", "gravcomp", "sleep", "very_long_attribute_name_for_wrap"]
CARDS = ["?", "!", "*", "R"]


class SchemaGen:
    def __init__(self, rng, cyclic=False, big=False):
        self.rng, self.cyclic, self.big = rng, cyclic, big
        self.counter = 0

    def aname(self):
        self.counter += 1
        w = self.rng.choice(WORDS)
        return w if self.rng.random() < 0.25 and w not in self.used else "%s%d" % (w, self.counter)

    def attr(self, names, enums, idns):
        rng = self.rng
        n = self.aname()
        while n in self.used:
            n = self.aname()
        self.used.add(n)
        names.append(n)
        kinds = ["int", "double", "vec", "string", "bool", "file", "chars", "float", "uvec", "rvec"]
        if enums:
            kinds += ["enum", "enum", "flags"]
        kinds += ["id"]
        if idns:
            kinds += ["ref"]
        k = rng.choice(kinds)
        facets = []
        default = ""
        if k == "int":
            t = "int"
            if rng.random() < 0.5:
                default = " = %d" % rng.randrange(-5, 50)
            if rng.random() < 0.2 and "-" not in default:      # a default below its own min is accepted by the validator but is not a sensible schema
                facets.append(rng.choice(["min=0", "min=0, max=100", "max=1000"]))
        elif k in ("double", "float"):
            t = k
            if rng.random() < 0.5:
                default = " = %s" % rng.choice(["0", "1", "0.5", "-1", "1e-3", "2.5"])
            if rng.random() < 0.15 and default.strip(" =") not in ("0", "-1"):
                facets.append(rng.choice(["positive", "positive", "min=0.001", "min=0.001, max=1000"]))
        elif k == "vec":
            m = rng.randrange(2, 6)
            t = "double[%d]" % m
            if rng.random() < 0.5:
                default = " = {%s}" % ", ".join(rng.choice(["0", "1", "0.5"]) for _ in range(m))
        elif k == "uvec":
            t = rng.choice(["double[]", "int[]", "float[]"])
        elif k == "rvec":
            t = "double[1..%d]" % rng.randrange(2, 6)
        elif k == "string":
            t = "string"
            if rng.random() < 0.3:
                default = ' = "%s"' % rng.choice(["abc", "x y", ""])
        elif k == "bool":
            t = "bool"
            if rng.random() < 0.5:
                default = " = " + rng.choice(["true", "false"])
        elif k == "file":
            t = "file"
        elif k == "chars":
            t = rng.choice(["chars[8]", "chars[1..12]"])
        elif k == "enum":
            e = rng.choice(enums)
            t = "enum<%s>" % e[0]
            if rng.random() < 0.5:
                key = rng.choice(e[1])
                default = (" = %s" % key) if re.fullmatch(r"[A-Za-z_]\w*", key) else (' = "%s"' % key)
        elif k == "flags":
            t = "flags<%s>" % rng.choice(enums)[0]
        elif k == "id":
            ns = rng.choice(["body", "geom", "site", "ns%d" % rng.randrange(3)])
            idns.add(ns)
            t = "id<%s>" % ns
        else:
            t = "ref<%s>" % rng.choice(sorted(idns))
        if not default and rng.random() < 0.15:
            facets.append("required")
        if rng.random() < 0.2:
            facets.append("nodefault")
        if rng.random() < 0.1:
            facets.append("field=f_%s" % n)
        f = (" (%s)" % ", ".join(facets)) if facets else ""
        return "  %s : %s%s%s" % (n, t, default, f)

    def constraint(self, names):
        rng = self.rng
        if len(names) < 2:
            return None
        kind = rng.choice(["exclusive", "together", "requires", "oneof"])
        if kind == "requires":
            a, b = rng.sample(names, 2)
            return "  requires %s %s" % (a, b)
        nb = rng.randrange(2, min(4, len(names)) + 1)
        picks = rng.sample(names, min(len(names), nb + rng.randrange(0, 2)))
        bundles = [[p] for p in picks[:nb]]
        for extra in picks[nb:]:
            rng.choice(bundles).append(extra)
        return "  %s %s" % (kind, " ".join("+".join(b) for b in bundles))

    def text(self):
        rng = self.rng
        self.used = set()
        out = []
        enums = []
        for i in range(rng.randrange(0, 4)):
            keys = []
            for j in range(rng.randrange(1, 6)):
                key = rng.choice(["none", "local", "global", "2d", "cube", "a-b", "x", "k%d" % j, "longkeyword_%d" % j])
                if key not in keys:
                    keys.append(key)
            enums.append(("en%d" % i, keys))
            ctype = rng.choice(["", " : mjtFoo%d" % i])
            items = "\n".join("  %s = %s" % (k if re.fullmatch(r"[A-Za-z_]\w*", k) else '"%s"' % k,
                                             rng.choice(["mjX_%d" % j, str(j), "-1"])) for j, k in enumerate(keys))
            out.append("enum en%d%s {\n%s\n}" % (i, ctype, items))
        idns = set()
        groups = []  # (name, attr names incl. used groups' names, direct names)
        ng = rng.randrange(0, 6 if self.big else 4)
        for i in range(ng):
            lines, names = [], []
            variant = rng.random() < 0.2
            allnames = []
            members = []
            for _ in range(rng.randrange(1, 6)):
                members.append("attr")
            if not variant and groups and rng.random() < 0.6:
                for g in rng.sample(groups, rng.randrange(1, min(2, len(groups)) + 1)):
                    members.append(("use", g))
            rng.shuffle(members)
            usednames = []
            for m in members:
                if m == "attr":
                    a = self.attr(names, enums, idns)
                    if variant:
                        a = a.replace("required, ", "").replace(", required", "").replace(" (required)", "")
                    lines.append(a)
                else:
                    lines.append("  use %s" % m[1][0])
                    usednames += m[1][1]
            if rng.random() < 0.5:
                c = self.constraint(names)
                if c:
                    lines.insert(rng.randrange(len(lines) + 1), c)
            groups.append(("g%d" % i, names + usednames))
            out.append("group g%d%s {\n%s\n}" % (i, " variant" if variant else "", "\n".join(lines)))
        ne = rng.randrange(1, 12 if self.big else 7)
        enames = ["mujoco"]
        specials = ["default", "default_a", "plugin", "body", "frame", "worldbody", "geom", "joint"]
        for i in range(ne):
            nm = rng.choice(specials) if rng.random() < 0.4 else "el%d" % i
            if nm not in enames:
                enames.append(nm)
        aliases = {}
        for nm in enames[1:]:
            if rng.random() < 0.15:
                aliases[nm] = rng.choice(enames)
        forced = {}    # parent index -> children that must be listed so that every element is reachable from mujoco
        for j in range(1, len(enames)):
            if rng.random() < 0.85:
                pi = rng.randrange(0, j)
                if not (pi == 0 and enames[j] == "body" and "worldbody" not in enames):
                    forced.setdefault(pi, []).append(enames[j])
        body = []
        for idx, nm in enumerate(enames):
            lines, names = [], []
            usednames = []
            members = ["attr"] * rng.randrange(0, 30 if (self.big and rng.random() < 0.3) else 7)
            usedg = []
            if groups and rng.random() < 0.6:
                for g in rng.sample(groups, rng.randrange(1, min(3, len(groups)) + 1)):
                    members.append(("use", g))
            later = enames[idx + 1:]
            kids = []
            if later:
                kids = rng.sample(later, rng.randrange(0, min(4, len(later)) + 1))
            kids = [k for k in kids if not (idx == 0 and k == "body" and "worldbody" not in enames)]
            kids += [k for k in forced.get(idx, []) if k not in kids]
            if idx == 0 and len(enames) > 1 and not kids:
                kids = [enames[1]]
            if rng.random() < 0.2:
                kids.append(nm)                      # self recursion
            if self.cyclic and idx > 0 and rng.random() < 0.5:
                kids.append(rng.choice(enames[1:idx + 1]))   # back edge (may also be a self edge)
            seen = set()
            for kname in kids:
                if kname in seen:
                    continue
                seen.add(kname)
                members.append(("child", kname))
            if rng.random() < 0.2:
                members.append("set")
            rng.shuffle(members)
            if rng.random() < 0.25:
                members.insert(rng.randrange(len(members) + 1), "name")
            if rng.random() < 0.2:
                members.insert(rng.randrange(len(members) + 1), "class")
            for m in members:
                if m == "attr":
                    lines.append(self.attr(names, enums, idns))
                elif m == "name":
                    if "name" not in names:
                        names.append("name")
                        lines.append("  name : string" + rng.choice(["", " (nodefault)"]))
                elif m == "class":
                    if "class" not in names:
                        names.append("class")
                        lines.append("  class : string")
                elif m == "set":
                    lines.append("  set type = mjSENS_FOO")
                elif m[0] == "use":
                    lines.append("  use %s" % m[1][0])
                    usednames += m[1][1]
                else:
                    lines.append("  child %s %s" % (m[1], "R" if m[1] == nm else rng.choice(CARDS[:3])))
            for _ in range(rng.randrange(0, 3)):
                c = self.constraint(names + usednames)
                if c:
                    lines.insert(rng.randrange(len(lines) + 1), c)
            facets = []
            if nm in aliases:
                facets.append("alias=%s" % aliases[nm])
            if rng.random() < 0.2:
                facets.append("xml=%s" % rng.choice(["joint", "plugin", "tag%d" % idx, '"my-tag"']))
            if rng.random() < 0.1:
                facets.append("field=sub")
            spec = rng.choice(["", " : mjsFoo%d" % idx])
            out.append("element %s%s%s {\n%s\n}" % (nm, spec, (" (%s)" % ", ".join(facets)) if facets else "", "\n".join(lines)))
        rng.shuffle(out)   # declaration order is free in the language
        return "\n\n".join(out) + "\n"


DEFECTS = [
    "element zz1 {\n  child nosuch ?\n}\n",
    "group gz1 {\n  use gz2\n}\ngroup gz2 {\n  q9 : int\n  use gz1\n}\n",
    "element zz2 {\n  use nosuchgroup\n}\n",
    "element zdup {\n}\nelement zz3 {\n  child zdup ?\n  child zdup *\n}\n",
    "element zc1 {\n  child zc2 ?\n}\nelement zc2 {\n  child zc1 *\n}\n",
    "element zc3 {\n  child zc4 ?\n}\nelement zc4 {\n  child zc5 *\n}\nelement zc5 {\n  w : int\n  child zc3 !\n}\n",
    "group gd1 {\n  dupattr : int\n}\nelement zz4 {\n  dupattr : double\n  use gd1\n}\n",
]
MODELLED_REJECTIONS = ("child cycle", "duplicate attribute", "duplicate child", "group use cycle", "use of undeclared group",
                       "child references undeclared element")


# fixed strata: every kind of attribute / constraint reaches elements ONLY through use (direct, nested, shared by two elements,
# in default context), never by a direct declaration, plus the mirror image (only direct) - emitters that look at an element's own
# members instead of the expansion differ exactly here
HAND_SCHEMAS = [
    """enum color { red = 1  green = 2  blue = 4 }
enum shape { box = 0  ball = 1  "2d" = 2 }
group paint {
  tint : flags<color>
  gloss : double = 0.5 (positive)
  code : chars[1..12]
  exclusive tint gloss
}
group deep {
  use paint
  kinds : flags<shape> (nodefault)
  kind : enum<shape> = ball
  dims : double[1..3]
  fixed : int[4] = {1, 2, 3, 4}
  any : float[]
  level : int = 3 (min=0, max=10)
  tag : id<thing>
  requires kind dims
}
element mujoco {
  model : string
  child default ?
  child widget *
  child gadget *
}
element default {
  class : string
  child default R
  child widget ?
}
element widget : mjsWidget {
  use deep
  size : double[1..3]
  child gadget ?
}
element gadget {
  name : id<gadget>
  target : ref<thing>
  use paint
}
""",
    """enum mode { off = 0  on = 1 }
group only_group {
  m : enum<mode> = on
  f : flags<mode>
}
element mujoco {
  child a *
  child b ?
}
element a {
  f2 : flags<mode>
  v : double[2] = {0, 1}
}
element b {
  use only_group
  w : double[3]
  child a *
}
""",
    """enum e1 { k1 = 1  k2 = 2 }
enum e2 { p = 0  q = 1 }
group g_inner { x : flags<e1> (required)
  y : int[2..5] }
group g_mid { use g_inner
  z : bool = true }
group g_outer { use g_mid
  u : flags<e2> }
element mujoco { child top ! }
element top { use g_outer
  child leaf * }
element leaf { use g_inner
  name : string (nodefault) }
""",
]


CYCLE_MIN = "element mujoco {\n  child a *\n}\nelement a {\n  x : int\n  child b ?\n}\nelement b {\n  y : int\n  child a ?\n}\n"


# ------------------------------------------------------------------ independent spec of the two modelled generators (oracle)
def o_expand(d, members, depth=0):
    out = []
    groups = {g["name"]: g for g in d["groups"]}
    for m in members:
        if m["k"] == "attr":
            out.append(m)
        elif m["k"] == "use":
            out += o_expand(d, groups[m["group"]]["members"], depth + 1)
    return out


def o_constraints(d, element):
    """own constraints plus those of all transitively used groups (as a multiset; the oracle ignores order)"""
    groups = {g["name"]: g for g in d["groups"]}
    cons = [m for m in element["members"] if m["k"] == "con"]
    seen = set()
    todo = [m["group"] for m in element["members"] if m["k"] == "use"]
    while todo:
        g = todo.pop()
        if g in seen:
            continue
        seen.add(g)
        for m in groups[g]["members"]:
            if m["k"] == "con":
                cons.append(m)
            elif m["k"] == "use":
                todo.append(m["group"])
    return cons


def o_table(d):
    """expected entries [('row', tag, card, names, consset) | ('open',) | ('close',)] or 'cycle'"""
    elements = {e["name"]: e for e in d["elements"]}
    out = []

    def visit(e, card, project, path):
        if e["name"] in path:
            raise RecursionError
        attrs = o_expand(d, e["members"])
        if project:
            attrs = [a for a in attrs if a["name"] not in ("name", "class") and not a["nodefault"]]
        names = [a["name"] for a in attrs]
        cons = set()
        for c in o_constraints(d, e):
            if all(n in names for b in c["bundles"] for n in b):
                cons.add((c["kind"][0], "|".join(" ".join(b) for b in c["bundles"])))
        out.append(("row", e["xml"], card, names, cons))
        kids = [m for m in e["members"] if m["k"] == "child" and m["name"] != e["name"] and not elements[m["name"]]["alias"]
                and not (project and m["name"] == "plugin")]
        if not kids:
            return
        out.append(("open",))
        for k in kids:
            visit(elements[k["name"]], k["card"], project or (e["name"] == "default" and not k["name"].startswith("default_")),
                  path | {e["name"]})
        out.append(("close",))
    try:
        visit(elements["mujoco"], "!", False, frozenset())
    except RecursionError:
        return "cycle"
    return out


def read_table(text):
    """parse the generated table back: entries and constraint rows"""
    m = re.search(r"std::vector<const char\*> MJCF\[\] = \{\n(.*?)\n\};\n", text, re.S)
    body = m.group(1)
    entries = []
    for g in re.findall(r"\{([^{}]*)\}", body):
        parts = re.findall(r'"([^"]*)"', g)
        if parts == ["<"]:
            entries.append(("open",))
        elif parts == [">"]:
            entries.append(("close",))
        else:
            entries.append(("row", parts[0], parts[1], parts[2:]))
    leftovers = re.sub(r"\{[^{}]*\}", "", body)
    m2 = re.search(r"MJCF_constraints\[\] = \{\n(.*?)\n\};\n", text, re.S)
    cons = []
    for line in m2.group(1).split("\n"):
        if not line.strip():
            continue
        mm = re.fullmatch(r"  \{(\d+), '(.)', \"([^\"]*)\"\},", line)
        cons.append((int(mm.group(1)), mm.group(2), mm.group(3)) if mm else ("unparsed", line))
    return entries, cons, leftovers.replace(",", "").strip() == "", max(len(l) for l in body.split("\n"))


def check_table(d, text):
    """None if the table text is a faithful translation of the dumped schema, else a description"""
    exp = o_table(d)
    if exp == "cycle":
        return "cycle"
    entries, cons, clean, width = read_table(text)
    if not clean:
        return "text outside row initialisers"
    if width > 100:
        return "line longer than 100 characters"
    if len(entries) != len(exp):
        return "row count %d, expected %d" % (len(entries), len(exp))
    for i, (a, b) in enumerate(zip(entries, exp)):
        if a[0] != b[0] or (a[0] == "row" and (a[1] != b[1] or a[2] != b[2] or a[3] != b[3])):
            return "entry %d is %r, expected %r" % (i, a, b[:4])
    expcons = set()
    for i, b in enumerate(exp):
        if b[0] == "row":
            for (kc, spec) in b[4]:
                expcons.add((i, kc, spec))
    if set(cons) != expcons or len(cons) != len(set(cons)) and False:
        return "constraint rows %r, expected %r" % (sorted(map(str, set(cons) ^ expcons))[:4], "symmetric difference shown")
    return None


def check_map(d, mid):
    blocks = re.findall(r"// enum (\w+)\ninline constexpr mjMap (\w+)_map\[\] = \{\n(.*?)\n\};\ninline constexpr int (\w+)_sz = (\d+);\n", mid, re.S)
    if [b[0] for b in blocks] != [e["name"] for e in d["enums"]]:
        return "enum blocks %r" % [b[0] for b in blocks]
    for b, e in zip(blocks, d["enums"]):
        if not (b[0] == b[1] == b[3]):
            return "inconsistent names in block %s" % b[0]
        items = re.findall(r'^  \{"([^"]*)",\s+(\S+)\},$', b[2], re.M)
        if [list(x) for x in items] != e["items"] or int(b[4]) != len(e["items"]) or len(b[2].split("\n")) != len(e["items"]):
            return "items of %s: %r" % (b[0], items)
    rest = re.sub(r"// enum (\w+)\ninline constexpr mjMap (\w+)_map\[\] = \{\n(.*?)\n\};\ninline constexpr int (\w+)_sz = (\d+);\n", "", mid, flags=re.S)
    if rest.strip():
        return "text outside enum blocks: %r" % rest[:80]
    return None


def call_driver(ctx, schemas, tag):
    reqp = os.path.join(ctx.scratch, "req_%s.json" % tag)
    respp = os.path.join(ctx.scratch, "resp_%s.json" % tag)
    work = os.path.join(ctx.scratch, "work_%s" % tag)
    json.dump({"schemas": schemas}, open(reqp, "w"))
    r = subprocess.run(["timeout", "1800", PY, DRIVER, ctx.repo, reqp, respp, work], capture_output=True, text=True)
    if r.returncode != 0:
        ctx.broken.append(("build", "doc/generate modules of the working tree do not load/run", (r.stdout + r.stderr)[-1500:]))
        return None
    return json.load(open(respp))


def run(ctx):
    rng = ctx.rng
    quick = ctx.tier == "quick"
    ctx.coq_props(allowed_axioms=(), extra_targets=["Lib/Eqb.vo", "Model/GenTables.vo"])

    texts = [None, CYCLE_MIN] + HAND_SCHEMAS
    kinds = ["checked-in", "cycle-min"] + ["hand"] * len(HAND_SCHEMAS)
    if ctx.replay and isinstance(ctx.replay.get("case"), dict) and ctx.replay["case"].get("schema_text"):
        texts.append(ctx.replay["case"]["schema_text"])
        kinds.append("replay")
    for i in range(150 if quick else 1500):
        cyc = rng.random() < 0.08
        big = rng.random() < 0.25
        t = SchemaGen(rng, cyclic=cyc, big=big).text()
        if rng.random() < 0.08:
            t += "\n" + rng.choice(DEFECTS)
            texts.append(t)
            kinds.append("gen-defect")
            continue
        texts.append(t)
        kinds.append("gen-cyclic" if cyc else ("gen-big" if big else "gen"))
    resp = call_driver(ctx, [{"text": t, "all": True} for t in texts], "main")
    if resp is None:
        return
    consts = resp["consts"]
    SCRATCH_DIR[0] = ctx.scratch
    XSD_COUNTER[0] = 0
    import glob, shutil
    for old in glob.glob(os.path.join(ctx.scratch, "xsd_*")):
        shutil.rmtree(old, ignore_errors=True)
    CONSTS.clear()
    CONSTS.update(consts)
    OTHER_STATS.clear()
    results = resp["results"]
    cases, case_src = [], []
    inv_cases, inv_src = [], []
    n_invalid = n_valid = n_cyc = n_wrapped = n_con = n_proj = 0
    invalid_reasons = {}
    nviol = 0
    for text, kind, res in zip(texts, kinds, results):
        if not res["valid"]:
            n_invalid += 1
            key = re.sub(r"[0-9']+|\"[^\"]*\"", "", (res["error"] or "").split(": ", 2)[-1])[:40]
            invalid_reasons[key] = invalid_reasons.get(key, 0) + 1
            msg = res.get("message") or ""
            if res.get("dump_unvalidated") and msg.startswith(MODELLED_REJECTIONS):
                du = res["dump_unvalidated"]
                if all(ord(ch) < 128 for ch in json.dumps(du, ensure_ascii=False)):
                    inv_cases.append(coq_schema(du))
                    inv_src.append(({"schema_text": text, "kind": kind}, msg))
            if kind in ("checked-in", "cycle-min"):
                if kind == "checked-in":
                    ctx.broken.append(("build", "src/xml/mjcf.schema of the working tree does not parse", res["error"]))
                # cycle-min rejected by validation: the defect was repaired by a validation rule; nothing to check
            continue
        n_valid += 1
        d = res["dump"]
        if not d["keys_ok"]:
            ctx.broken.append(("harness", "schema dict keys differ from declaration names", kind))
        case = {"schema_text": text if text is not None else "<src/xml/mjcf.schema>", "kind": kind}
        tab, mp = res["table"], res["map"]
        exp = o_table(d)
        if exp == "cycle":
            n_cyc += 1
            if "error" in tab:
                ctx.violation("impl_violation", case, expected="a valid schema (parse_file accepted it) is translated by generate_mjcf_table.generate()",
                              observed=tab, signature={"site": "generate_mjcf_table.visit", "class": "child_cycle"},
                              theorem="C42_valid_schema_not_enough_refuted",
                              note="child declarations form a cycle through distinct non-alias elements; _validate accepts it, visit recurses without bound")
        else:
            if "error" in tab:
                nviol += 1
                if nviol <= 5:
                    ctx.violation("impl_violation", case, expected="table for a valid schema", observed=tab,
                                  signature={"site": "generate_mjcf_table.generate", "class": "exception_" + tab["error"]}, theorem="C42_table_faithful")
            else:
                why = check_table(d, tab["text"])
                if why:
                    nviol += 1
                    if nviol <= 5:
                        ctx.violation("impl_violation", case, expected="rows = pre-order of the child tree with tag, cardinality, expanded attribute names; constraint rows index their row",
                                      observed=why, signature={"site": "generate_mjcf_table.visit", "class": "unfaithful_table"}, theorem="C42_table_faithful")
        if "error" in mp:
            ctx.violation("impl_violation", case, expected="keyword map for a valid schema", observed=mp,
                          signature={"site": "generate_mjcf_map.generate", "class": "exception_" + mp["error"]}, theorem="C42_map_faithful")
        else:
            mid = mp["text"][len(consts["map_header"]):len(mp["text"]) - len(consts["map_footer"])]
            why = check_map(d, mid) if mp["text"].startswith(consts["map_header"]) and mp["text"].endswith(consts["map_footer"]) else "header/footer missing"
            if why:
                ctx.violation("impl_violation", case, expected="one map per enum with its keyword/constant pairs in order", observed=why,
                              signature={"site": "generate_mjcf_map.generate", "class": "unfaithful_map"}, theorem="C42_map_faithful")
        if not res.get("deterministic", True):
            ctx.violation("impl_violation", case, expected="same text on a second run", observed="outputs differ",
                          signature={"site": "generate", "class": "nondeterministic"}, theorem="C42_deterministic")
        # other generators: parse-back oracles (support)
        for gname, o in (res.get("others") or {}).items():
            why = check_other(gname, d, o, kind)
            if why:
                nviol += 1
                if nviol <= 8:
                    ctx.violation("impl_violation", dict(case, generator=gname), expected="parse-back of the generated text agrees with the schema",
                                  observed=why, signature={"site": gname + ".generate", "class": "parse_back"}, theorem="support: parse-back oracle")
        # Coq case
        if "text" in tab and tab["text"].startswith(consts["table_header"]):
            tl = "Some " + clist(cs(l) for l in tab["text"][len(consts["table_header"]):].split("\n"))
            if any(len(l) > 92 for l in tab["text"].split("\n")):
                n_wrapped += 1
            if re.search(r"MJCF_constraints\[\] = \{\n  \{", tab["text"]):
                n_con += 1
        elif "text" in tab:
            tl = "Some []"
            ctx.broken.append(("correspondence", "table text does not start with the module's _HEADER", kind))
        else:
            tl = "None"
        mt = mp["text"][len(consts["map_header"]):len(mp["text"]) - len(consts["map_footer"])] if "text" in mp else "<error>"
        if not all(ord(ch) < 128 for ch in json.dumps(d, ensure_ascii=False) + mt):
            continue
        cases.append("(%s, %s, %s)" % (coq_schema(d), tl, cs(mt)))
        case_src.append((case, tab, mp))
        if any(e["name"] == "default" for e in d["elements"]):
            n_proj += 1
    fails = ctx.coq_eval("c42", IMPORTS, cases, "chk", pre=PRE, shard=25)
    for i in fails[:3]:
        case, tab, mp = case_src[i]
        ctx.violation("correspondence", case, expected="Model/GenTables.v table_lines / map_text / valid on the dumped schema",
                      observed={"table": (tab.get("text") or tab)[-400:] if isinstance(tab.get("text"), str) else tab}, found_input=False,
                      theorem="correspondence c42", note="python generators and Coq model disagree on this schema; the oracles did not flag the implementation output")

    ifails = ctx.coq_eval("c42_inv", IMPORTS, inv_cases, "fun s => negb (valid s)", pre=PRE, shard=25) if inv_cases else []
    for i in ifails[:3]:
        case, msg = inv_src[i]
        ctx.violation("correspondence", case, expected="Model/GenTables.v valid = false for a schema rejected with: " + msg,
                      observed="model accepts it", found_input=False, theorem="correspondence c42 (validity rules)")

    # checked-in generated files against the generators run on the checked-in schema
    real = results[0]
    if real["valid"]:
        pairs = [("mjcf_table.inc", real["table"]), ("mjcf_map.h", real["map"])] + [
            (rel, real["others"][g]) for rel, g in (("mjcf.xsd", "generate_xsd"), ("mjcf_read_table.inc", "generate_read_table"),
                                                    ("mjcf_default_table.inc", "generate_default_table"), ("dmcontrol_schema.xml", "generate_dmcontrol"))]
        for rel, o in pairs:
            if "text" not in o:
                ctx.violation("impl_violation", {"schema_text": "<src/xml/mjcf.schema>", "file": rel}, expected="generator runs on the checked-in schema", observed=o,
                              signature={"site": rel, "class": "exception"}, theorem="checked-in files")
            elif o["text"] != resp["checked_in"].get(rel):
                ctx.violation("impl_violation", {"schema_text": "<src/xml/mjcf.schema>", "file": rel}, expected="src/xml/generated/%s equals the generator output" % rel,
                              observed="differs", signature={"site": rel, "class": "checked_in_differs"}, theorem="checked-in files")

    ctx.cov["evaluations"] = len(cases) + len(inv_cases)
    ctx.cov["support"]["rejected_schemas_compared_with_model_valid"] = len(inv_cases)
    ctx.cov["distinct_nontrivial"] = len(set(c for c in cases if c.count("MChild") >= 2))
    ctx.cov["rule"] = ("the checked-in mjcf.schema, the minimal child-cycle schema, and grammar-generated schema texts (enums, groups with nested use, variant groups, "
                       "constraints, elements with xml/alias/field facets, self children, shared children, default/default_*/plugin elements, long attribute "
                       "lists); only texts accepted by the working tree's parse_file are used (invalid ones are counted); non-trivial = distinct schema with at "
                       "least two child declarations")
    ctx.cov["samples"] = [{"schema_text": texts[2][:1500]}, {"schema_text": CYCLE_MIN}]
    ctx.cov["correspondence_disagreements"] = len(fails) + len(ifails)
    ctx.cov["support"]["generated"] = {"texts": len(texts), "valid": n_valid, "rejected_by_validation": n_invalid, "rejection_reasons": invalid_reasons,
                                       "with_child_cycle": n_cyc, "with_wrapped_rows": n_wrapped, "with_constraint_rows": n_con, "with_default_projection": n_proj}
    ctx.cov["support"]["other_generators_parse_back"] = OTHER_STATS
    ctx.cov["explanation"] = ("C42_table_faithful / C42_map_faithful proved for all valid schemas with ranked (acyclic) child graph; model tied to the python "
                              "generators on %d schemas by exact text comparison; the four unmodelled generators are only parse-back checked" % len(cases))


OTHER_STATS = {}
CONSTS = {}


def _stat(gname, what):
    OTHER_STATS.setdefault(gname, {}).setdefault(what, 0)
    OTHER_STATS[gname][what] += 1


def fmt_num(v):
    if isinstance(v, float) and v == int(v) and abs(v) < 1e15:
        return str(int(v))
    return repr(v)


def fmt_default(a):
    d = a["default"]
    if d is None:
        return None
    if isinstance(d, list):
        return " ".join(fmt_num(float(v)) for v in d)
    if isinstance(d, (int, float)) and not isinstance(d, bool):
        return fmt_num(float(d))
    return str(d)


def proj_attrs(d, e, projected):
    attrs = o_expand(d, e["members"])
    if projected:
        attrs = [a for a in attrs if a["name"] not in ("name", "class") and not a["nodefault"]]
    return attrs


def resolve_hi(hi):
    return CONSTS.get("dims", {}).get(hi, hi) if isinstance(hi, str) else hi


XS = "{http://www.w3.org/2001/XMLSchema}"


SCALAR_XS = {"int": "xs:int", "double": "xs:double", "float": "xs:float", "string": "xs:string", "file": "xs:string"}


def _vector_def_ok(st, base, lo, hi):
    """the named list type must really be a list of the scalar with the declared length bounds"""
    lst = list(st.iter(XS + "list"))
    if len(lst) != 1 or lst[0].get("itemType") != SCALAR_XS[base]:
        return False
    facets = {x.tag[len(XS):]: x.get("value") for x in st.iter() if x.tag in (XS + "length", XS + "minLength", XS + "maxLength")}
    if hi is None:
        exp = {"minLength": str(lo)} if lo > 1 else {}
    elif lo == hi:
        exp = {"length": str(hi)}
    else:
        exp = {"maxLength": str(hi)}
        if lo > 0:
            exp["minLength"] = str(lo)
    return facets == exp


def check_xsd(d, text):
    import xml.etree.ElementTree as ET
    root = ET.fromstring(text)
    if root.tag != XS + "schema":
        return "root is not xs:schema"
    elements = {e["name"]: e for e in d["elements"]}
    enum_names = [e["name"] for e in d["enums"]]
    simple = {}
    for t in root.findall(XS + "simpleType"):
        if t.get("name") in simple:
            return "duplicate simpleType %s" % t.get("name")
        simple[t.get("name")] = t
    ctypes = {}
    for t in root.findall(XS + "complexType"):
        if t.get("name") in ctypes:
            return "duplicate complexType %s" % t.get("name")
        ctypes[t.get("name")] = t
    # (1) every type reference of the document resolves to a definition of the right kind
    for node in root.iter():
        for attrname, pool, what in (("type", None, "type"), ("itemType", simple, "itemType"), ("base", simple, "base")):
            ref = node.get(attrname)
            if ref is None or ref.startswith("xs:"):
                continue
            if attrname == "type":
                pool = ctypes if node.tag == XS + "element" else simple
            if ref not in pool:
                return "%s %r of <%s name=%r> is never defined in the XSD" % (what, ref, node.tag[len(XS):], node.get("name"))
    # (2) keyword types: one per enum with exactly its keywords; list types exactly for the enums used by a flags attribute
    for en in d["enums"]:
        t = simple.get("kw_" + en["name"])
        if t is None:
            return "no simpleType kw_%s" % en["name"]
        vals = [x.get("value") for x in t.iter(XS + "enumeration")]
        if vals != [k for k, _ in en["items"]]:
            return "keywords of %s are %r" % (en["name"], vals)
    kb = simple.get("kw_bool")
    if kb is None or [x.get("value") for x in kb.iter(XS + "enumeration")] != ["false", "true"]:
        return "kw_bool is not {false, true}"
    flag_targets = set(a["target"] for e in d["elements"] for a in o_expand(d, e["members"]) if a["type"] == "flags")
    for nm, t in simple.items():
        if nm.startswith("kw_") and nm != "kw_bool" and nm[3:] not in enum_names:
            return "simpleType %s for no enum" % nm
        if nm.startswith("kwlist_"):
            if nm[7:] not in flag_targets:
                return "simpleType %s although no flags<%s> attribute exists" % (nm, nm[7:])
            lst = t.find(XS + "list")
            if lst is None or lst.get("itemType") != "kw_" + nm[7:]:
                return "%s is not a list of kw_%s" % (nm, nm[7:])
    for tgt in flag_targets:
        if "kwlist_" + tgt not in simple:
            return "flags<%s> is used but kwlist_%s is never defined" % (tgt, tgt)
    used_vectors = set()
    # (3) expected (element, projected) pairs reachable from mujoco
    todo, seen = [("mujoco", False)], []
    while todo:
        name, projected = todo.pop(0)
        if (name, projected) in seen:
            continue
        seen.append((name, projected))
        e = elements[name]
        tname = ("default_" + name) if projected else name
        t = ctypes.get(tname)
        if t is None:
            return "no complexType %s" % tname
        allkids = [m for m in e["members"] if m["k"] == "child"]
        kids = [m for m in allkids if not (projected and m["name"] == "plugin")]
        exp_tags = []
        for k in kids:
            target = elements[k["name"]]
            tag = target["xml"]
            if name == "mujoco" and k["name"] == "body":
                target, tag = elements["worldbody"], "worldbody"
            cp = projected or (name == "default" and not k["name"].startswith("default_") and k["name"] != "default")
            exp_tags.append((tag, ("default_" + target["name"]) if cp else target["name"]))
            todo.append((target["name"], cp))
        choice = t.find(XS + "choice")
        got = [(x.get("name"), x.get("type")) for x in choice.findall(XS + "element")] if choice is not None else []
        if got != (exp_tags + [("include", "include")] if exp_tags else []):
            return "children of %s are %r, expected %r" % (tname, got[:6], exp_tags[:6])
        # documentation: constraints (own and of all transitively used groups) and child cardinalities
        ann = t.find(XS + "annotation")
        docs = [x.text or "" for x in ann.findall(XS + "documentation")] if ann is not None else []
        got_cons = sorted(x.split(": ")[-1] for x in docs if x.startswith("constraint: "))
        exp_cons = sorted(", ".join("+".join(b) for b in c["bundles"]) for c in o_constraints(d, e))
        if got_cons != exp_cons:
            return "constraint annotations of %s are %r, expected %r" % (tname, got_cons[:4], exp_cons[:4])
        carddoc = [x for x in docs if x.startswith("children, with cardinality")]
        expcards = ", ".join("%s (%s)" % (m["name"], m["card"]) for m in allkids)
        if allkids and (len(carddoc) != 1 or not carddoc[0].endswith(": " + expcards)):
            return "cardinality annotation of %s is %r, expected ... %r" % (tname, carddoc[:1], expcards[:80])
        if not allkids and carddoc:
            return "cardinality annotation on childless %s" % tname
        attrs = proj_attrs(d, e, projected)
        xa = t.findall(XS + "attribute")
        if [x.get("name") for x in xa] != [a["name"] for a in attrs]:
            return "attributes of %s are %r, expected %r" % (tname, [x.get("name") for x in xa][:8], [a["name"] for a in attrs][:8])
        for x, a in zip(xa, attrs):
            _stat("generate_xsd", "attributes_checked")
            if (x.get("use") == "required") != a["required"]:
                return "%s.%s use=%r" % (tname, a["name"], x.get("use"))
            if x.get("default") != fmt_default(a):
                return "%s.%s default=%r expected %r" % (tname, a["name"], x.get("default"), fmt_default(a))
            ty = x.get("type")
            numeric_facets = [f for f in ("min", "max", "positive") if f in a["facets"]]
            exp = None
            inline = x.find(XS + "simpleType")
            if a["type"] == "bool":
                exp = "kw_bool"
            elif a["type"] == "enum":
                exp = "kw_" + a["target"]
            elif a["type"] == "flags":
                exp = "kwlist_" + a["target"]
            elif a["type"] in ("string", "file", "ref", "id"):
                exp = "xs:string"
            elif a["type"] == "chars":
                r = inline.find(XS + "restriction") if inline is not None else None
                if r is None or r.get("base") != "xs:string":
                    return "%s.%s chars without string restriction" % (tname, a["name"])
                fac = {y.tag[len(XS):]: y.get("value") for y in r}
                if "pattern" in a["facets"]:
                    want = {"pattern": str(a["facets"]["pattern"])}
                elif a["lo"] == a["hi"]:
                    want = {"length": str(a["hi"])}
                else:
                    want = {"minLength": str(a["lo"]), "maxLength": str(a["hi"])}
                if fac != want:
                    return "%s.%s chars facets %r expected %r" % (tname, a["name"], fac, want)
            elif a["type"] in ("int", "double", "float"):
                lo, hi = a["lo"], resolve_hi(a["hi"])
                if (lo, hi) == (1, 1):
                    if numeric_facets:
                        r = inline.find(XS + "restriction") if inline is not None else None
                        if r is None or r.get("base") != SCALAR_XS[a["type"]]:
                            return "%s.%s numeric facets without restriction of %s" % (tname, a["name"], SCALAR_XS[a["type"]])
                        fac = {y.tag[len(XS):]: y.get("value") for y in r}
                        want = {}
                        if "min" in a["facets"]:
                            want["minInclusive"] = fmt_num(float(a["facets"]["min"]))
                        if "max" in a["facets"]:
                            want["maxInclusive"] = fmt_num(float(a["facets"]["max"]))
                        if a["facets"].get("positive"):
                            want["minExclusive"] = "0"
                        if fac != want:
                            return "%s.%s numeric facets %r expected %r" % (tname, a["name"], fac, want)
                    else:
                        exp = SCALAR_XS[a["type"]]
                else:
                    if hi is None:
                        exp = a["type"] + "list"
                    elif lo == hi:
                        exp = "%s%s" % (a["type"], hi)
                    else:
                        exp = "%s%sto%s" % (a["type"], lo, hi)
                    used_vectors.add(exp)
                    if exp not in simple:
                        return "%s.%s: vector type %s is never defined" % (tname, a["name"], exp)
                    if not _vector_def_ok(simple[exp], a["type"], lo, hi):
                        return "vector type %s is not a list of %s with bounds %s..%s" % (exp, a["type"], lo, hi)
            if ty != exp:
                return "%s.%s type=%r expected %r" % (tname, a["name"], ty, exp)
            if exp is None and inline is None:
                return "%s.%s has neither type nor inline simpleType" % (tname, a["name"])
    extra = set(ctypes) - {("default_" + n) if p else n for n, p in seen} - {"include"}
    if extra:
        return "complexTypes for nothing in the schema: %r" % sorted(extra)[:5]
    other_simple = [n for n in simple if not n.startswith(("kw_", "kwlist_")) and n not in used_vectors]
    if other_simple:
        return "simpleTypes used by nothing in the schema: %r" % other_simple[:5]
    top = [x for x in root.findall(XS + "element")]
    if [(x.get("name"), x.get("type")) for x in top] != [("mujoco", "mujoco")]:
        return "top-level elements %r" % [(x.get("name"), x.get("type")) for x in top]
    _stat("generate_xsd", "complex_types_checked")
    return check_xsd_instances(d, text)


# ---- the XSD as a validator: it must compile, accept a legal document built from the schema and reject illegal ones
XMLLINT = None


def _find_xmllint():
    global XMLLINT
    if XMLLINT is None:
        import shutil
        XMLLINT = shutil.which("xmllint") or ("/root/miniconda/bin/xmllint" if os.path.exists("/root/miniconda/bin/xmllint") else "")
    return XMLLINT


def sample_value(d, a, bad=False):
    enums = {e["name"]: e for e in d["enums"]}
    t = a["type"]
    if t == "bool":
        return "maybe" if bad else "true"
    if t == "enum":
        return "no_such_keyword_" if bad else enums[a["target"]]["items"][0][0]
    if t == "flags":
        keys = [k for k, _ in enums[a["target"]]["items"]]
        return (keys[0] + " no_such_keyword_") if bad else " ".join(keys[:2])
    if t in ("string", "file", "ref", "id"):
        return "abc"
    if t == "chars":
        if "pattern" in a["facets"]:
            return None
        n = max(a["lo"], 1)
        return "x" * ((a["hi"] + 1) if bad else n)
    lo, hi = a["lo"], resolve_hi(a["hi"])
    f = a["facets"]
    v = 1.0
    if "min" in f:
        v = max(v, float(f["min"]))
    if "max" in f and v > float(f["max"]):
        v = float(f["max"])
    if f.get("positive") and v <= 0:
        return None
    one = str(int(v)) if t == "int" or v == int(v) else repr(v)
    if bad:
        if (lo, hi) == (1, 1):
            return "notanumber"
        if hi is None:
            return None if lo <= 1 else " ".join([one] * (lo - 1))
        return " ".join([one] * (hi + 1))
    n = 1 if (lo, hi) == (1, 1) else (lo if lo > 0 else 1)
    return " ".join([one] * n)


def build_instance(d, mutate=None):
    """a legal MJCF document of the schema: every element once (depth-limited), every attribute that has a simple sample value.
    mutate: None | ('attr', element, attr name) bad value | ('unknown_attr', element) | ('unknown_child', element) | ('missing', element, attr)"""
    from xml.sax.saxutils import quoteattr
    elements = {e["name"]: e for e in d["elements"]}
    out = []
    state = {"done": False}

    def emit(e, tag, projected, depth, path):
        attrs = proj_attrs(d, e, projected)
        parts = ["<" + tag]
        hit = mutate and not state["done"] and mutate[1] == (e["name"], projected)
        for a in attrs:
            if hit and mutate[0] == "missing" and a["name"] == mutate[2]:
                state["done"] = True
                continue
            bad = bool(hit and mutate[0] == "attr" and a["name"] == mutate[2])
            v = sample_value(d, a, bad=bad)
            if bad:
                state["done"] = True
            if v is None:
                if a["required"]:
                    raise ValueError("no sample value for required attribute")
                continue
            parts.append("%s=%s" % (a["name"], quoteattr(v)))
        if hit and mutate[0] == "unknown_attr":
            parts.append('zz_not_in_schema="1"')
            state["done"] = True
        kids = [m for m in e["members"] if m["k"] == "child" and not (projected and m["name"] == "plugin")]
        inner = []
        if hit and mutate[0] == "unknown_child":
            inner.append("<zz_not_in_schema/>")
            state["done"] = True
        for k in kids:
            target, ctag = elements[k["name"]], elements[k["name"]]["xml"]
            if e["name"] == "mujoco" and k["name"] == "body":
                if "worldbody" not in elements:
                    continue
                target, ctag = elements["worldbody"], "worldbody"
            cp = projected or (e["name"] == "default" and not k["name"].startswith("default_") and k["name"] != "default")
            if depth >= 4 or path.count(target["name"]) >= 2:
                continue
            inner.append(emit(target, ctag, cp, depth + 1, path + [target["name"]]))
        if inner:
            return " ".join(parts) + ">" + "".join(inner) + "</" + tag + ">"
        return " ".join(parts) + "/>"
    body = emit(elements["mujoco"], "mujoco", False, 0, ["mujoco"])
    if mutate and not state["done"]:
        return None
    return '<?xml version="1.0"?>\n' + body + "\n"


XSD_COUNTER = [0]


def check_xsd_instances(d, text):
    exe = _find_xmllint()
    if not exe:
        _stat("generate_xsd", "xmllint_missing")
        return None
    XSD_COUNTER[0] += 1
    work = os.path.join(SCRATCH_DIR[0], "xsd_%d" % XSD_COUNTER[0])
    os.makedirs(work, exist_ok=True)
    xsd = os.path.join(work, "s.xsd")
    with open(xsd, "w", encoding="utf-8") as f:
        f.write(text)
    # two children of one parent spelled with the same XML tag (xml= facet collision) make the content model ambiguous for any
    # validator: then only compile the schema
    elements_ = {e["name"]: e for e in d["elements"]}
    ambiguous = False
    for e in d["elements"]:
        tags = [("worldbody" if (e["name"] == "mujoco" and m["name"] == "body") else elements_[m["name"]]["xml"])
                for m in e["members"] if m["k"] == "child"]
        if len(tags) != len(set(tags)) or "include" in tags:
            ambiguous = True
    try:
        good = None if ambiguous else build_instance(d)
    except ValueError:
        good = None
    if ambiguous:
        _stat("generate_xsd", "same_tag_siblings_compile_only")
    docs = []
    if good:
        docs.append(("legal", "accept", good, None))
    # illegal documents: reachable (element, projected) pairs, one mutation each
    elements = {e["name"]: e for e in d["elements"]}
    reach = []
    todo = [("mujoco", False, 0)]
    while todo:
        name, projected, depth = todo.pop(0)
        if (name, projected) in reach or depth > 4:
            continue
        reach.append((name, projected))
        for m in elements[name]["members"]:
            if m["k"] == "child" and not (projected and m["name"] == "plugin") and not (name == "mujoco" and m["name"] == "body"):
                cp = projected or (name == "default" and not m["name"].startswith("default_") and m["name"] != "default")
                todo.append((m["name"], cp, depth + 1))
    muts = [("unknown_attr", ("mujoco", False)), ("unknown_child", ("mujoco", False))]
    per_kind = {}
    for (name, projected) in reach:
        for a in proj_attrs(d, elements[name], projected):
            kind = a["type"] if a["type"] in ("enum", "flags", "bool", "chars") else ("vec" if (a["lo"], a["hi"]) != (1, 1) and a["type"] in ("int", "double", "float") else
                                                                                     ("num" if a["type"] in ("int", "double", "float") else None))
            if kind and per_kind.get(kind, 0) < 2 and sample_value(d, a, bad=True) is not None:
                per_kind[kind] = per_kind.get(kind, 0) + 1
                muts.append(("attr", (name, projected), a["name"]))
            if a["required"] and per_kind.get("missing", 0) < 1:
                per_kind["missing"] = 1
                muts.append(("missing", (name, projected), a["name"]))
    if good:
        for mu in muts:
            try:
                doc = build_instance(d, mutate=mu)
            except ValueError:
                doc = None
            if doc and doc != good:
                docs.append(("illegal:%s" % (mu,), "reject", doc, mu))
    paths = []
    for i, (label, want, doc, mu) in enumerate(docs):
        pth = os.path.join(work, "d%d.xml" % i)
        with open(pth, "w", encoding="utf-8") as f:
            f.write(doc)
        paths.append(pth)
    if not paths:   # still compile the schema: validate a trivial document
        pth = os.path.join(work, "d0.xml")
        with open(pth, "w") as f:
            f.write("<mujoco/>\n")
        paths.append(pth)
        docs.append(("compile-only", "any", "<mujoco/>", None))
    r = subprocess.run([exe, "--noout", "--schema", xsd] + paths, capture_output=True, text=True, timeout=300)
    err = r.stderr
    if "failed to compile" in err or "Schemas parser error" in err:
        line = [l for l in err.split("\n") if "parser error" in l][:1]
        return "the generated XSD is not a valid XML Schema: %s" % (line[0][-300:] if line else err[-300:])
    for pth, (label, want, doc, mu) in zip(paths, docs):
        ok = (pth + " validates") in err
        bad = (pth + " fails to validate") in err
        _stat("generate_xsd", "instance_documents_validated")
        if want == "accept" and not ok:
            why = [l for l in err.split("\n") if l.startswith(pth) and "error" in l][:1]
            return "the XSD rejects a legal document of the schema: %s" % (why[0][len(pth):][:300] if why else "?")
        if want == "reject" and not bad:
            return "the XSD accepts an illegal document (%s)" % label
    return None


SCRATCH_DIR = ["/verif/build/scratch/C42"]


def check_dmcontrol(d, text):
    import xml.etree.ElementTree as ET
    root = ET.fromstring(text)
    elements = {e["name"]: e for e in d["elements"]}
    enums = {e["name"]: e for e in d["enums"]}
    excl = set(CONSTS["EXCLUDED_ELEMENTS"])
    exclc = set(tuple(x) for x in CONSTS["EXCLUDED_CHILDREN"])
    idov = set(tuple(x) for x in CONSTS["IDENTIFIER_OVERRIDES"])

    ctxns = {tuple(k): v for k, v in CONSTS["CONTEXT_NAMESPACE"]}
    singles = set(tuple(x) for x in CONSTS["SINGLETONS"])

    def walk(node, e, tag, projected, parent, depth, card="!"):
        if depth > 60:
            return "too deep"
        # element flags: identifier namespace (from the EXPANDED attributes), repetition, on-demand construction
        if (parent, e["name"]) in ctxns:
            ns = ctxns[(parent, e["name"])]
        elif e["name"] in CONSTS["NAMESPACE_OVERRIDES"]:
            ns = CONSTS["NAMESPACE_OVERRIDES"][e["name"]]
        else:
            ns = None
            for a in o_expand(d, e["members"]):
                if a["type"] == "id" or (e["name"], a["name"]) in idov:
                    ns = a["target"] if a["type"] == "id" else e["name"]
                    break
        if node.get("namespace") != (ns if (ns and ns != tag) else None):
            return "%s/%s namespace=%r, expected %r" % (parent, tag, node.get("namespace"), ns if (ns and ns != tag) else None)
        topd = e["name"] == "default" and parent == "mujoco"
        if (node.get("repeated") == "true") != (card in ("*", "R") and not topd and (parent, tag) not in singles):
            return "%s/%s (card %s) repeated=%r" % (parent, tag, card, node.get("repeated"))
        if (node.get("on_demand") == "true") != (e["name"] in CONSTS["ON_DEMAND"]):
            return "%s/%s on_demand=%r" % (parent, tag, node.get("on_demand"))
        if node.tag != "element" or node.get("name") != tag:
            return "element %r where %r expected under %s" % (node.get("name"), tag, parent)
        attrs = proj_attrs(d, e, projected)
        names = set(a["name"] for a in attrs)
        an = node.find("attributes")
        xa = list(an) if an is not None else []
        if [x.get("name") for x in xa] != [a["name"] for a in attrs]:
            return "attributes of %s/%s are %r, expected %r" % (parent, tag, [x.get("name") for x in xa][:8], [a["name"] for a in attrs][:8])
        for x, a in zip(xa, attrs):
            _stat("generate_dmcontrol", "attributes_checked")
            if (x.get("required") == "true") != a["required"]:
                return "%s.%s required=%r" % (tag, a["name"], x.get("required"))
            if x.get("default") != fmt_default(a):
                return "%s.%s default=%r expected %r" % (tag, a["name"], x.get("default"), fmt_default(a))
            special = ((a["name"] == "objname" and "objtype" in names) or (a["name"] == "refname" and "reftype" in names)
                       or (e["name"], a["name"]) in idov or (e["name"] == "mujoco" and a["name"] == "model")
                       or (a["name"] in CONSTS["BASEPATHS"] and e["name"] == "compiler"))
            if special:
                continue
            ty = x.get("type")
            if a["type"] == "enum":
                ok = ty == "keyword" and x.get("valid_values") == " ".join(k for k, _ in enums[a["target"]]["items"])
            elif a["type"] == "bool":
                ok = ty == "keyword" and x.get("valid_values") == "false true"
            elif a["type"] == "file":
                ok = ty == "file" and x.get("path_namespace") == CONSTS["FILE_NS"].get(e["name"])
            elif a["type"] == "id":
                ok = ty == "identifier"
            elif a["type"] == "ref":
                ok = ty == "reference" and x.get("reference_namespace") == CONSTS["REF_NS_MAP"].get(a["target"], a["target"])
            elif a["type"] in ("string", "chars", "flags"):
                ok = ty == "string"
            else:
                base = "int" if a["type"] == "int" else "float"
                lo, hi = a["lo"], resolve_hi(a["hi"])
                if (lo, hi) == (1, 1):
                    ok = ty == base
                else:
                    ok = ty == "array" and x.get("array_type") == base and x.get("array_size") == (str(hi) if hi is not None else None)
            if not ok:
                return "%s.%s typed %r" % (tag, a["name"], dict(x.attrib))
        top_default = e["name"] == "default" and parent == "mujoco"
        self_rec = any(m["k"] == "child" and m["name"] == e["name"] for m in e["members"])
        if (node.get("recursive") == "true") != (self_rec and not top_default):
            return "%s/%s recursive=%r" % (parent, tag, node.get("recursive"))
        exp = []
        for m in e["members"]:
            if m["k"] != "child":
                continue
            if m["name"] == e["name"]:
                if top_default:
                    exp.append((e, tag, projected, m["card"]))
                continue
            target, ctag = elements[m["name"]], elements[m["name"]]["xml"]
            if e["name"] == "mujoco" and m["name"] == "body":
                target, ctag = elements["worldbody"], "worldbody"
            if target["name"] in excl or (e["name"], target["name"]) in exclc:
                continue
            if projected and m["name"] == "plugin":
                continue
            cp = projected or (e["name"] == "default" and not m["name"].startswith("default_") and m["name"] != "default")
            exp.append((target, ctag, cp, m["card"]))
        cn = node.find("children")
        xc = list(cn) if cn is not None else []
        if len(xc) != len(exp):
            return "children of %s/%s are %r, expected %r" % (parent, tag, [x.get("name") for x in xc][:8], [t[1] for t in exp][:8])
        for x, (target, ctag, cp, ccard) in zip(xc, exp):
            why = walk(x, target, ctag, cp, e["name"], depth + 1, ccard)
            if why:
                return why
        _stat("generate_dmcontrol", "elements_checked")
        return None
    return walk(root, elements["mujoco"], "mujoco", False, None, 0)


def check_read_table(d, text):
    elements = {e["name"]: e for e in d["elements"]}
    groups = {g["name"]: g for g in d["groups"]}
    arrays = {}
    for m in re.finditer(r"inline constexpr mjXAttr (\w+)\[\] = \{\n(.*?)\n?\};\n", text, re.S):
        rows = []
        for line in m.group(2).split("\n"):
            if line.strip():
                mm = re.fullmatch(r"  \{(.*)\},", line)
                if not mm:
                    return "unparsed row %r" % line
                rows.append([x.strip() for x in re.split(r", (?![^()]*\))", mm.group(1))])
        arrays[m.group(1)] = rows
    ntd = set(CONSTS["NOT_TABLE_DRIVEN"])
    expected_arrays = {}
    for e in d["elements"]:
        attrs = o_expand(d, e["members"])
        if e["spec"] and any("reading" not in a["facets"] for a in attrs) and e["name"] not in ntd:
            expected_arrays["k%sAttrs" % e["name"].capitalize()] = e
    for gname, (struct, arr) in CONSTS["EMIT_GROUPS"].items():
        expected_arrays[arr] = None
    if set(arrays) != set(expected_arrays):
        return "row arrays %r" % sorted(set(arrays) ^ set(expected_arrays))[:6]
    for arr, e in expected_arrays.items():
        if e is None:
            continue
        hand = set()
        for g in CONSTS["HAND_GROUPS"]:
            if any(m["k"] == "use" and m["group"] == g for m in e["members"]):
                hand |= {m["name"] for m in groups[g]["members"] if m["k"] == "attr"}
        exp = [("const", m) for m in e["members"] if m["k"] == "const"]
        for a in o_expand(d, e["members"]):
            if a["name"] in hand or "reading" in a["facets"]:
                continue
            if a["type"] == "ref" and a["target"] == "default":
                continue
            if a["type"] == "file":
                continue
            exp.append(("attr", a))
        rows = arrays[arr]
        if len(rows) != len(exp):
            return "%s has %d rows, expected %d" % (arr, len(rows), len(exp))
        for row, (k, a) in zip(rows, exp):
            _stat("generate_read_table", "rows_checked")
            if k == "const":
                if row[0] != "nullptr" or row[1] != "mjXAttr::kConst" or row[-1] != a["value"] or ", %s)" % a["field"] not in row[7] + ")":
                    return "%s const row %r for set %s = %s" % (arr, row, a["field"], a["value"])
                continue
            if row[0] != '"%s"' % a["name"]:
                return "%s row %r where attribute %s expected" % (arr, row[0], a["name"])
            kind = row[1].replace("mjXAttr::", "")
            if a["type"] == "id" and a["name"] == "name":
                if kind != "kName":
                    return "%s.name kind %s" % (arr, kind)
                continue
            flags_ = (row[4], row[5], row[6])
            expf = tuple("true" if x else "false" for x in (a["required"], a["nodefault"], bool(a["facets"].get("writing"))))
            if flags_ != expf:
                return "%s.%s required/nodefault/handwrite %r expected %r" % (arr, a["name"], flags_, expf)
            field = a["facets"].get("field", a["name"])
            if not re.search(r"offsetof\(%s, (\w+\.)?%s\)" % (re.escape(e["spec"]), re.escape(str(field))), row[7]):
                return "%s.%s offset %r" % (arr, a["name"], row[7])
            t = a["type"]
            okk = {"string": ("kString", "kStringVec"), "ref": ("kString", "kStringVec"), "id": ("kString", "kStringVec"),
                   "enum": ("kEnum", "kEnumByte"), "flags": ("kFlags",), "bool": ("kBool", "kEnum"), "chars": ("kChars",),
                   "int": ("kInt", "kIntVec"), "double": ("kDouble", "kNum", "kDoubleVec"), "float": ("kFloat", "kNum", "kDouble", "kFloatVec")}[t]
            if kind not in okk:
                return "%s.%s of type %s has kind %s" % (arr, a["name"], t, kind)
            if t in ("enum", "flags") and row[8:] != ["%s_map" % a["target"], "%s_sz" % a["target"]]:
                return "%s.%s map %r" % (arr, a["name"], row[8:])
            if t in ("int", "double", "float") and a["hi"] is not None and not kind.endswith("Vec"):
                if row[2] != str(a["hi"]) and not re.search(r"[A-Za-z]", row[2]):
                    return "%s.%s length %s for arity %s" % (arr, a["name"], row[2], a["hi"])
                if row[3] != ("true" if a["lo"] == a["hi"] else "false"):
                    return "%s.%s exact %s" % (arr, a["name"], row[3])
    disp = re.findall(r'^  \{"([^"]*)", (\w+), (\w+)N\},$', text, re.M)
    if [(elements[n]["xml"], "k%sAttrs" % n.capitalize()) for n in CONSTS["SENSOR_DISPATCH"]] != [(a, b) for a, b, _ in disp]:
        return "sensor dispatch table differs"
    return None


def check_default_table(d, text):
    enums = {e["name"]: dict(e["items"]) for e in d["enums"]}
    tables = {}
    for m in re.finditer(r"static const mjXDefaultEntry (\w+)\[\] = \{\n(.*?)\n\};\n", text, re.S):
        rows = []
        for line in m.group(2).split("\n"):
            mm = re.fullmatch(r'  \{"([^"]*)", \(int\)offsetof\((\w+), ([\w.]+)\), (\d+), ([\w+]+), (\d+), (\d+), \{(.*)\}\},', line)
            if not mm:
                return "unparsed row %r" % line
            rows.append(mm.groups())
        tables[m.group(1)] = rows
    # candidates: (table key, field) -> list of schema attributes bound to it
    cand = {}
    for e in d["elements"]:
        if not e["spec"]:
            continue
        sub = e["facets"].get("field")
        key = "kDefaults_" + (("%s_%s" % (e["spec"], sub)) if sub else e["spec"])
        for a in o_expand(d, e["members"]):
            if a["type"] in ("string", "file", "chars", "ref", "id", "flags"):
                continue
            field = (("%s." % sub) if sub else "") + str(a["facets"].get("field", a["name"]))
            cand.setdefault((key, field), []).append(a)
    for key, rows in tables.items():
        for (attr, spec, field, kind, length, ndecl, unset, vals) in rows:
            _stat("generate_default_table", "rows_checked")
            cs_ = cand.get((key, field))
            if not cs_:
                return "%s row %s (%s.%s) is bound to no schema attribute" % (key, attr, spec, field)
            if attr not in [a["name"] for a in cs_]:
                return "%s row names %s, schema attributes of the field are %r" % (key, attr, [a["name"] for a in cs_])
            ok = False
            for a in cs_:
                dflt = a["default"]
                if dflt is None:
                    exp = (0, ["0"])
                elif a["type"] == "enum":
                    exp = (1, ["(double)%s" % enums[a["target"]][dflt]])
                elif a["type"] == "bool":
                    exp = (1, ["1" if dflt == "true" else "0"])
                else:
                    vs = dflt if isinstance(dflt, list) else [dflt]
                    exp = (len(vs), [repr(float(v)) for v in vs])
                if int(ndecl) == exp[0] and [v.strip() for v in vals.split(",")] == exp[1]:
                    ok = True
            if not ok:
                return "%s row %s declares %s values {%s}, schema defaults are %r" % (key, attr, ndecl, vals, [a["default"] for a in cs_])
    # every declared numeric default of a bound element is in its table, unless custom-read
    for (key, field), as_ in cand.items():
        for a in as_:
            if a["default"] is not None and "reading" not in a["facets"] and a["hi"] is not None:
                if key in tables and not any(r[2] == field for r in tables[key]):
                    return "declared default of %s (%s) has no row in %s" % (a["name"], field, key)
    return None


def check_other(gname, d, o, kind):
    real = kind == "checked-in"
    if "error" in o:
        if real:
            return "exception %r on the checked-in schema" % o
        _stat(gname, "not_applicable_" + o["error"])     # the generator assumes facts about the real schema (element names, headers)
        return None
    try:
        if gname == "generate_xsd":
            why = check_xsd(d, o["text"])
        elif gname == "generate_dmcontrol":
            why = check_dmcontrol(d, o["text"])
        elif gname == "generate_read_table":
            why = check_read_table(d, o["text"]) if real else None
        else:
            why = check_default_table(d, o["text"]) if real else None
    except Exception as e:   # the oracle could not read the text back
        import traceback
        why = "parse-back failed: %s %s" % (type(e).__name__, traceback.format_exc()[-300:])
    _stat(gname, "texts_checked")
    return why
