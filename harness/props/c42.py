"""C42 — Schema generators faithfully translate any valid schema."""
import json, os, re, subprocess
import framework as F

META = {
    "id": "C42", "category": "proof", "design_ref": "DESIGN.md section 4, C42; section 7 item 10",
    "technique": "Coq proof (induction over fuel / the child tree) of a hand-written model of generate_mjcf_table.py and "
                 "generate_mjcf_map.py from the parsed schema + exact text correspondence on generated valid schemas and on the "
                 "checked-in schema + parse-back oracles for the other four generators",
    "text": "CLAIMED FOR TWO OF THE SIX GENERATORS ONLY: the element table (generate_mjcf_table.py) and the keyword map "
            "(generate_mjcf_map.py). PROVED of the Coq model Model/GenTables.v, which starts from the PARSED schema object (canonical dump of "
            "mjcf_schema.Schema; the parser is C41's subject): C42_table_faithful - for EVERY valid schema (Model valid = the structural rules of "
            "_validate: unique names, declared children/uses, no duplicate children or expanded attributes, no use cycle, and no child cycle through "
            "distinct non-alias elements) that declares mujoco, the generator terminates and the entry sequence equals the pre-order traversal of the "
            "child tree (relational spec is_ctree: node attributes = use-expansion gexp in declaration order, subtrees = exactly the children that get "
            "rows - not the element itself, not alias elements, not plugin in default context - with declared cardinality and default-context flag); "
            "C42_rows_content - each row is {tag, cardinality, expanded attribute names minus name/class/nodefault in default context}; list equality, "
            "so nothing else is emitted; C42_expansion_functional; C42_map_faithful - map items are exactly the (keyword, constant) pairs of every enum "
            "in order, with one head and one size row (item count) per enum. Determinism is definitional in the model and observed on the "
            "implementation by a second run. NOT proved (tied by exact text comparison only): the rendering of rows to text (_wrap_row line wrapping, "
            "indentation, padding) and the constraint table (row indices, surviving bundles) - both are modelled and compared exactly, and checked by "
            "an independent parse-back oracle. The child-cycle rule is in valid because this check found that a schema accepted by _validate with a "
            "child cycle through two distinct elements made generate_mjcf_table.visit recurse without bound (repaired in /repo by "
            "_check_child_cycles; the revert is a mutant). A valid schema without a mujoco element makes generate() raise KeyError: the theorem assumes "
            "the root is declared. Tie: exact text equality python vs model (inside Coq) on the checked-in mjcf.schema, and on grammar-generated schema "
            "texts accepted by the working tree's parser; model valid is also compared with the validator's verdict (accepted => valid; rejected for a "
            "modelled reason => not valid). The checked-in src/xml/generated/* files are compared with the generators' output. XSD, read table, default "
            "table and dm_control generators are NOT modelled: harness parse-back oracles (support only) read their output back and compare element "
            "sets, children, expanded attribute names/order, types, required, defaults, enum keywords, table rows; on generated schemas these "
            "generators often refuse (they assume element names and C headers of the real schema) and are then counted not-applicable.",
    "note": "Trusted: Coq kernel; hand-written model Model/GenTables.v (starts from a canonical dump of the parsed "
            "mjcf_schema.Schema object, dicts as association lists, KeyError/RecursionError as None); the dump code of the "
            "driver; correspondence harness.",
    "assumptions": ["model starts from the parsed schema object, not from schema text (the parser is C41's subject)",
                    "tie of model to python code is differential testing on the cases of this run",
                    "XSD / read table / default table / dm_control generators: parse-back oracles only (support), not modelled"],
}

HERE = os.path.dirname(os.path.abspath(__file__))
DRIVER = os.path.join(os.path.dirname(HERE), "drivers", "c42_gen.py")
PY = "/venv/bin/python"


# ------------------------------------------------------------------ Coq literals
def cs(x):
    return '"' + str(x).replace('"', '""') + '"'


def cb(b):
    return "true" if b else "false"


def clist(xs):
    return "[" + "; ".join(xs) + "]"


def coq_member(m):
    k = m["k"]
    if k == "attr":
        return "MAttr (mkAttr %s %s %s %s %s %s %s)" % (cs(m["name"]), cs(m["type"]), cs(m["target"] or ""), cs("%s..%s" % (m["lo"], m["hi"])),
                                                         cs("" if m["default"] is None else json.dumps(m["default"])), cb(m["nodefault"]), cb(m["required"]))
    if k == "use":
        return "MUse %s" % cs(m["group"])
    if k == "child":
        return "MChild %s %s" % (cs(m["name"]), cs(m["card"]))
    if k == "con":
        return "MCon %s %s" % (cs(m["kind"]), clist(clist(cs(n) for n in b) for b in m["bundles"]))
    return "MConst"


def coq_schema(d):
    enums = clist("mkEnum %s %s" % (cs(e["name"]), clist("(%s, %s)" % (cs(k), cs(v)) for k, v in e["items"])) for e in d["enums"])
    groups = clist("mkGroup %s %s" % (cs(g["name"]), clist(coq_member(m) for m in g["members"])) for g in d["groups"])
    elements = clist("mkElement %s %s %s %s" % (cs(e["name"]), cs(e["xml"]), cb(e["alias"]), clist(coq_member(m) for m in e["members"]))
                     for e in d["elements"])
    return "(mkSchema %s %s %s)" % (enums, groups, elements)


PRE = ("Definition lines_eqb := list_eqb String.eqb.\n"
       "Definition olines_eqb (a b : option (list string)) : bool := match a, b with Some x, Some y => lines_eqb x y | None, None => true | _, _ => false end.\n"
       "Definition chk (c : schema * option (list string) * string) : bool :=\n"
       "  match c with (s, tl, mt) => olines_eqb (table_lines s) tl && String.eqb (map_text s) mt && valid s end.\n")
IMPORTS = "From Coq Require Import String Bool.\nFrom MJV Require Import Lib.Eqb Model.GenTables.\nOpen Scope string_scope.\n"



# ------------------------------------------------------------------ generator of schema texts (grammar-based)
WORDS = ["pos", "quat", "size", "rgba", "mass", "friction", "solref", "solimp", "margin", "gap", "group", "priority", "condim",
         "contype", "conaffinity", "material", "fromto", "axisangle", "xyaxes", "zaxis", "euler", "range", "limited", "damping",
         "stiffness", "armature", "frictionloss", "springref", "inertiagrouprange", "actuatorgroupdisable", "ls_iterations",
         "noslip_tolerance", "a", "b", "x", "kp", "kv", "user", "childclass", "mocap", "gravcomp", "sleep", "very_long_attribute_name_for_wrap"]
CARDS = ["?", "!", "*", "R"]


class SchemaGen:
    def __init__(self, rng, cyclic=False, big=False):
        self.rng, self.cyclic, self.big = rng, cyclic, big
        self.counter = 0

    def aname(self):
        self.counter += 1
        w = self.rng.choice(WORDS)
        return w if self.rng.random() < 0.25 and w not in self.used else "%s%d" % (w, self.counter)

    def attr(self, names, enums, idns):
        rng = self.rng
        n = self.aname()
        while n in self.used:
            n = self.aname()
        self.used.add(n)
        names.append(n)
        kinds = ["int", "double", "vec", "string", "bool", "file", "chars", "float", "uvec", "rvec"]
        if enums:
            kinds += ["enum", "enum", "flags"]
        kinds += ["id"]
        if idns:
            kinds += ["ref"]
        k = rng.choice(kinds)
        facets = []
        default = ""
        if k == "int":
            t = "int"
            if rng.random() < 0.5:
                default = " = %d" % rng.randrange(-5, 50)
            if rng.random() < 0.2:
                facets.append("min=0")
        elif k in ("double", "float"):
            t = k
            if rng.random() < 0.5:
                default = " = %s" % rng.choice(["0", "1", "0.5", "-1", "1e-3", "2.5"])
            if rng.random() < 0.15:
                facets.append("positive")
        elif k == "vec":
            m = rng.randrange(2, 6)
            t = "double[%d]" % m
            if rng.random() < 0.5:
                default = " = {%s}" % ", ".join(rng.choice(["0", "1", "0.5"]) for _ in range(m))
        elif k == "uvec":
            t = rng.choice(["double[]", "int[]", "float[]"])
        elif k == "rvec":
            t = "double[1..%d]" % rng.randrange(2, 6)
        elif k == "string":
            t = "string"
            if rng.random() < 0.3:
                default = ' = "%s"' % rng.choice(["abc", "x y", ""])
        elif k == "bool":
            t = "bool"
            if rng.random() < 0.5:
                default = " = " + rng.choice(["true", "false"])
        elif k == "file":
            t = "file"
        elif k == "chars":
            t = rng.choice(["chars[8]", "chars[1..12]"])
        elif k == "enum":
            e = rng.choice(enums)
            t = "enum<%s>" % e[0]
            if rng.random() < 0.5:
                key = rng.choice(e[1])
                default = (" = %s" % key) if re.fullmatch(r"[A-Za-z_]\w*", key) else (' = "%s"' % key)
        elif k == "flags":
            t = "flags<%s>" % rng.choice(enums)[0]
        elif k == "id":
            ns = rng.choice(["body", "geom", "site", "ns%d" % rng.randrange(3)])
            idns.add(ns)
            t = "id<%s>" % ns
        else:
            t = "ref<%s>" % rng.choice(sorted(idns))
        if not default and rng.random() < 0.15:
            facets.append("required")
        if rng.random() < 0.2:
            facets.append("nodefault")
        if rng.random() < 0.1:
            facets.append("field=f_%s" % n)
        f = (" (%s)" % ", ".join(facets)) if facets else ""
        return "  %s : %s%s%s" % (n, t, default, f)

    def constraint(self, names):
        rng = self.rng
        if len(names) < 2:
            return None
        kind = rng.choice(["exclusive", "together", "requires", "oneof"])
        if kind == "requires":
            a, b = rng.sample(names, 2)
            return "  requires %s %s" % (a, b)
        nb = rng.randrange(2, min(4, len(names)) + 1)
        picks = rng.sample(names, min(len(names), nb + rng.randrange(0, 2)))
        bundles = [[p] for p in picks[:nb]]
        for extra in picks[nb:]:
            rng.choice(bundles).append(extra)
        return "  %s %s" % (kind, " ".join("+".join(b) for b in bundles))

    def text(self):
        rng = self.rng
        self.used = set()
        out = []
        enums = []
        for i in range(rng.randrange(0, 4)):
            keys = []
            for j in range(rng.randrange(1, 6)):
                key = rng.choice(["none", "local", "global", "2d", "cube", "a-b", "x", "k%d" % j, "longkeyword_%d" % j])
                if key not in keys:
                    keys.append(key)
            enums.append(("en%d" % i, keys))
            ctype = rng.choice(["", " : mjtFoo%d" % i])
            items = "\n".join("  %s = %s" % (k if re.fullmatch(r"[A-Za-z_]\w*", k) else '"%s"' % k,
                                             rng.choice(["mjX_%d" % j, str(j), "-1"])) for j, k in enumerate(keys))
            out.append("enum en%d%s {\n%s\n}" % (i, ctype, items))
        idns = set()
        groups = []  # (name, attr names incl. used groups' names, direct names)
        ng = rng.randrange(0, 6 if self.big else 4)
        for i in range(ng):
            lines, names = [], []
            variant = rng.random() < 0.2
            allnames = []
            members = []
            for _ in range(rng.randrange(1, 6)):
                members.append("attr")
            if not variant and groups and rng.random() < 0.6:
                for g in rng.sample(groups, rng.randrange(1, min(2, len(groups)) + 1)):
                    members.append(("use", g))
            rng.shuffle(members)
            usednames = []
            for m in members:
                if m == "attr":
                    a = self.attr(names, enums, idns)
                    if variant:
                        a = a.replace("required, ", "").replace(", required", "").replace(" (required)", "")
                    lines.append(a)
                else:
                    lines.append("  use %s" % m[1][0])
                    usednames += m[1][1]
            if rng.random() < 0.5:
                c = self.constraint(names)
                if c:
                    lines.insert(rng.randrange(len(lines) + 1), c)
            groups.append(("g%d" % i, names + usednames))
            out.append("group g%d%s {\n%s\n}" % (i, " variant" if variant else "", "\n".join(lines)))
        ne = rng.randrange(1, 12 if self.big else 7)
        enames = ["mujoco"]
        specials = ["default", "default_a", "plugin", "body", "frame", "worldbody", "geom", "joint"]
        for i in range(ne):
            nm = rng.choice(specials) if rng.random() < 0.4 else "el%d" % i
            if nm not in enames:
                enames.append(nm)
        aliases = {}
        for nm in enames[1:]:
            if rng.random() < 0.15:
                aliases[nm] = rng.choice(enames)
        body = []
        for idx, nm in enumerate(enames):
            lines, names = [], []
            usednames = []
            members = ["attr"] * rng.randrange(0, 30 if (self.big and rng.random() < 0.3) else 7)
            usedg = []
            if groups and rng.random() < 0.6:
                for g in rng.sample(groups, rng.randrange(1, min(3, len(groups)) + 1)):
                    members.append(("use", g))
            later = enames[idx + 1:]
            kids = []
            if later:
                kids = rng.sample(later, rng.randrange(0, min(4, len(later)) + 1))
            if idx == 0 and len(enames) > 1 and not kids:
                kids = [enames[1]]
            if rng.random() < 0.2:
                kids.append(nm)                      # self recursion
            if self.cyclic and idx > 0 and rng.random() < 0.5:
                kids.append(rng.choice(enames[1:idx + 1]))   # back edge (may also be a self edge)
            seen = set()
            for kname in kids:
                if kname in seen:
                    continue
                seen.add(kname)
                members.append(("child", kname))
            if rng.random() < 0.2:
                members.append("set")
            rng.shuffle(members)
            if rng.random() < 0.25:
                members.insert(rng.randrange(len(members) + 1), "name")
            if rng.random() < 0.2:
                members.insert(rng.randrange(len(members) + 1), "class")
            for m in members:
                if m == "attr":
                    lines.append(self.attr(names, enums, idns))
                elif m == "name":
                    if "name" not in names:
                        names.append("name")
                        lines.append("  name : string" + rng.choice(["", " (nodefault)"]))
                elif m == "class":
                    if "class" not in names:
                        names.append("class")
                        lines.append("  class : string")
                elif m == "set":
                    lines.append("  set type = mjSENS_FOO")
                elif m[0] == "use":
                    lines.append("  use %s" % m[1][0])
                    usednames += m[1][1]
                else:
                    lines.append("  child %s %s" % (m[1], "R" if m[1] == nm else rng.choice(CARDS[:3])))
            for _ in range(rng.randrange(0, 3)):
                c = self.constraint(names + usednames)
                if c:
                    lines.insert(rng.randrange(len(lines) + 1), c)
            facets = []
            if nm in aliases:
                facets.append("alias=%s" % aliases[nm])
            if rng.random() < 0.2:
                facets.append("xml=%s" % rng.choice(["joint", "plugin", "tag%d" % idx, '"my-tag"']))
            if rng.random() < 0.1:
                facets.append("field=sub")
            spec = rng.choice(["", " : mjsFoo%d" % idx])
            out.append("element %s%s%s {\n%s\n}" % (nm, spec, (" (%s)" % ", ".join(facets)) if facets else "", "\n".join(lines)))
        rng.shuffle(out)   # declaration order is free in the language
        return "\n\n".join(out) + "\n"


DEFECTS = [
    "element zz1 {\n  child nosuch ?\n}\n",
    "group gz1 {\n  use gz2\n}\ngroup gz2 {\n  q9 : int\n  use gz1\n}\n",
    "element zz2 {\n  use nosuchgroup\n}\n",
    "element zdup {\n}\nelement zz3 {\n  child zdup ?\n  child zdup *\n}\n",
    "element zc1 {\n  child zc2 ?\n}\nelement zc2 {\n  child zc1 *\n}\n",
    "element zc3 {\n  child zc4 ?\n}\nelement zc4 {\n  child zc5 *\n}\nelement zc5 {\n  w : int\n  child zc3 !\n}\n",
    "group gd1 {\n  dupattr : int\n}\nelement zz4 {\n  dupattr : double\n  use gd1\n}\n",
]
MODELLED_REJECTIONS = ("child cycle", "duplicate attribute", "duplicate child", "group use cycle", "use of undeclared group",
                       "child references undeclared element")


CYCLE_MIN = "element mujoco {\n  child a *\n}\nelement a {\n  x : int\n  child b ?\n}\nelement b {\n  y : int\n  child a ?\n}\n"


# ------------------------------------------------------------------ independent spec of the two modelled generators (oracle)
def o_expand(d, members, depth=0):
    out = []
    groups = {g["name"]: g for g in d["groups"]}
    for m in members:
        if m["k"] == "attr":
            out.append(m)
        elif m["k"] == "use":
            out += o_expand(d, groups[m["group"]]["members"], depth + 1)
    return out


def o_constraints(d, element):
    """own constraints plus those of all transitively used groups (as a multiset; the oracle ignores order)"""
    groups = {g["name"]: g for g in d["groups"]}
    cons = [m for m in element["members"] if m["k"] == "con"]
    seen = set()
    todo = [m["group"] for m in element["members"] if m["k"] == "use"]
    while todo:
        g = todo.pop()
        if g in seen:
            continue
        seen.add(g)
        for m in groups[g]["members"]:
            if m["k"] == "con":
                cons.append(m)
            elif m["k"] == "use":
                todo.append(m["group"])
    return cons


def o_table(d):
    """expected entries [('row', tag, card, names, consset) | ('open',) | ('close',)] or 'cycle'"""
    elements = {e["name"]: e for e in d["elements"]}
    out = []

    def visit(e, card, project, path):
        if e["name"] in path:
            raise RecursionError
        attrs = o_expand(d, e["members"])
        if project:
            attrs = [a for a in attrs if a["name"] not in ("name", "class") and not a["nodefault"]]
        names = [a["name"] for a in attrs]
        cons = set()
        for c in o_constraints(d, e):
            if all(n in names for b in c["bundles"] for n in b):
                cons.add((c["kind"][0], "|".join(" ".join(b) for b in c["bundles"])))
        out.append(("row", e["xml"], card, names, cons))
        kids = [m for m in e["members"] if m["k"] == "child" and m["name"] != e["name"] and not elements[m["name"]]["alias"]
                and not (project and m["name"] == "plugin")]
        if not kids:
            return
        out.append(("open",))
        for k in kids:
            visit(elements[k["name"]], k["card"], project or (e["name"] == "default" and not k["name"].startswith("default_")),
                  path | {e["name"]})
        out.append(("close",))
    try:
        visit(elements["mujoco"], "!", False, frozenset())
    except RecursionError:
        return "cycle"
    return out


def read_table(text):
    """parse the generated table back: entries and constraint rows"""
    m = re.search(r"std::vector<const char\*> MJCF\[\] = \{\n(.*?)\n\};\n", text, re.S)
    body = m.group(1)
    entries = []
    for g in re.findall(r"\{([^{}]*)\}", body):
        parts = re.findall(r'"([^"]*)"', g)
        if parts == ["<"]:
            entries.append(("open",))
        elif parts == [">"]:
            entries.append(("close",))
        else:
            entries.append(("row", parts[0], parts[1], parts[2:]))
    leftovers = re.sub(r"\{[^{}]*\}", "", body)
    m2 = re.search(r"MJCF_constraints\[\] = \{\n(.*?)\n\};\n", text, re.S)
    cons = []
    for line in m2.group(1).split("\n"):
        if not line.strip():
            continue
        mm = re.fullmatch(r"  \{(\d+), '(.)', \"([^\"]*)\"\},", line)
        cons.append((int(mm.group(1)), mm.group(2), mm.group(3)) if mm else ("unparsed", line))
    return entries, cons, leftovers.replace(",", "").strip() == "", max(len(l) for l in body.split("\n"))


def check_table(d, text):
    """None if the table text is a faithful translation of the dumped schema, else a description"""
    exp = o_table(d)
    if exp == "cycle":
        return "cycle"
    entries, cons, clean, width = read_table(text)
    if not clean:
        return "text outside row initialisers"
    if width > 100:
        return "line longer than 100 characters"
    if len(entries) != len(exp):
        return "row count %d, expected %d" % (len(entries), len(exp))
    for i, (a, b) in enumerate(zip(entries, exp)):
        if a[0] != b[0] or (a[0] == "row" and (a[1] != b[1] or a[2] != b[2] or a[3] != b[3])):
            return "entry %d is %r, expected %r" % (i, a, b[:4])
    expcons = set()
    for i, b in enumerate(exp):
        if b[0] == "row":
            for (kc, spec) in b[4]:
                expcons.add((i, kc, spec))
    if set(cons) != expcons or len(cons) != len(set(cons)) and False:
        return "constraint rows %r, expected %r" % (sorted(map(str, set(cons) ^ expcons))[:4], "symmetric difference shown")
    return None


def check_map(d, mid):
    blocks = re.findall(r"// enum (\w+)\ninline constexpr mjMap (\w+)_map\[\] = \{\n(.*?)\n\};\ninline constexpr int (\w+)_sz = (\d+);\n", mid, re.S)
    if [b[0] for b in blocks] != [e["name"] for e in d["enums"]]:
        return "enum blocks %r" % [b[0] for b in blocks]
    for b, e in zip(blocks, d["enums"]):
        if not (b[0] == b[1] == b[3]):
            return "inconsistent names in block %s" % b[0]
        items = re.findall(r'^  \{"([^"]*)",\s+(\S+)\},$', b[2], re.M)
        if [list(x) for x in items] != e["items"] or int(b[4]) != len(e["items"]) or len(b[2].split("\n")) != len(e["items"]):
            return "items of %s: %r" % (b[0], items)
    rest = re.sub(r"// enum (\w+)\ninline constexpr mjMap (\w+)_map\[\] = \{\n(.*?)\n\};\ninline constexpr int (\w+)_sz = (\d+);\n", "", mid, flags=re.S)
    if rest.strip():
        return "text outside enum blocks: %r" % rest[:80]
    return None


def call_driver(ctx, schemas, tag):
    reqp = os.path.join(ctx.scratch, "req_%s.json" % tag)
    respp = os.path.join(ctx.scratch, "resp_%s.json" % tag)
    work = os.path.join(ctx.scratch, "work_%s" % tag)
    json.dump({"schemas": schemas}, open(reqp, "w"))
    r = subprocess.run(["timeout", "1800", PY, DRIVER, ctx.repo, reqp, respp, work], capture_output=True, text=True)
    if r.returncode != 0:
        ctx.broken.append(("build", "doc/generate modules of the working tree do not load/run", (r.stdout + r.stderr)[-1500:]))
        return None
    return json.load(open(respp))


def run(ctx):
    rng = ctx.rng
    quick = ctx.tier == "quick"
    ctx.coq_props(allowed_axioms=(), extra_targets=["Lib/Eqb.vo", "Model/GenTables.vo"])

    texts = [None, CYCLE_MIN]
    kinds = ["checked-in", "cycle-min"]
    if ctx.replay and isinstance(ctx.replay.get("case"), dict) and ctx.replay["case"].get("schema_text"):
        texts.append(ctx.replay["case"]["schema_text"])
        kinds.append("replay")
    for i in range(150 if quick else 1500):
        cyc = rng.random() < 0.08
        big = rng.random() < 0.25
        t = SchemaGen(rng, cyclic=cyc, big=big).text()
        if rng.random() < 0.08:
            t += "\n" + rng.choice(DEFECTS)
            texts.append(t)
            kinds.append("gen-defect")
            continue
        texts.append(t)
        kinds.append("gen-cyclic" if cyc else ("gen-big" if big else "gen"))
    resp = call_driver(ctx, [{"text": t, "all": True} for t in texts], "main")
    if resp is None:
        return
    consts = resp["consts"]
    CONSTS.clear()
    CONSTS.update(consts)
    OTHER_STATS.clear()
    results = resp["results"]
    cases, case_src = [], []
    inv_cases, inv_src = [], []
    n_invalid = n_valid = n_cyc = n_wrapped = n_con = n_proj = 0
    invalid_reasons = {}
    nviol = 0
    for text, kind, res in zip(texts, kinds, results):
        if not res["valid"]:
            n_invalid += 1
            key = re.sub(r"[0-9']+|\"[^\"]*\"", "", (res["error"] or "").split(": ", 2)[-1])[:40]
            invalid_reasons[key] = invalid_reasons.get(key, 0) + 1
            msg = res.get("message") or ""
            if res.get("dump_unvalidated") and msg.startswith(MODELLED_REJECTIONS):
                du = res["dump_unvalidated"]
                if all(ord(ch) < 128 for ch in json.dumps(du, ensure_ascii=False)):
                    inv_cases.append(coq_schema(du))
                    inv_src.append(({"schema_text": text, "kind": kind}, msg))
            if kind in ("checked-in", "cycle-min"):
                if kind == "checked-in":
                    ctx.broken.append(("build", "src/xml/mjcf.schema of the working tree does not parse", res["error"]))
                # cycle-min rejected by validation: the defect was repaired by a validation rule; nothing to check
            continue
        n_valid += 1
        d = res["dump"]
        if not d["keys_ok"]:
            ctx.broken.append(("harness", "schema dict keys differ from declaration names", kind))
        case = {"schema_text": text if text is not None else "<src/xml/mjcf.schema>", "kind": kind}
        tab, mp = res["table"], res["map"]
        exp = o_table(d)
        if exp == "cycle":
            n_cyc += 1
            if "error" in tab:
                ctx.violation("impl_violation", case, expected="a valid schema (parse_file accepted it) is translated by generate_mjcf_table.generate()",
                              observed=tab, signature={"site": "generate_mjcf_table.visit", "class": "child_cycle"},
                              theorem="C42_valid_schema_not_enough_refuted",
                              note="child declarations form a cycle through distinct non-alias elements; _validate accepts it, visit recurses without bound")
        else:
            if "error" in tab:
                nviol += 1
                if nviol <= 5:
                    ctx.violation("impl_violation", case, expected="table for a valid schema", observed=tab,
                                  signature={"site": "generate_mjcf_table.generate", "class": "exception_" + tab["error"]}, theorem="C42_table_faithful")
            else:
                why = check_table(d, tab["text"])
                if why:
                    nviol += 1
                    if nviol <= 5:
                        ctx.violation("impl_violation", case, expected="rows = pre-order of the child tree with tag, cardinality, expanded attribute names; constraint rows index their row",
                                      observed=why, signature={"site": "generate_mjcf_table.visit", "class": "unfaithful_table"}, theorem="C42_table_faithful")
        if "error" in mp:
            ctx.violation("impl_violation", case, expected="keyword map for a valid schema", observed=mp,
                          signature={"site": "generate_mjcf_map.generate", "class": "exception_" + mp["error"]}, theorem="C42_map_faithful")
        else:
            mid = mp["text"][len(consts["map_header"]):len(mp["text"]) - len(consts["map_footer"])]
            why = check_map(d, mid) if mp["text"].startswith(consts["map_header"]) and mp["text"].endswith(consts["map_footer"]) else "header/footer missing"
            if why:
                ctx.violation("impl_violation", case, expected="one map per enum with its keyword/constant pairs in order", observed=why,
                              signature={"site": "generate_mjcf_map.generate", "class": "unfaithful_map"}, theorem="C42_map_faithful")
        if not res.get("deterministic", True):
            ctx.violation("impl_violation", case, expected="same text on a second run", observed="outputs differ",
                          signature={"site": "generate", "class": "nondeterministic"}, theorem="C42_deterministic")
        # other generators: parse-back oracles (support)
        for gname, o in (res.get("others") or {}).items():
            why = check_other(gname, d, o, kind)
            if why:
                nviol += 1
                if nviol <= 8:
                    ctx.violation("impl_violation", dict(case, generator=gname), expected="parse-back of the generated text agrees with the schema",
                                  observed=why, signature={"site": gname + ".generate", "class": "parse_back"}, theorem="support: parse-back oracle")
        # Coq case
        if "text" in tab and tab["text"].startswith(consts["table_header"]):
            tl = "Some " + clist(cs(l) for l in tab["text"][len(consts["table_header"]):].split("\n"))
            if any(len(l) > 92 for l in tab["text"].split("\n")):
                n_wrapped += 1
            if re.search(r"MJCF_constraints\[\] = \{\n  \{", tab["text"]):
                n_con += 1
        elif "text" in tab:
            tl = "Some []"
            ctx.broken.append(("correspondence", "table text does not start with the module's _HEADER", kind))
        else:
            tl = "None"
        mt = mp["text"][len(consts["map_header"]):len(mp["text"]) - len(consts["map_footer"])] if "text" in mp else "<error>"
        if not all(ord(ch) < 128 for ch in json.dumps(d, ensure_ascii=False) + mt):
            continue
        cases.append("(%s, %s, %s)" % (coq_schema(d), tl, cs(mt)))
        case_src.append((case, tab, mp))
        if any(e["name"] == "default" for e in d["elements"]):
            n_proj += 1
    fails = ctx.coq_eval("c42", IMPORTS, cases, "chk", pre=PRE, shard=25)
    for i in fails[:3]:
        case, tab, mp = case_src[i]
        ctx.violation("correspondence", case, expected="Model/GenTables.v table_lines / map_text / valid on the dumped schema",
                      observed={"table": (tab.get("text") or tab)[-400:] if isinstance(tab.get("text"), str) else tab}, found_input=False,
                      theorem="correspondence c42", note="python generators and Coq model disagree on this schema; the oracles did not flag the implementation output")

    ifails = ctx.coq_eval("c42_inv", IMPORTS, inv_cases, "fun s => negb (valid s)", pre=PRE, shard=25) if inv_cases else []
    for i in ifails[:3]:
        case, msg = inv_src[i]
        ctx.violation("correspondence", case, expected="Model/GenTables.v valid = false for a schema rejected with: " + msg,
                      observed="model accepts it", found_input=False, theorem="correspondence c42 (validity rules)")

    # checked-in generated files against the generators run on the checked-in schema
    real = results[0]
    if real["valid"]:
        pairs = [("mjcf_table.inc", real["table"]), ("mjcf_map.h", real["map"])] + [
            (rel, real["others"][g]) for rel, g in (("mjcf.xsd", "generate_xsd"), ("mjcf_read_table.inc", "generate_read_table"),
                                                    ("mjcf_default_table.inc", "generate_default_table"), ("dmcontrol_schema.xml", "generate_dmcontrol"))]
        for rel, o in pairs:
            if "text" not in o:
                ctx.violation("impl_violation", {"schema_text": "<src/xml/mjcf.schema>", "file": rel}, expected="generator runs on the checked-in schema", observed=o,
                              signature={"site": rel, "class": "exception"}, theorem="checked-in files")
            elif o["text"] != resp["checked_in"].get(rel):
                ctx.violation("impl_violation", {"schema_text": "<src/xml/mjcf.schema>", "file": rel}, expected="src/xml/generated/%s equals the generator output" % rel,
                              observed="differs", signature={"site": rel, "class": "checked_in_differs"}, theorem="checked-in files")

    ctx.cov["evaluations"] = len(cases) + len(inv_cases)
    ctx.cov["support"]["rejected_schemas_compared_with_model_valid"] = len(inv_cases)
    ctx.cov["distinct_nontrivial"] = len(set(c for c in cases if c.count("MChild") >= 2))
    ctx.cov["rule"] = ("the checked-in mjcf.schema, the minimal child-cycle schema, and grammar-generated schema texts (enums, groups with nested use, variant groups, "
                       "constraints, elements with xml/alias/field facets, self children, shared children, default/default_*/plugin elements, long attribute "
                       "lists); only texts accepted by the working tree's parse_file are used (invalid ones are counted); non-trivial = distinct schema with at "
                       "least two child declarations")
    ctx.cov["samples"] = [{"schema_text": texts[2][:1500]}, {"schema_text": CYCLE_MIN}]
    ctx.cov["correspondence_disagreements"] = len(fails) + len(ifails)
    ctx.cov["support"]["generated"] = {"texts": len(texts), "valid": n_valid, "rejected_by_validation": n_invalid, "rejection_reasons": invalid_reasons,
                                       "with_child_cycle": n_cyc, "with_wrapped_rows": n_wrapped, "with_constraint_rows": n_con, "with_default_projection": n_proj}
    ctx.cov["support"]["other_generators_parse_back"] = OTHER_STATS
    ctx.cov["explanation"] = ("C42_table_faithful / C42_map_faithful proved for all valid schemas with ranked (acyclic) child graph; model tied to the python "
                              "generators on %d schemas by exact text comparison; the four unmodelled generators are only parse-back checked" % len(cases))


OTHER_STATS = {}
CONSTS = {}


def _stat(gname, what):
    OTHER_STATS.setdefault(gname, {}).setdefault(what, 0)
    OTHER_STATS[gname][what] += 1


def fmt_num(v):
    if isinstance(v, float) and v == int(v) and abs(v) < 1e15:
        return str(int(v))
    return repr(v)


def fmt_default(a):
    d = a["default"]
    if d is None:
        return None
    if isinstance(d, list):
        return " ".join(fmt_num(float(v)) for v in d)
    if isinstance(d, (int, float)) and not isinstance(d, bool):
        return fmt_num(float(d))
    return str(d)


def proj_attrs(d, e, projected):
    attrs = o_expand(d, e["members"])
    if projected:
        attrs = [a for a in attrs if a["name"] not in ("name", "class") and not a["nodefault"]]
    return attrs


def resolve_hi(hi):
    return CONSTS.get("dims", {}).get(hi, hi) if isinstance(hi, str) else hi


XS = "{http://www.w3.org/2001/XMLSchema}"


def check_xsd(d, text):
    import xml.etree.ElementTree as ET
    root = ET.fromstring(text)
    if root.tag != XS + "schema":
        return "root is not xs:schema"
    elements = {e["name"]: e for e in d["elements"]}
    simple = {t.get("name"): t for t in root.findall(XS + "simpleType")}
    for en in d["enums"]:
        t = simple.get("kw_" + en["name"])
        if t is None:
            return "no simpleType kw_%s" % en["name"]
        vals = [x.get("value") for x in t.iter(XS + "enumeration")]
        if vals != [k for k, _ in en["items"]]:
            return "keywords of %s are %r" % (en["name"], vals)
    for nm in simple:
        if nm.startswith("kw_") and nm != "kw_bool" and nm[3:] not in [e["name"] for e in d["enums"]]:
            return "simpleType %s for no enum" % nm
        if nm.startswith("kwlist_") and nm[7:] not in [e["name"] for e in d["enums"]]:
            return "simpleType %s for no enum" % nm
    ctypes = {}
    for t in root.findall(XS + "complexType"):
        if t.get("name") in ctypes:
            return "duplicate complexType %s" % t.get("name")
        ctypes[t.get("name")] = t
    # expected (element, projected) pairs reachable from mujoco
    todo, seen = [("mujoco", False)], []
    while todo:
        name, projected = todo.pop(0)
        if (name, projected) in seen:
            continue
        seen.append((name, projected))
        e = elements[name]
        tname = ("default_" + name) if projected else name
        t = ctypes.get(tname)
        if t is None:
            return "no complexType %s" % tname
        kids = [m for m in e["members"] if m["k"] == "child" and not (projected and m["name"] == "plugin")]
        exp_tags = []
        for k in kids:
            target = elements[k["name"]]
            tag = target["xml"]
            if name == "mujoco" and k["name"] == "body":
                target, tag = elements["worldbody"], "worldbody"
            cp = projected or (name == "default" and not k["name"].startswith("default_") and k["name"] != "default")
            exp_tags.append((tag, ("default_" + target["name"]) if cp else target["name"]))
            todo.append((target["name"], cp))
        choice = t.find(XS + "choice")
        got = [(x.get("name"), x.get("type")) for x in choice.findall(XS + "element")] if choice is not None else []
        if got != (exp_tags + [("include", "include")] if exp_tags else []):
            return "children of %s are %r, expected %r" % (tname, got[:6], exp_tags[:6])
        attrs = proj_attrs(d, e, projected)
        xa = t.findall(XS + "attribute")
        if [x.get("name") for x in xa] != [a["name"] for a in attrs]:
            return "attributes of %s are %r, expected %r" % (tname, [x.get("name") for x in xa][:8], [a["name"] for a in attrs][:8])
        for x, a in zip(xa, attrs):
            _stat("generate_xsd", "attributes_checked")
            if (x.get("use") == "required") != a["required"]:
                return "%s.%s use=%r" % (tname, a["name"], x.get("use"))
            if x.get("default") != fmt_default(a):
                return "%s.%s default=%r expected %r" % (tname, a["name"], x.get("default"), fmt_default(a))
            ty = x.get("type")
            numeric_facets = [f for f in ("min", "max", "positive") if f in a["facets"]]
            exp = None
            if a["type"] == "bool":
                exp = "kw_bool"
            elif a["type"] == "enum":
                exp = "kw_" + a["target"]
            elif a["type"] == "flags":
                exp = "kwlist_" + a["target"]
            elif a["type"] in ("string", "file", "ref", "id"):
                exp = "xs:string"
            elif a["type"] in ("int", "double", "float"):
                lo, hi = a["lo"], resolve_hi(a["hi"])
                if (lo, hi) == (1, 1):
                    exp = None if numeric_facets else {"int": "xs:int", "double": "xs:double", "float": "xs:float"}[a["type"]]
                elif hi is None:
                    exp = a["type"] + "list"
                elif lo == hi:
                    exp = "%s%s" % (a["type"], hi)
                else:
                    exp = "%s%sto%s" % (a["type"], lo, hi)
                if exp and not exp.startswith("xs:") and exp not in simple:
                    return "vector type %s not declared" % exp
            if ty != exp:
                return "%s.%s type=%r expected %r" % (tname, a["name"], ty, exp)
            if exp is None and x.find(XS + "simpleType") is None:
                return "%s.%s has neither type nor inline simpleType" % (tname, a["name"])
    extra = set(ctypes) - {("default_" + n) if p else n for n, p in seen} - {"include"}
    if extra:
        return "complexTypes for nothing in the schema: %r" % sorted(extra)[:5]
    _stat("generate_xsd", "complex_types_checked")
    return None


def check_dmcontrol(d, text):
    import xml.etree.ElementTree as ET
    root = ET.fromstring(text)
    elements = {e["name"]: e for e in d["elements"]}
    enums = {e["name"]: e for e in d["enums"]}
    excl = set(CONSTS["EXCLUDED_ELEMENTS"])
    exclc = set(tuple(x) for x in CONSTS["EXCLUDED_CHILDREN"])
    idov = set(tuple(x) for x in CONSTS["IDENTIFIER_OVERRIDES"])

    def walk(node, e, tag, projected, parent, depth):
        if depth > 60:
            return "too deep"
        if node.tag != "element" or node.get("name") != tag:
            return "element %r where %r expected under %s" % (node.get("name"), tag, parent)
        attrs = proj_attrs(d, e, projected)
        names = set(a["name"] for a in attrs)
        an = node.find("attributes")
        xa = list(an) if an is not None else []
        if [x.get("name") for x in xa] != [a["name"] for a in attrs]:
            return "attributes of %s/%s are %r, expected %r" % (parent, tag, [x.get("name") for x in xa][:8], [a["name"] for a in attrs][:8])
        for x, a in zip(xa, attrs):
            _stat("generate_dmcontrol", "attributes_checked")
            if (x.get("required") == "true") != a["required"]:
                return "%s.%s required=%r" % (tag, a["name"], x.get("required"))
            if x.get("default") != fmt_default(a):
                return "%s.%s default=%r expected %r" % (tag, a["name"], x.get("default"), fmt_default(a))
            special = ((a["name"] == "objname" and "objtype" in names) or (a["name"] == "refname" and "reftype" in names)
                       or (e["name"], a["name"]) in idov or (e["name"] == "mujoco" and a["name"] == "model")
                       or (a["name"] in CONSTS["BASEPATHS"] and e["name"] == "compiler"))
            if special:
                continue
            ty = x.get("type")
            if a["type"] == "enum":
                ok = ty == "keyword" and x.get("valid_values") == " ".join(k for k, _ in enums[a["target"]]["items"])
            elif a["type"] == "bool":
                ok = ty == "keyword" and x.get("valid_values") == "false true"
            elif a["type"] == "file":
                ok = ty == "file"
            elif a["type"] == "id":
                ok = ty == "identifier"
            elif a["type"] == "ref":
                ok = ty == "reference" and x.get("reference_namespace") is not None
            elif a["type"] in ("string", "chars", "flags"):
                ok = ty == "string"
            else:
                base = "int" if a["type"] == "int" else "float"
                lo, hi = a["lo"], resolve_hi(a["hi"])
                if (lo, hi) == (1, 1):
                    ok = ty == base
                else:
                    ok = ty == "array" and x.get("array_type") == base and x.get("array_size") == (str(hi) if hi is not None else None)
            if not ok:
                return "%s.%s typed %r" % (tag, a["name"], dict(x.attrib))
        top_default = e["name"] == "default" and parent == "mujoco"
        self_rec = any(m["k"] == "child" and m["name"] == e["name"] for m in e["members"])
        if (node.get("recursive") == "true") != (self_rec and not top_default):
            return "%s/%s recursive=%r" % (parent, tag, node.get("recursive"))
        exp = []
        for m in e["members"]:
            if m["k"] != "child":
                continue
            if m["name"] == e["name"]:
                if top_default:
                    exp.append((e, tag, projected))
                continue
            target, ctag = elements[m["name"]], elements[m["name"]]["xml"]
            if e["name"] == "mujoco" and m["name"] == "body":
                target, ctag = elements["worldbody"], "worldbody"
            if target["name"] in excl or (e["name"], target["name"]) in exclc:
                continue
            if projected and m["name"] == "plugin":
                continue
            cp = projected or (e["name"] == "default" and not m["name"].startswith("default_") and m["name"] != "default")
            exp.append((target, ctag, cp))
        cn = node.find("children")
        xc = list(cn) if cn is not None else []
        if len(xc) != len(exp):
            return "children of %s/%s are %r, expected %r" % (parent, tag, [x.get("name") for x in xc][:8], [t for _, t, _ in exp][:8])
        for x, (target, ctag, cp) in zip(xc, exp):
            why = walk(x, target, ctag, cp, e["name"], depth + 1)
            if why:
                return why
        _stat("generate_dmcontrol", "elements_checked")
        return None
    return walk(root, elements["mujoco"], "mujoco", False, None, 0)


def check_read_table(d, text):
    elements = {e["name"]: e for e in d["elements"]}
    groups = {g["name"]: g for g in d["groups"]}
    arrays = {}
    for m in re.finditer(r"inline constexpr mjXAttr (\w+)\[\] = \{\n(.*?)\n?\};\n", text, re.S):
        rows = []
        for line in m.group(2).split("\n"):
            if line.strip():
                mm = re.fullmatch(r"  \{(.*)\},", line)
                if not mm:
                    return "unparsed row %r" % line
                rows.append([x.strip() for x in re.split(r", (?![^()]*\))", mm.group(1))])
        arrays[m.group(1)] = rows
    ntd = set(CONSTS["NOT_TABLE_DRIVEN"])
    expected_arrays = {}
    for e in d["elements"]:
        attrs = o_expand(d, e["members"])
        if e["spec"] and any("reading" not in a["facets"] for a in attrs) and e["name"] not in ntd:
            expected_arrays["k%sAttrs" % e["name"].capitalize()] = e
    for gname, (struct, arr) in CONSTS["EMIT_GROUPS"].items():
        expected_arrays[arr] = None
    if set(arrays) != set(expected_arrays):
        return "row arrays %r" % sorted(set(arrays) ^ set(expected_arrays))[:6]
    for arr, e in expected_arrays.items():
        if e is None:
            continue
        hand = set()
        for g in CONSTS["HAND_GROUPS"]:
            if any(m["k"] == "use" and m["group"] == g for m in e["members"]):
                hand |= {m["name"] for m in groups[g]["members"] if m["k"] == "attr"}
        exp = [("const", m) for m in e["members"] if m["k"] == "const"]
        for a in o_expand(d, e["members"]):
            if a["name"] in hand or "reading" in a["facets"]:
                continue
            if a["type"] == "ref" and a["target"] == "default":
                continue
            if a["type"] == "file":
                continue
            exp.append(("attr", a))
        rows = arrays[arr]
        if len(rows) != len(exp):
            return "%s has %d rows, expected %d" % (arr, len(rows), len(exp))
        for row, (k, a) in zip(rows, exp):
            _stat("generate_read_table", "rows_checked")
            if k == "const":
                if row[0] != "nullptr" or row[1] != "mjXAttr::kConst" or row[-1] != a["value"] or ", %s)" % a["field"] not in row[7] + ")":
                    return "%s const row %r for set %s = %s" % (arr, row, a["field"], a["value"])
                continue
            if row[0] != '"%s"' % a["name"]:
                return "%s row %r where attribute %s expected" % (arr, row[0], a["name"])
            kind = row[1].replace("mjXAttr::", "")
            if a["type"] == "id" and a["name"] == "name":
                if kind != "kName":
                    return "%s.name kind %s" % (arr, kind)
                continue
            flags_ = (row[4], row[5], row[6])
            expf = tuple("true" if x else "false" for x in (a["required"], a["nodefault"], bool(a["facets"].get("writing"))))
            if flags_ != expf:
                return "%s.%s required/nodefault/handwrite %r expected %r" % (arr, a["name"], flags_, expf)
            field = a["facets"].get("field", a["name"])
            if not re.search(r"offsetof\(%s, (\w+\.)?%s\)" % (re.escape(e["spec"]), re.escape(str(field))), row[7]):
                return "%s.%s offset %r" % (arr, a["name"], row[7])
            t = a["type"]
            okk = {"string": ("kString", "kStringVec"), "ref": ("kString", "kStringVec"), "id": ("kString", "kStringVec"),
                   "enum": ("kEnum", "kEnumByte"), "flags": ("kFlags",), "bool": ("kBool", "kEnum"), "chars": ("kChars",),
                   "int": ("kInt", "kIntVec"), "double": ("kDouble", "kNum", "kDoubleVec"), "float": ("kFloat", "kNum", "kDouble", "kFloatVec")}[t]
            if kind not in okk:
                return "%s.%s of type %s has kind %s" % (arr, a["name"], t, kind)
            if t in ("enum", "flags") and row[8:] != ["%s_map" % a["target"], "%s_sz" % a["target"]]:
                return "%s.%s map %r" % (arr, a["name"], row[8:])
            if t in ("int", "double", "float") and a["hi"] is not None and not kind.endswith("Vec"):
                if row[2] != str(a["hi"]) and not re.search(r"[A-Za-z]", row[2]):
                    return "%s.%s length %s for arity %s" % (arr, a["name"], row[2], a["hi"])
                if row[3] != ("true" if a["lo"] == a["hi"] else "false"):
                    return "%s.%s exact %s" % (arr, a["name"], row[3])
    disp = re.findall(r'^  \{"([^"]*)", (\w+), (\w+)N\},$', text, re.M)
    if [(elements[n]["xml"], "k%sAttrs" % n.capitalize()) for n in CONSTS["SENSOR_DISPATCH"]] != [(a, b) for a, b, _ in disp]:
        return "sensor dispatch table differs"
    return None


def check_default_table(d, text):
    enums = {e["name"]: dict(e["items"]) for e in d["enums"]}
    tables = {}
    for m in re.finditer(r"static const mjXDefaultEntry (\w+)\[\] = \{\n(.*?)\n\};\n", text, re.S):
        rows = []
        for line in m.group(2).split("\n"):
            mm = re.fullmatch(r'  \{"([^"]*)", \(int\)offsetof\((\w+), ([\w.]+)\), (\d+), ([\w+]+), (\d+), (\d+), \{(.*)\}\},', line)
            if not mm:
                return "unparsed row %r" % line
            rows.append(mm.groups())
        tables[m.group(1)] = rows
    # candidates: (table key, field) -> list of schema attributes bound to it
    cand = {}
    for e in d["elements"]:
        if not e["spec"]:
            continue
        sub = e["facets"].get("field")
        key = "kDefaults_" + (("%s_%s" % (e["spec"], sub)) if sub else e["spec"])
        for a in o_expand(d, e["members"]):
            if a["type"] in ("string", "file", "chars", "ref", "id", "flags"):
                continue
            field = (("%s." % sub) if sub else "") + str(a["facets"].get("field", a["name"]))
            cand.setdefault((key, field), []).append(a)
    for key, rows in tables.items():
        for (attr, spec, field, kind, length, ndecl, unset, vals) in rows:
            _stat("generate_default_table", "rows_checked")
            cs_ = cand.get((key, field))
            if not cs_:
                return "%s row %s (%s.%s) is bound to no schema attribute" % (key, attr, spec, field)
            if attr not in [a["name"] for a in cs_]:
                return "%s row names %s, schema attributes of the field are %r" % (key, attr, [a["name"] for a in cs_])
            ok = False
            for a in cs_:
                dflt = a["default"]
                if dflt is None:
                    exp = (0, ["0"])
                elif a["type"] == "enum":
                    exp = (1, ["(double)%s" % enums[a["target"]][dflt]])
                elif a["type"] == "bool":
                    exp = (1, ["1" if dflt == "true" else "0"])
                else:
                    vs = dflt if isinstance(dflt, list) else [dflt]
                    exp = (len(vs), [repr(float(v)) for v in vs])
                if int(ndecl) == exp[0] and [v.strip() for v in vals.split(",")] == exp[1]:
                    ok = True
            if not ok:
                return "%s row %s declares %s values {%s}, schema defaults are %r" % (key, attr, ndecl, vals, [a["default"] for a in cs_])
    # every declared numeric default of a bound element is in its table, unless custom-read
    for (key, field), as_ in cand.items():
        for a in as_:
            if a["default"] is not None and "reading" not in a["facets"] and a["hi"] is not None:
                if key in tables and not any(r[2] == field for r in tables[key]):
                    return "declared default of %s (%s) has no row in %s" % (a["name"], field, key)
    return None


def check_other(gname, d, o, kind):
    real = kind == "checked-in"
    if "error" in o:
        if real:
            return "exception %r on the checked-in schema" % o
        _stat(gname, "not_applicable_" + o["error"])     # the generator assumes facts about the real schema (element names, headers)
        return None
    try:
        if gname == "generate_xsd":
            why = check_xsd(d, o["text"])
        elif gname == "generate_dmcontrol":
            why = check_dmcontrol(d, o["text"])
        elif gname == "generate_read_table":
            why = check_read_table(d, o["text"]) if real else None
        else:
            why = check_default_table(d, o["text"]) if real else None
    except Exception as e:   # the oracle could not read the text back
        import traceback
        why = "parse-back failed: %s %s" % (type(e).__name__, traceback.format_exc()[-300:])
    _stat(gname, "texts_checked")
    return why
