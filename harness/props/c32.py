"""C32 — Saved MJCF recompiles to the same model."""
import hashlib
import json
import math
import os
import re
import sys
import xml.etree.ElementTree as ET

import build as B
import framework as F

sys.path.insert(0, os.path.join(F.VERIF, "harness", "drivers"))
import c32_genxml as G  # noqa: E402

META = {
    "id": "C32", "category": "proof", "design_ref": "task brief of agent-c32 (DESIGN.md lists C32 as not applicable; src/xml builds since the tinyxml2 shim)",
    "technique": "Coq proof of a hand-written model of the writer/reader default-class elision and number-format decision + "
                 "correspondence of the model with the real writer/reader on generated class trees + end-to-end round-trip oracle on the real code",
    "text": "Strength: partial. PROVED (Coq, every class tree, every attribute policy list, any number type): reading the written default-class tree gives the tree "
            "back and every element is reconstructed from what is written against its class, PROVIDED the writer's comparison is exact and the side conditions of the "
            "special policies hold (C32_defaults_roundtrip, C32_element_roundtrip; policies: compared with class/parent with or without trailing trim, userdata compared with "
            "zero in defaults [the code before repo fix 546b7fc8e], compared with a constant in elements [actdim before 8cd3a2adb], compared exactly with class/parent [userdata now]). "
            "With the comparison the code has (SameVector: absolute tolerance 2.2e-16) only the one-attribute statement 'equal or within the tolerance' holds "
            "(C32_attr_roundtrip_tolerance_partial); the exact statement is REFUTED of the faithful model by witnesses: tolerance, drift growing with the class depth, "
            "userdata of a default class compared with zero, actdim compared with a constant (the last two were genuine defects, repaired in /repo). Number formatting: "
            "integers of the int range are printed exactly at every precision (C32_integers_printed_exactly); a number within 1e-12 of an integer is printed as that integer "
            "(C32_near_integer_refuted, recorded finding). TIED on every run: the model's write/read decisions against the real writer (saved XML) and reader (recompiled joint arrays) "
            "on generated joint default-class trees with values at/near the parent's (the policy of `user` is read from OneJoint's text); the format decision against the text the real "
            "writer prints for sampled doubles (subnormals, huge, -0, near-integers, > 2^53) at precision 17 and 6, also evaluated in Coq; a fail-closed scan of the writer's "
            "attribute calls per function, of the generated attribute table and of the text of WriteAttr/SameVector/isint/Round/WriteVector/WriteAttrTable against the accepted variants. "
            "OBSERVED (validation, not proof): identity of every MJMODEL_POINTERS array, every size, option, visual and statistic field between model -> mj_saveXMLString -> "
            "mj_parseXMLString -> mj_compile (numerically exact under FullFloatPrecision, +0 = -0; directly written arrays to 2e-5 at the default 6 digits) and between the 2nd and 3rd "
            "generation, on schema-driven random MJCF (attributes drawn from the tree's own mjcf.schema: default trees, childclass, nested frames, every actuator shortcut, sensors, "
            "tendons, equalities, pairs/excludes, custom, keyframes, builtin textures, materials, inline meshes, hfields, compiler/option/flag/visual/size/statistic settings), on mjSpec "
            "models of mjgen.h extended through the mjSpec API (default classes re-assigned with mjs_setDefault, frames with mjs_setFrame, full keyframe vectors), one stratum per recorded "
            "lossy mechanism and fixed minimal documents of every repaired defect. Differences are reported under a recorded finding class only when positively attributed to it. "
            "NOT COVERED: frame/childclass pose composition is observed, not modelled; tinyxml2 itself (the shim of harness/stubs is linked), assets on disk, includes, URDF, plugins, "
            "mjz, flex/skin/composite/replicate/attach, mj_saveLastXML's copy-back path, '%.17g round-trips every double' (libc), size components and eq_objtype without meaning for "
            "the element (normalised, counted as don't-care).",
    "note": "Trusted: Coq kernel; hand-written models Model/XmlDefaults.v, Model/XmlNumFormat.v; harness (g++, driver c32_roundtrip.cc, comparison c32_cmp.h, generators c32_genxml.py/c32_gen.h/mjgen.h, "
            "python xml.etree); tinyxml2 shim (harness/stubs/tinyxml2_shim.cc) instead of tinyxml2; libc printf/strtod; the tree's doc/generate/mjcf_schema.py as schema parser of the generator. "
            "Theorems are closed under the global context.",
    "assumptions": ["the model abstracts attribute records into lists of number vectors with one policy per attribute; the tie is differential on the cases of this run",
                    "number formatting/parsing of libc is trusted (text compared exactly with Python's repr/format on sampled doubles)",
                    "recorded findings (KNOWN_FINDINGS.json C32-F*): compiler settings that are not saved, body order with unnamed frames, freejoint align, 1e-12 tolerances"],
}

REF = os.path.join(F.VERIF, "harness", "drivers", "c32_writer_ref.json")

# arrays that are computed by the compiler from other quantities (ill-conditioned w.r.t. 6-digit input)
DERIVED = re.compile(r"^(body_ipos|body_iquat|body_inertia|body_mass|body_subtreemass|body_invweight0|dof_invweight0|dof_M0|dof_length|"
                     r"bvh_|oct_|stat\.|cam_pos0|cam_poscom0|cam_mat0|light_pos0|light_poscom0|light_dir0|tendon_length0|tendon_lengthspring|"
                     r"tendon_invweight0|actuator_acc0|actuator_length0|actuator_lengthrange|geom_aabb|geom_rbound|geom_fluid|mesh_|hfield_|"
                     r"jnt_axis|body_sameframe|geom_sameframe|site_sameframe|body_simple|key_|qpos0|qpos_spring|flex|skin|tex_data|"
                     r"geom_pos|geom_quat|site_pos|site_quat|cam_pos|cam_quat|light_pos|light_dir|cam_intrinsic|body_gravcomp|eq_data|B_|M_|D_|mapM|mapD|"
                     r"actuator_biasprm|actuator_gainprm)")


# ------------------------------------------------------------------ source scan (fail closed)
def writer_scan(repo):
    """attribute calls per mjXWriter function + table rows + text digests of the helper functions"""
    w = open(os.path.join(repo, "src", "xml", "xml_native_writer.cc")).read()
    u = open(os.path.join(repo, "src", "xml", "xml_util.cc")).read()
    t = open(os.path.join(repo, "src", "xml", "generated", "mjcf_read_table.inc")).read()
    funcs = {}
    parts = re.split(r"\n(?:template <typename T>\n)?(?:void|XMLElement\*|string) mjXWriter::(\w+)\(", w)
    for i in range(1, len(parts), 2):
        name, body = parts[i], parts[i + 1]
        calls = re.findall(r"\b(WriteAttr\w*|WriteVector|InsertEnd|WRITEDSBL|WRITEENBL)\(\s*[\w>\-\.]+\s*,\s*(\"[^\"]*\"|[^,\)]+)", body)
        funcs.setdefault(name, [])
        funcs[name] = sorted(funcs[name] + ["%s:%s" % (c, a.strip()) for c, a in calls])   # order-insensitive
    rows = re.findall(r"^\s*\{(\"[^\n]*)\},?\s*$", t, re.M)
    tabs = re.findall(r"mjXAttr (k\w+)\[\]", t)

    def fn_text(src, header):
        i = src.find(header)
        if i < 0:
            return "<missing %s>" % header
        j = src.find("\n}\n", i)
        return re.sub(r"\s+", " ", re.sub(r"//[^\n]*", "", src[i:j + 3]))
    helpers = {h: hashlib.sha256(fn_text(u, h).encode()).hexdigest()[:16] for h in (
        "bool mjXUtil::SameVector(", "static bool isint(", "static int Round(", "void mjXUtil::WriteAttr(XMLElement* elem, std::string name, int n, const T* data",
        "void mjXUtil::WriteVector(XMLElement* elem, std::string name, const std::vector<double>& vec) {",
        "void mjXUtil::WriteVector(XMLElement* elem, std::string name, const std::vector<double>& vec,\n",
        "void mjXUtil::WriteAttrTxt(", "void mjXUtil::WriteAttrInt(", "void mjXUtil::WriteAttrKey(", "void mjXUtil::WriteAttrKeys(")}
    wtab = hashlib.sha256(fn_text(w, "void mjXWriter::WriteAttrTable(").encode()).hexdigest()[:16]
    return {"writer_calls": funcs, "table_rows": hashlib.sha256("\n".join(rows).encode()).hexdigest()[:16], "n_table_rows": len(rows),
            "tables": tabs, "helpers": helpers, "WriteAttrTable": wtab}


def register_scan(repo):
    """maintenance: add the scan of `repo` (e.g. a scratch tree with a reviewed repair) to the accepted variants"""
    scan = writer_scan(repo)
    try:
        ref = json.load(open(REF))
    except OSError:
        ref = {"writer_calls": {}, "helpers": {}, "table_rows": [], "n_table_rows": [], "tables": [], "WriteAttrTable": []}
    for k in ("table_rows", "n_table_rows", "tables", "WriteAttrTable"):
        if scan[k] not in ref[k]:
            ref[k].append(scan[k])
    for h, v in scan["helpers"].items():
        if v not in ref["helpers"].setdefault(h, []):
            ref["helpers"][h].append(v)
    for fn, v in scan["writer_calls"].items():
        if v not in ref["writer_calls"].setdefault(fn, []):
            ref["writer_calls"][fn].append(v)
    json.dump(ref, open(REF, "w"), indent=1, sort_keys=True)


# ------------------------------------------------------------------ driver protocol
def parse_out(out):
    cases, cur, pos = [], None, 0
    while pos < len(out):
        nl = out.find("\n", pos)
        if nl < 0:
            break
        line = out[pos:nl]
        pos = nl + 1
        t = line.split(" ")
        if t[0] == "CASE":
            cur = {"id": t[1], "status": t[2], "D": [], "D3": [], "fix": None, "msg": "", "xml": None, "xml2": None, "dc": 0, "J": {}, "txt": None}
        elif cur is None:
            continue
        elif t[0] == "MSG":
            cur["msg"] = line[4:]
        elif t[0] in ("D", "D3"):
            cur[t[0]].append((t[1], int(t[2]), int(t[3]), int(t[4]), float(t[5]), float(t[6]), float(t[7]) if len(t) > 7 else math.inf))
        elif t[0] == "FIX":
            cur["fix"] = int(t[1])
        elif t[0] == "DC":
            cur["dc"] = int(t[1])
        elif t[0] == "AB":
            cur["ab"] = cur.get("ab", 0) + int(t[1])
        elif t[0] == "J":
            cur["J"].setdefault(t[1], {})[t[2]] = [float.fromhex(x) for x in t[3:]]
        elif t[0] == "TXT":
            cur["txt"] = line[4:]
        elif t[0] in ("XML", "XML2"):
            n = int(t[1])
            b = out.encode()[0:0]  # noqa (lengths are in bytes; the generator emits ASCII only)
            cur[t[0].lower()] = out[pos:pos + n]
            pos += n + 1
        elif t[0] == "END":
            cases.append(cur)
            cur = None
    return cases


def rel(a, b):
    if a == b:
        return 0.0
    if a != a or b != b:
        return math.inf
    return abs(a - b) / max(abs(a), abs(b), 1e-300)


MASSDERIVED = re.compile(r"^(body_mass|body_subtreemass|body_inertia|body_ipos|body_iquat|body_invweight0|dof_invweight0|dof_M0|stat\.\w+|"
                         r"actuator_acc0|tendon_invweight0|cam_poscom0|cam_pos0|cam_mat0|light_poscom0|light_pos0|light_dir0|body_simple|body_sameframe|"
                         r"geom_sameframe|site_sameframe|bvh_\w+|nC|nM|nD|nB|nbuffer|nbvh\w*|dof_simplenum|dof_length|actuator_biasprm|actuator_gainprm|geom_fluid|"
                         r"body_bvhadr|body_bvhnum)$")
MESHDERIVED = re.compile(r"^(mesh_\w+|geom_aabb|geom_rbound|geom_pos|geom_quat|geom_size|geom_surfacevel|nmesh\w+)$")
# with free-joint alignment the body frame itself is derived from the inertia
ALIGNDERIVED = re.compile(r"^(qpos0|qpos_spring|body_pos|body_quat|site_pos|site_quat|geom_pos|geom_quat|key_qpos|cam_pos|cam_quat|light_pos|light_dir|jnt_pos|jnt_axis|eq_data)$")
KEYFIELDS = re.compile(r"^(key_\w+|name_keyadr|names|names_map|nnames|nnames_map)$")
COMPILER_LOSSY = ("settotalmass", "inertiafromgeom", "inertiagrouprange", "balanceinertia", "fitaabb")


def body_order(xml_text):
    try:
        return [e.attrib.get("name") for e in ET.fromstring(xml_text).iter("body")]
    except ET.ParseError:
        return None


def attribute(c, feature, fields, src):
    """positive attribution of a difference to one of the recorded mechanisms: the source has the construct
    AND the differing fields are of the kind that mechanism produces.  None = not attributed."""
    base = {f.replace("gen3:", "") for f in fields}
    src = src or ""
    if re.search(r"alignfree=\"true\"|<freejoint[^>]*align=\"true\"", src):
        base = {f for f in base if not ALIGNDERIVED.match(f)} or base
    if c["status"] == "fail:recompile" and feature == "meshshell" and "for mesh geoms, inertia should be specified" in c["msg"] \
            and re.search(r"<default.*<geom[^>]*shellinertia=\"true\"", src, re.S):
        return "mesh-shellinertia-class"
    if feature in COMPILER_LOSSY and re.search(r"<compiler[^>]*\b%s=" % feature, src):
        if c["status"] == "fail:recompile":
            return feature if ("mass and inertia" in c["msg"] or "inertia must satisfy" in c["msg"]) else None
        return feature if base and all(MASSDERIVED.match(f) for f in base) else None
    if feature == "mesh" and re.search(r"<mesh [^>]*vertex=", src) and base and any(f.startswith("mesh_") for f in base) \
            and all(MESHDERIVED.match(f) or MASSDERIVED.match(f) for f in base):
        return "mesh"
    if feature == "hfield" and re.search(r"<hfield [^>]*elevation=", src) and base == {"hfield_data"}:
        return "hfield"
    if feature == "emptykey" and re.search(r"<key\s*/>", src) and base and all(KEYFIELDS.match(f) for f in base):
        return "emptykey"
    if feature == "bodyframe" and c.get("xml"):
        a, b = body_order(src), body_order(c["xml"])
        if a is not None and b is not None and a != b and sorted(map(str, a)) == sorted(map(str, b)):
            return "bodyframe"
    if feature == "freealign" and re.search(r"<freejoint[^>]*\balign=", src) and c.get("xml") and "align=" not in c["xml"].replace("alignfree=", ""):
        return "freealign"
    return None


def classify(c, feature, prec, src=None):
    """returns None (no violation) or (signature, summary)"""
    st = c["status"]
    if st.startswith("skip"):
        return None
    if st.startswith("fail"):
        m = c["msg"]
        if st == "fail:recompile" and ("invalid actdim" in m or "state array dimension" in m) and src and re.search(r"<default.*\bactdim=", src, re.S):
            return {"class": "actdim-class-default", "stage": st[5:]}, m
        cls = attribute(c, feature, [], src)
        return {"class": cls or "core", "stage": st[5:]}, m
    diffs = c["D"] + [("gen3:" + d[0],) + d[1:] for d in c["D3"]]
    if prec < 17:
        diffs = [d for d in diffs if not DERIVED.match(d[0].replace("gen3:", ""))]
        if src and re.search(r"alignfree=\"true\"|<freejoint[^>]*align=\"true\"", src):
            diffs = [d for d in diffs if d[0].replace("gen3:", "") != "body_quat"]   # orientation of the inertia frame: no bound
    if not diffs:
        return None
    worst = max(rel(d[4], d[5]) if d[1] >= 0 else math.inf for d in diffs)
    fields = sorted({d[0] for d in diffs})
    if prec >= 17 and all(d[6] <= 1e-12 for d in diffs):
        return {"class": "tolerance-1e-12"}, "%d fields differ by at most 1e-12 (scaled): %s" % (len(fields), ", ".join(fields[:6]))
    # fields whose every difference is within the recorded 1e-12 tolerance do not count against the attribution
    big = sorted({d[0] for d in diffs if not (prec >= 17 and d[6] <= 1e-12)})
    cls = attribute(c, feature, big, src)
    if cls:
        return {"class": cls}, "%d fields differ: %s" % (len(fields), ", ".join(fields[:8]))
    base = {f.replace("gen3:", "") for f in fields}
    if base <= {"jnt_user", "geom_user", "site_user", "cam_user", "tendon_user", "actuator_user"} and src and re.search(r"<default.*\buser=", src, re.S):
        return {"class": "default-userdata-zero"}, ", ".join(fields)
    return {"class": "core", "field": sorted(base)[0]}, "%d fields differ: %s" % (len(fields), ", ".join(fields[:8]))


# ------------------------------------------------------------------ tie (a): class trees of slide joints
ATTRS = [("margin", 1, "PParent false"), ("armature", 1, "PParent false"), ("frictionloss", 1, "PParent false"),
         ("stiffness", 3, "PParent true"), ("damping", 3, "PParent true"), ("solreflimit", 2, "PParent true"),
         ("solimplimit", 5, "PParent true"), ("user", 2, "PZeroDef")]
BASE = {"margin": [0.0], "armature": [0.0], "frictionloss": [0.0], "stiffness": [0.0, 0.0, 0.0], "damping": [0.0, 0.0, 0.0],
        "solreflimit": [0.02, 1.0], "solimplimit": [0.9, 0.95, 0.001, 0.5, 2.0], "user": [0.0, 0.0]}
UP = 0.3 + 5.551115123125783e-17     # next double above 0.3: within SameVector's tolerance of 0.3
VALS = [0.3, UP, 0.7, 0.125, 1.5, 0.6]


def tie_case(rng):
    """random class tree (nested tuples) + joints; values chosen near the parent's to hit the elision cases"""
    def rec_from(par):
        r = {}
        for name, n, pol in ATTRS:
            pv = par[name]
            k = rng.random()
            if k < 0.45:
                v = list(pv)
            else:
                v = []
                for i in range(n):
                    kk = rng.random()
                    if name == "user":
                        v.append(pv[i] if kk < 0.4 else rng.choice([0.0, 0.3, 1.5]))
                    elif name == "solimplimit":
                        v.append(pv[i] if kk < 0.6 else [0.3, 0.7, 0.125, 0.6, 1.5][i])
                    elif name == "solreflimit":
                        v.append(pv[i] if kk < 0.5 else [0.3, 0.7][i] if rng.random() < 0.7 else UP)
                    else:
                        v.append(pv[i] if kk < 0.4 else rng.choice(VALS))
            r[name] = v
        return r
    names = []

    def tree(par, depth):
        n = len(names)
        names.append(n)
        v = rec_from(par)
        ch = []
        if depth < 3:
            for _ in range(rng.choice([0, 1, 1, 2])):
                if len(names) < 5:
                    ch.append(tree(v, depth + 1))
        return (n, v, ch)
    t = tree(BASE, 0)
    flat = {}

    def walk(node):
        flat[node[0]] = node[1]
        for c in node[2]:
            walk(c)
    walk(t)
    joints = []
    for j in range(rng.randint(1, 4)):
        c = rng.choice(sorted(flat))
        joints.append((c, rec_from(flat[c])))
    return t, joints


def tie_xml(t, joints):
    def fv(v):
        return " ".join(repr(float(x)) for x in v)

    def attrs(v, par, indef):
        # the input text states every attribute that differs from what the reader would inherit
        s = ""
        for name, n, pol in ATTRS:
            if v[name] != par[name] or [math.copysign(1, x) for x in v[name]] != [math.copysign(1, x) for x in par[name]]:
                s += ' %s="%s"' % (name, fv(v[name]))
        return s
    out = ['<mujoco><compiler angle="radian"/><size nuser_jnt="2"/>']

    def dtree(node, par, top):
        out.append("<default%s>" % ("" if top else ' class="c%d"' % node[0]))
        out.append("<joint type=\"slide\"%s/>" % attrs(node[1], par, True) if top else "<joint%s/>" % attrs(node[1], par, True))
        for c in node[2]:
            dtree(c, node[1], False)
        out.append("</default>")
    dtree(t, BASE, True)
    flat = {}

    def walk(node):
        flat[node[0]] = node[1]
        for c in node[2]:
            walk(c)
    walk(t)
    out.append("<worldbody>")
    for i, (c, v) in enumerate(joints):
        out.append('<body name="b%d" pos="%d 0 0"><joint name="j%d"%s%s/><geom size="0.1"/></body>' % (
            i, i, i, "" if c == 0 else ' class="c%d"' % c, attrs(v, flat[c], False)))
    out.append("</worldbody></mujoco>")
    return "\n".join(out)


def coq_vec(v):
    return F.flist(v)


def coq_rec(r):
    return "[" + "; ".join(coq_vec(r[name]) for name, n, pol in ATTRS) + "]"


def coq_tree(node):
    return "(CNode %d%%nat %s [%s])" % (node[0], coq_rec(node[1]), "; ".join(coq_tree(c) for c in node[2]))


def coq_opt_rec(d):
    """d: {name: list of floats or None}"""
    return "[" + "; ".join(("Some " + coq_vec(d[name])) if d.get(name) is not None else "None" for name, n, pol in ATTRS) + "]"


def coq_wtree(node):
    return "(WNode %d%%nat %s [%s])" % (node[0], coq_opt_rec(node[1]), "; ".join(coq_wtree(c) for c in node[2]))


def saved_tree(xml_text):
    """parse the saved XML: default tree as (id, {attr: floats|None}, children), joints {name: (class id, {attr..})}"""
    root = ET.fromstring(xml_text)

    def jattrs(e):
        d = {}
        if e is not None:
            for name, n, pol in ATTRS:
                if name in e.attrib:
                    d[name] = [float(x) for x in e.attrib[name].split()]
        return d

    def dnode(e):
        cid = 0 if "class" not in e.attrib else int(e.attrib["class"][1:])
        return (cid, jattrs(e.find("joint")), [dnode(c) for c in e.findall("default")])
    de = root.find("default")
    tree = dnode(de) if de is not None else None
    joints = {}
    for j in root.iter("joint"):
        if "name" in j.attrib:
            joints[j.attrib["name"]] = (int(j.attrib["class"][1:]) if "class" in j.attrib else 0, jattrs(j))
    return tree, joints


TIE_IMPORTS = ("From Coq Require Import List Bool ZArith PrimFloat.\nFrom MJV Require Import Model.XmlDefaults.\nImport ListNotations.\n"
               "Definition fdef (x : float) : bool := negb (PrimFloat.is_nan x).\n"
               "Definition fclose (a b : float) : bool := PrimFloat.leb (PrimFloat.abs (PrimFloat.sub a b)) 0x1p-52%float.\n"
               "Definition feq (a b : float) : bool := PrimFloat.eqb a b.\n"
               "Definition fveq (a b : list float) : bool := (Nat.eqb (length a) (length b)) && forallb (fun p => feq (fst p) (snd p)) (combine a b).\n"
               "Definition foeq (a b : option (list float)) : bool := match a, b with Some x, Some y => fveq x y | None, None => true | _, _ => false end.\n"
               "Definition frec_eq (a b : list (list float)) : bool := (Nat.eqb (length a) (length b)) && forallb (fun p => fveq (fst p) (snd p)) (combine a b).\n"
               "Definition forec_eq (a b : list (option (list float))) : bool := (Nat.eqb (length a) (length b)) && forallb (fun p => foeq (fst p) (snd p)) (combine a b).\n"
               "Fixpoint wtree_eq (a b : @wtree float) : bool := match a, b with WNode n x ca, WNode m y cb => Nat.eqb n m && forec_eq x y && "
               "((fix go (l1 l2 : list wtree) : bool := match l1, l2 with [] , [] => true | p :: r1, q :: r2 => wtree_eq p q && go r1 r2 | _, _ => false end) ca cb) end.\n"
               "Definition POL : list (@policy float) := [PParent false; PParent false; PParent false; PParent true; PParent true; PParent true; PParent true; %s].\n"
               "Definition W := write_defs fdef fclose feq 0%float POL.\n"
               "Definition lk (c : nat) (t : @ctree float) := match lookup c t with Some v => v | None => [] end.\n")


# ------------------------------------------------------------------ number format tie
def fmt_expected(x, prec):
    """text mjXUtil::WriteAttr prints for x according to Model/XmlNumFormat.v (decision) + C's %g (stream default format)"""
    import fractions
    if x != x or x in (math.inf, -math.inf):
        return None
    q = fractions.Fraction(x)
    fl = math.floor(q)
    ce = math.ceil(q)
    tol = fractions.Fraction(1e-12)     # the double 1E-12 of the C source, exactly
    isint = abs(q - fl) < tol or abs(q - ce) < tol
    if q < 2147483647 and q > -2147483647 and isint:
        return str(fl if abs(q - fl) < abs(q - ce) else ce)
    s = "%.*g" % (prec, x)
    return s


def q_lit(x):
    import fractions
    q = fractions.Fraction(x)
    return "(%s # %d)" % (("(%d)" % q.numerator) if q.numerator < 0 else str(q.numerator), q.denominator)


def replay_case(ctx, exe, rp):
    """./check C32 --replay f : re-run one recorded round trip on the working tree"""
    c = rp["case"]
    prec = int(c.get("prec", 17))
    if "xml" in c:
        x = c["xml"]
        cmd = "X rp %d 1 %d\n%s\n" % (prec, len(x.encode()), x)
    elif "ext" in c:
        cmd = "E rp %d 1 %d %d %d %d\n" % (prec, c["seed"], c["feat"], c["nbody"], c["ext"])
    else:
        cmd = "G rp %d 1 %d %d %d\n" % (prec, c["seed"], c["feat"], c["nbody"])
    rc, out, err = ctx.run(exe, cmd, timeout=120)
    res = parse_out(out)
    if rc != 0 or not res:
        ctx.broken.append(("correspondence", "replay did not run", err[-300:]))
        return
    r = classify(res[0], c.get("feature"), prec, c.get("xml"))
    if r is not None:
        sig, summary = r
        ctx.violation("impl_violation", dict(c, saved_xml=(res[0]["xml"] or "")[:6000]), expected="identical compiled arrays after save/parse/compile",
                      observed={"status": res[0]["status"], "msg": res[0]["msg"], "summary": summary, "diffs": [list(d) for d in res[0]["D"][:12]]},
                      theorem=rp.get("theorem"), signature=sig)
    ctx.cov["evaluations"] = 1
    ctx.cov["distinct_nontrivial"] = 0 if res[0]["status"].startswith("skip") else 1
    ctx.cov["rule"] = "replay of one recorded round trip"
    ctx.cov["samples"] = [dict((k, v) for k, v in c.items() if k not in ("xml", "saved_xml"))]
    ctx.cov["explanation"] = "replay: %s" % (res[0]["status"] if r is None else r[1])


# ------------------------------------------------------------------ run
def run(ctx):
    rng = ctx.rng
    quick = ctx.tier == "quick"
    ctx.coq_props(allowed_axioms=(), extra_targets=["Model/XmlDefaults.vo", "Model/XmlNumFormat.vo"])

    # fail-closed scan of the writer
    try:
        scan = writer_scan(ctx.repo)
        ref = json.load(open(REF))      # every entry is the list of accepted variants (see register_scan)
        what = []
        for k in ("table_rows", "n_table_rows", "tables", "WriteAttrTable"):
            if scan[k] not in ref[k]:
                what.append(k)
        for h in scan["helpers"]:
            if scan["helpers"][h] not in ref["helpers"].get(h, []):
                what.append("xml_util.cc " + h.split("(")[0])
        for fn in sorted(set(scan["writer_calls"]) | set(ref["writer_calls"])):
            a, acc = scan["writer_calls"].get(fn), ref["writer_calls"].get(fn, [])
            if a not in acc:
                extra = sorted(set(a or []) ^ set(acc[0] if acc else []))
                what.append("mjXWriter::%s %s" % (fn, ",".join(extra[:4]) if extra else "(multiplicity)"))
        if what:
            ctx.broken.append(("translator", "writer attribute list / helper text differs from the reference the model and harness were written against",
                               "; ".join(what[:12])))
    except (OSError, ValueError, KeyError) as e:
        ctx.broken.append(("translator", "cannot read the writer sources or the reference scan", str(e)))

    # build
    try:
        with F.Lock("libxml"):
            lib, info = B.build_lib_xml(ctx.repo)
        ctx.cov["support"]["lib_build"] = info
        with F.Lock("drv_c32_roundtrip"):
            exe = B.build_driver("c32_roundtrip", ["c32_roundtrip.cc"], ctx.repo, lib)
    except RuntimeError as e:
        ctx.broken.append(("build", "XML-enabled library or driver c32_roundtrip does not build from the working tree", str(e)[-1500:]))
        return

    rp = getattr(ctx, "replay", None)
    if rp and isinstance(rp.get("case"), dict) and ("xml" in rp["case"] or "seed" in rp["case"]):
        return replay_case(ctx, exe, rp)

    # ---------------- corpus
    jobs = []      # (id, kind, prec, feature, text of the driver command, replay info)
    n_core = 250 if quick else 2600
    n_p6 = 60 if quick else 450
    n_gen = 60 if quick else 450
    n_probe = 12 if quick else 80
    seed0 = rng.randrange(1 << 30)

    def xjob(cid, seed, level, prec, feature, dump=0):
        try:
            x = G.generate(ctx.repo, seed, level, {"features": {feature} if feature else set()})
        except Exception as e:  # the schema changed under the generator
            ctx.broken.append(("correspondence", "MJCF generator failed on the working tree's schema", repr(e)[:300]))
            return
        jobs.append((cid, "X", prec, feature, "X %s %d %d %d\n%s\n" % (cid, prec, dump, len(x.encode()), x), {"gen": "c32_genxml", "seed": seed, "level": level, "feature": feature, "prec": prec, "xml": x}))
    for i in range(n_core):
        xjob("core%d" % i, seed0 + i, 2 if i % 4 else 1, 17, None)
    for i in range(n_p6):
        xjob("p6_%d" % i, seed0 + 100000 + i, 2, 6, None)
    for i in range(n_gen):
        sd, feat, nb = rng.randrange(1 << 30), rng.choice([0x7FFFF, 0x7FFFF, rng.randrange(1 << 19)]), 1 + i % 6
        if i % 2:
            jobs.append(("gen%d" % i, "G", 17, None, "G gen%d 17 0 %d %d %d\n" % (i, sd, feat, nb), {"gen": "mjgen.h", "seed": sd, "feat": feat, "nbody": nb, "prec": 17}))
        else:
            ext = 1 + rng.randrange(7)     # default classes / full keyframes / frames through the mjSpec API (c32_gen.h)
            jobs.append(("gen%d" % i, "E", 17, None, "E gen%d 17 0 %d %d %d %d\n" % (i, sd, feat, nb, ext),
                         {"gen": "mjgen.h+c32_gen.h", "seed": sd, "feat": feat, "nbody": nb, "ext": ext, "prec": 17}))
    FEATURES = ["energy", "emptykey", "settotalmass", "inertiafromgeom", "inertiagrouprange", "balanceinertia", "fitaabb", "mesh", "hfield", "bodyframe", "freealign"]   # "meshshell" has only the fixed probe
    for f in FEATURES:
        for i in range(n_probe):
            xjob("%s%d" % (f, i), seed0 + 200000 + i, 2, 17, f)
    # fixed minimal probes (stable replays of the known mechanisms)
    FIXED = {
        "fx_energy": ("energy", '<mujoco><worldbody><body><joint/><geom size="0.1"/></body></worldbody><sensor><e_potential name="p"/><e_kinetic name="k"/></sensor></mujoco>'),
        "fx_emptykey": ("emptykey", '<mujoco><worldbody><body><joint/><geom size="0.1"/></body></worldbody><keyframe><key/><key name="a" time="1"/></keyframe></mujoco>'),
        "fx_userzero": (None, '<mujoco><size nuser_jnt="1"/><default><joint user="1.5"/><default class="c"><joint user="0"/></default></default>'
                              '<worldbody><body><joint class="c"/><geom size="0.1"/></body></worldbody></mujoco>'),
        "fx_actdim": (None, '<mujoco><default><general dyntype="integrator" actdim="1"/></default><worldbody><body><joint name="j"/><geom size="0.1"/></body></worldbody>'
                            '<actuator><general joint="j" dyntype="none" actdim="0"/></actuator></mujoco>'),
        "fx_bodyframe": ("bodyframe", '<mujoco><worldbody><frame><body name="a"><joint/><geom size="0.1"/></body></frame><body name="b" pos="1 0 0"><joint/><geom size="0.2"/></body>'
                                      '<frame><body name="c" pos="2 0 0"><joint/><geom size="0.3"/></body></frame></worldbody></mujoco>'),
        "fx_freealign": ("freealign", '<mujoco><compiler alignfree="true"/><worldbody><body name="b0" pos="0 0 1"><freejoint name="j0" align="false"/>'
                                      '<geom type="box" size="0.1 0.2 0.3" pos="0.1 0.2 0.3" euler="10 20 30"/></body></worldbody></mujoco>'),
        "fx_meshshell": ("meshshell", '<mujoco><default><default class="c"><geom shellinertia="true"/></default></default>'
                                      '<asset><mesh name="m" vertex="0 0 0 1 0 0 0 1 0 0 0 1" face="0 2 1 0 1 3 0 3 2 1 2 3"/></asset><worldbody><body><joint/>'
                                      '<geom class="c" type="mesh" mesh="m" shellinertia="false" contype="0" conaffinity="0"/></body></worldbody></mujoco>'),
        "fx_keylast": (None, '<mujoco><worldbody><body pos="0 0 1"><freejoint/><geom size="0.1"/><body pos="0.3 0 0"><joint name="h" axis="0 1 0"/>'
                             '<geom size="0.05"/></body></body></worldbody><keyframe><key name="k" qpos="0 0 1 1 0 0 0 0.25"/>'
                             '<key name="v" qvel="0 0 0 0 0 0 0.5"/></keyframe></mujoco>'),
        "fx_nearint": (None, '<mujoco><worldbody><body pos="1.0000000000001 0 0"><joint/><geom size="0.1"/></body></worldbody></mujoco>'),
        "fx_neardef": (None, '<mujoco><worldbody><body><joint armature="1e-16"/><geom size="0.1"/></body></worldbody></mujoco>'),
    }
    for cid, (f, x) in FIXED.items():
        jobs.append((cid, "X", 17, f, "X %s 17 0 %d\n%s\n" % (cid, len(x), x), {"gen": "fixed", "xml": x, "prec": 17, "feature": f}))

    inp = "".join(j[4] for j in jobs)
    # chunks: a case that hangs or crashes the driver loses only its chunk and is identified
    cases = {}
    CH = 60
    for k in range(0, len(jobs), CH):
        chunk = jobs[k:k + CH]
        rc, out, err = ctx.run(exe, "".join(j[4] for j in chunk), timeout=240)
        got = parse_out(out)
        cases.update({c["id"]: c for c in got})
        if rc != 0 or len(got) < len(chunk):
            culprit = chunk[len(got)] if len(got) < len(chunk) else None
            if culprit is not None:
                c_info = culprit[5]
                ctx.violation("impl_violation", dict(c_info, case_id=culprit[0]), expected="the round trip terminates normally",
                              observed="driver rc=%s (%s) while processing this case" % (rc, "timeout after 240 s" if rc == -999 else err[-200:]),
                              theorem="property statement (oracle on implementation output)", signature={"class": "core", "stage": "crash-or-hang"})
            else:
                ctx.broken.append(("correspondence", "driver c32_roundtrip failed (rc=%s)" % rc, err[-500:]))
    stats = {"ok": 0, "skip": 0, "violating": 0, "dontcare_components": 0, "text_not_fixed_point": 0, "decided_by_length_scale_bound": 0}
    by_class = {}
    nontrivial = set()
    for (cid, kind, prec, feature, cmd, info) in jobs:
        c = cases.get(cid)
        if c is None:
            continue
        stats["dontcare_components"] += c["dc"]
        stats["decided_by_length_scale_bound"] += c.get("ab", 0)
        if c["fix"] == 0:
            stats["text_not_fixed_point"] += 1
        if c["status"].startswith("skip"):
            stats["skip"] += 1
            continue
        if c["xml"] is None or True:
            nontrivial.add(hashlib.sha256(cmd.encode()).hexdigest()[:12])
        res = classify(c, feature, prec, info.get("xml"))
        if res is None:
            stats["ok"] += 1
            continue
        stats["violating"] += 1
        sig, summary = res
        key = json.dumps(sig, sort_keys=True)
        by_class.setdefault(key, []).append((len(cmd), cid, info, c, sig, summary))
    for key in sorted(by_class):
        lst = sorted(by_class[key], key=lambda t: t[0])
        n, cid, info, c, sig, summary = lst[0]          # smallest replay of the class
        ctx.violation("impl_violation", dict(info, case_id=cid, saved_xml=(c["xml"] or "")[:6000], n_cases_in_class=len(lst)),
                      expected="model -> mj_saveXMLString -> mj_parseXMLString -> mj_compile gives the same compiled arrays (prec %d)" % info.get("prec", 17),
                      observed={"status": c["status"], "msg": c["msg"], "summary": summary,
                                "diffs": [list(d) for d in c["D"][:60]], "gen3_diffs": [list(d) for d in c["D3"][:6]]},
                      theorem="property statement (oracle on implementation output)", signature=sig)

    # ---------------- tie (a)
    n_tie = 100 if quick else 700
    tcases = [tie_case(rng) for _ in range(n_tie)]
    tin = ""
    for i, (t, joints) in enumerate(tcases):
        x = tie_xml(t, joints)
        tin += "X tie%d 17 3 %d\n%s\n" % (i, len(x), x)
    rc, out, err = ctx.run(exe, tin, timeout=600)
    tres = {c["id"]: c for c in parse_out(out)}
    coq_cases, tie_idx = [], []
    for i, (t, joints) in enumerate(tcases):
        c = tres.get("tie%d" % i)
        if c is None or c["xml"] is None or c["status"].startswith(("skip", "fail")):
            ctx.broken.append(("correspondence", "tie case %d did not run" % i, (c or {}).get("msg", "")[:200]))
            break
        try:
            wt, wj = saved_tree(c["xml"])
        except ET.ParseError as e:
            ctx.broken.append(("correspondence", "saved XML of tie case %d does not parse" % i, str(e)))
            break
        if wt is None:
            wt = (0, {}, [])
        # implementation: saved tree must have the shape of the input tree (classes without attributes keep their node)
        jw = "[" + "; ".join("(%d%%nat, %s, %s, %s)" % (cl, coq_rec(v), coq_opt_rec(wj.get("j%d" % k, (0, {}))[1]),
                                                        coq_rec({nm: c["J"].get("j%d" % k, {}).get(nm, []) for nm, n_, p_ in ATTRS}))
                             for k, (cl, v) in enumerate(joints)) + "]"
        coq_cases.append("(%s, %s, %s)" % (coq_tree(t), coq_wtree(wt), jw))
        tie_idx.append(i)
    checker = ("fun c => match c with (t, wimpl, joints) => "
               "let base := %s in let w := W base t in let t' := read_defs base w in "
               "wtree_eq w wimpl && forallb (fun j => match j with (cl, x, wj, rd) => "
               "forec_eq (write_elem fdef fclose feq 0%%float POL (lk cl t) x) wj && "
               "frec_eq (read_elem (lk cl t') (write_elem fdef fclose feq 0%%float POL (lk cl t) x)) rd end) joints end") % coq_rec(BASE)
    # policy of `user` as the working tree's OneJoint has it (small translator: anything else is a broken tie)
    wtxt = open(os.path.join(ctx.repo, "src", "xml", "xml_native_writer.cc")).read()
    jfun = wtxt[wtxt.find("void mjXWriter::OneJoint("):wtxt.find("void mjXWriter::OneGeom(")]
    if re.search(r"if \(writingdefaults\) \{\s*WriteVector\(elem, \"user\", joint->get_userdata\(\)\);\s*\} else \{\s*"
                 r"WriteVector\(elem, \"user\", joint->get_userdata\(\), def->Joint\(\)\.get_userdata\(\)\);", jfun):
        user_pol = "PZeroDef"
    elif re.search(r"\n  WriteVector\(elem, \"user\", joint->get_userdata\(\), def->Joint\(\)\.get_userdata\(\)\);", jfun) and "writingdefaults) {\n    WriteVector" not in jfun:
        user_pol = "PExact"
    else:
        user_pol = "PZeroDef"
        ctx.broken.append(("translator", "cannot read how mjXWriter::OneJoint writes `user` (xml_native_writer.cc)", ""))
    ctx.cov["support"]["user_policy"] = user_pol
    fails = ctx.coq_eval("c32_tie", TIE_IMPORTS.replace("%s].", user_pol + "]."), coq_cases, checker) if coq_cases else []
    for k in fails[:3]:
        i = tie_idx[k]
        t, joints = tcases[i]
        ctx.violation("correspondence", {"tie_case": i, "xml": tie_xml(t, joints), "saved_xml": tres["tie%d" % i]["xml"][:4000]},
                      expected="attributes emitted / values re-read as computed by Model/XmlDefaults.v (write_defs, write_elem, read_defs, read_elem)",
                      observed="saved XML / recompiled joint arrays differ from the model", found_input=False, theorem="correspondence c32 defaults",
                      note="model and implementation disagree on which attributes are written or on the values read back; see the oracle for a failing input")

    # ---------------- tie (c): number formatting
    samples = [0.0, -0.0, 1.0, -1.0, 2147483646.0, 2147483647.0, 2147483648.0, -2147483647.0, 9007199254740993.0, 1e22, 1.7976931348623157e308,
               5e-324, 2.2250738585072014e-308, 0.1, 1 / 3, 1 + 1e-13, 1 + 1e-11, 3 - 1e-13, 0.5, 123456.789, 1e-5, 1e-4, 123456789.125, 0.30000000000000004,
               1e15 + 0.5, 2.5, -2.5, 1e-12, 1e-13, 99999.95, 0.000123456789]
    for _ in range(60 if quick else 400):
        k = rng.random()
        if k < 0.3:
            samples.append(float(rng.randint(-10 ** 6, 10 ** 6)) + rng.choice([0, 0, 1e-13, -1e-13, 1e-10, 0.5]))
        elif k < 0.6:
            samples.append(rng.uniform(-1, 1) * 10 ** rng.randint(-20, 20))
        else:
            samples.append(math.ldexp(rng.random(), rng.randint(-1074, 1023)) * rng.choice([1, -1]))
    nin = ""
    for p_i, prec in enumerate((17, 6)):
        nin += "N num%d %d %d %s\n" % (p_i, prec, len(samples), " ".join(float(x).hex() for x in samples))
    rc, out, err = ctx.run(exe, nin, timeout=120)
    nres = {c["id"]: c for c in parse_out(out)}
    fmt_bad = 0
    inexact_reported = False
    qcases = []
    for p_i, prec in enumerate((17, 6)):
        c = nres.get("num%d" % p_i)
        toks = (c or {}).get("txt")
        toks = toks.split(" ") if toks else []
        if len(toks) != len(samples):
            ctx.broken.append(("correspondence", "number-format driver case failed", "got %d tokens for %d samples" % (len(toks), len(samples))))
            continue
        for x, tok in zip(samples, toks):
            exp = fmt_expected(x, prec)
            if exp != tok:
                fmt_bad += 1
                if fmt_bad <= 3:
                    ctx.violation("correspondence", {"value": float(x).hex(), "precision": prec}, expected=exp, observed=tok, found_input=False,
                                  theorem="correspondence c32 number format", note="text printed by the writer differs from Model/XmlNumFormat.v's decision + %%.%dg" % prec)
            # exactness oracle at full precision: the text must denote the number (reported once, smallest magnitude exponent first)
            if prec == 17 and float(tok) != x and not inexact_reported:
                inexact_reported = True
                ctx.violation("impl_violation", {"value": float(x).hex(), "precision": 17, "text": tok}, expected="text that reads back as the same double",
                              observed="%r reads back as %r" % (tok, float(tok)), theorem="C32_near_integer_refuted", signature={"class": "tolerance-1e-12"})
            if p_i == 0:
                dec = "None" if not re.fullmatch(r"-?\d+", tok) or abs(x) >= 2147483647 else "(Some (%s)%%Z)" % tok
                qcases.append("(%s, %s)" % (q_lit(x), dec))
    qfails = ctx.coq_eval("c32_fmt", "From Coq Require Import ZArith QArith.\nFrom MJV Require Import Model.XmlNumFormat.\n",
                          qcases, "fun c => match c with (x, d) => match fmt_decision x, d with Some a, Some b => Z.eqb a b | None, None => true | _, _ => false end end") if qcases else []
    for k in qfails[:3]:
        ctx.violation("correspondence", {"value": float(samples[k]).hex()}, expected="fmt_decision of Model/XmlNumFormat.v", observed="writer printed otherwise",
                      found_input=False, theorem="correspondence c32 number format (Coq)")

    ctx.cov["evaluations"] = len(jobs) + len(coq_cases) + 2 * len(samples)
    ctx.cov["distinct_nontrivial"] = stats["ok"] + stats["violating"]
    ctx.cov["rule"] = ("round-trip cases that compiled (distinct generated models: schema-driven MJCF at FullFloatPrecision and at 6 digits, mjgen.h specs, "
                       "one stratum per lossy feature, fixed minimal probes); plus %d default-class-tree tie cases and %d doubles x 2 precisions for the number format") % (len(coq_cases), len(samples))
    ctx.cov["samples"] = [dict((k, v) for k, v in j[5].items() if k != "xml") for j in (jobs[0], jobs[n_core], jobs[-1])]
    ctx.cov["support"]["roundtrip"] = stats
    ctx.cov["support"]["classes"] = {k: len(v) for k, v in by_class.items()}
    ctx.cov["correspondence_disagreements"] = len(fails) + len(qfails) + fmt_bad
    ctx.cov["explanation"] = ("default-class diff/patch round trip proved for all class trees under exact comparison; refuted (witnesses) for the code's tolerance comparison, "
                              "default-class userdata and actdim; model tied on %d class trees; end-to-end identity observed on %d compiled models (%d skipped by the compiler)"
                              % (len(coq_cases), stats["ok"] + stats["violating"], stats["skip"]))
