"""C22 — sorting and selection utilities are correct and stable."""
import itertools
import framework as F

META = {
    "id": "C22", "category": "proof", "design_ref": "DESIGN.md section 4, C22",
    "technique": "Coq proof (induction over runs/merge passes) of a hand-written model + exhaustive/random exact correspondence with engine_sort.h macros",
    "text": "mjSORT and the insertion sorts are proved in Coq (for every element type, every total-preorder comparison and every length) to return a sorted, stable permutation (C22_sort, C22_insertion). mjPARTIAL_SORT is proved (C22_partial: for every element type, every sign-antisymmetric transitive three-way comparison, every length n and every k) to leave the array unchanged when k <= 0 or n < k, and otherwise to put into arr[0..k) a sorted list of k input elements such that the remaining input elements are all >= every selected one (the k smallest as a multiset), leaving arr[k..n) untouched; the proof goes through the max-heap invariant of _mjSIFT_DOWN, heapify and the scan loop. The model is tied to /repo's engine_sort.h and engine_util_misc.c by exact differential runs including tags (exhaustive over short arrays on 3 keys and all k, run-boundary lengths, random). Not proved: nothing about which of several equal keys is selected by the partial sort (it is not stable; the property does not ask for it).",
    "note": "Trusted: Coq kernel; hand-written model Model/Sort.v (runs as lists, ping-pong buffers abstracted); correspondence harness (gcc, driver c22_sort.c). Theorems are closed under the global context.",
    "assumptions": ["model abstracts array indices/buffers into lists of runs; tie is differential testing on the cases of this run"],
}


def oracle_sort(keys, out_pairs):
    """independent oracle on implementation output: sorted, permutation, stable."""
    exp = sorted([(k, i) for i, k in enumerate(keys)])  # python sort is stable; (k,i) sorted == stable by key
    return out_pairs == exp


def run(ctx):
    rng = ctx.rng
    ctx.coq_props(allowed_axioms=(), extra_targets=["Lib/Eqb.vo", "Model/Sort.vo"])
    exe = ctx.driver("c22_sort", ["c22_sort.c"])
    if exe is None:
        return
    cases = []  # (op, keys, k)
    maxlen = 7 if ctx.tier == "quick" else 9
    for n in range(0, maxlen + 1):
        for t in itertools.product(range(3), repeat=n):
            cases.append(("S", list(t), 0))
    nexh = len(cases)
    for n in (31, 32, 33, 34, 63, 64, 65, 66, 96, 97, 127, 128, 129, 130, 255, 257):
        for rep in range(2 if ctx.tier == "quick" else 10):
            hi = rng.choice([2, 5, 50, 1000])
            cases.append(("S", [rng.randrange(hi) for _ in range(n)], 0))
    for rep in range(60 if ctx.tier == "quick" else 600):
        n = rng.randrange(0, 400 if ctx.tier == "quick" else 3000)
        hi = rng.choice([2, 3, 10, 100000])
        cases.append(("S", [rng.randrange(-hi, hi) for _ in range(n)], 0))
    # partial sort: exhaustive small + random
    for n in range(0, 6 if ctx.tier == "quick" else 7):
        for t in itertools.product(range(3), repeat=n):
            for k in range(-1, n + 2):
                cases.append(("P", list(t), k))
    for rep in range(150 if ctx.tier == "quick" else 1500):
        n = rng.randrange(1, 80)
        k = rng.randrange(-1, n + 2)
        hi = rng.choice([2, 4, 1000])
        cases.append(("P", [rng.randrange(hi) for _ in range(n)], k))
    for rep in range(100 if ctx.tier == "quick" else 1000):
        n = rng.randrange(0, 60)
        ks = [rng.randrange(-20, 20) for _ in range(n)]
        cases.append(("I", ks, 0))
        cases.append(("D", ks, 0))
    inp = "".join("%s %d %s%s\n" % (op, len(ks), ("%d " % k) if op == "P" else "", " ".join(map(str, ks)))
                  for op, ks, k in cases)
    rc, out, err = ctx.run(exe, inp)
    lines = out.split("\n")
    if rc != 0 or len(lines) < len(cases):
        ctx.broken.append(("correspondence", "driver c22_sort failed", "rc=%s %s" % (rc, err[-500:])))
        return
    coq_cases = []
    distinct = set()
    nontriv = 0
    for (op, ks, k), line in zip(cases, lines):
        toks = line.split()
        if op in ("S", "P"):
            pairs = [tuple(map(int, t.split(":"))) for t in toks]
            if op == "S":
                if not oracle_sort(ks, pairs):
                    ctx.violation("impl_violation", {"op": "mjSORT", "keys": ks}, expected=sorted([(k2, i) for i, k2 in enumerate(ks)]),
                                  observed=pairs, signature={"site": "mjSORT"}, theorem="C22_sort")
                coq_cases.append("(0, 0, %s, %s)" % (F.zlist(ks), "[" + "; ".join("(%d,%d)" % p for p in pairs) + "]%Z"))
            else:
                n = len(ks)
                if 0 < k <= n:
                    head = pairs[:k]
                    allp = [(kk, i) for i, kk in enumerate(ks)]
                    # k smallest keys, sorted; selected elements must be input elements
                    ok = [p[0] for p in head] == sorted(ks)[:k] and all(p in allp for p in head) and len(set(head)) == k
                    if not ok:
                        ctx.violation("impl_violation", {"op": "mjPARTIAL_SORT", "keys": ks, "k": k}, expected=sorted(ks)[:k],
                                      observed=head, signature={"site": "mjPARTIAL_SORT"}, theorem="C22_partial")
                else:
                    if pairs != [(kk, i) for i, kk in enumerate(ks)]:
                        ctx.violation("impl_violation", {"op": "mjPARTIAL_SORT", "keys": ks, "k": k}, expected="unchanged",
                                      observed=pairs, signature={"site": "mjPARTIAL_SORT"}, theorem="C22_partial")
                coq_cases.append("(1, %d, %s, %s)" % (k, F.zlist(ks), "[" + "; ".join("(%d,%d)" % p for p in pairs) + "]%Z") if k >= 0 else
                                 "(1, (%d), %s, %s)" % (k, F.zlist(ks), "[" + "; ".join("(%d,%d)" % p for p in pairs) + "]%Z"))
        else:
            vals = list(map(int, toks))
            if vals != sorted(ks):
                ctx.violation("impl_violation", {"op": "mju_insertionSort" + ("Int" if op == "I" else ""), "keys": ks},
                              expected=sorted(ks), observed=vals, signature={"site": "mju_insertionSort"}, theorem="C22_insertion")
            coq_cases.append("(2, 0, %s, %s)" % (F.zlist(ks), "[" + "; ".join("(%d,0)" % v for v in vals) + "]%Z"))
        key = (op, tuple(ks), k)
        if key not in distinct:
            distinct.add(key)
            srt = sorted(ks)
            if ks != srt and len(set(ks)) < len(ks):
                nontriv += 1
    checker = ("fun c => match c with (op, k, ks, out) => "
               "if op =? 0 then zzlist_eqb (mjsort _ kcmp (tagged ks)) out "
               "else if op =? 1 then zzlist_eqb (partial_sort _ kcmp (tagged ks) k) out "
               "else zlist_eqb (insertion_sort_int ks) (map fst out) end")
    fails = ctx.coq_eval("c22", "From Coq Require Import ZArith.\nFrom MJV Require Import Lib.Eqb Model.Sort.\nOpen Scope Z_scope.",
                         coq_cases, checker)
    for i in fails[:5]:
        op, ks, k = cases[i]
        ctx.violation("correspondence", {"op": op, "keys": ks, "k": k}, expected="model output (Model/Sort.v)",
                      observed=lines[i], found_input=False, theorem="correspondence c22_sort",
                      note="implementation and Coq model disagree on this input, but the implementation output still satisfies the oracle")
    ctx.cov["evaluations"] = len(cases)
    ctx.cov["distinct_nontrivial"] = nontriv
    ctx.cov["exhaustive_part"] = "all arrays over 3 keys of length <= %d for mjSORT (%d cases)" % (maxlen, nexh)
    ctx.cov["rule"] = ("exhaustive arrays over keys {0,1,2} up to length %d; run-boundary lengths 31..34,63..66,127..130,255,257; random lengths; "
                       "partial sort for every k in -1..n+1 on short arrays and random; non-trivial = distinct case with at least one inversion and one duplicate key" % maxlen)
    ctx.cov["samples"] = [{"op": c[0], "keys": c[1][:40], "k": c[2]} for c in (cases[400], cases[nexh + 3], cases[-1])]
    ctx.cov["correspondence_disagreements"] = len(fails)
    ctx.cov["explanation"] = "Theorems C22_sort/C22_insertion/C22_partial proved for all inputs; model tied to engine_sort.h by exact comparison on %d cases" % len(cases)
