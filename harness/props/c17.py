"""C17 — constraint islands are the connected components of coupling."""
import itertools
import framework as F

META = {
    "id": "C17", "category": "proof", "design_ref": "DESIGN.md section 4, C17",
    "technique": "Coq proof (invariants + refinement to an inductive connectivity relation) of a hand-written model of engine_island.c + exhaustive/random exact correspondence with the exported functions on raw arrays and with mj_island on mjSpec-built models",
    "text": ("Proved in Coq, for every number of trees and every input, about a hand-written model of engine_island.c: "
             "(C17_dsu_root) mj_dsuRoot terminates, returns the canonical root and path compression preserves well-formedness and all roots; "
             "(C17_components) every sequence of admissible mj_dsuMerge calls keeps the parent array well-formed (parent[t] = -1 or <= t), activates exactly the touched trees, "
             "and two trees have the same root iff they are connected by the merges (refinement to an inductive connectivity relation), the root being the least tree of the class; "
             "(C17_assign, C17_islands) mj_dsuAssign never reads an unwritten entry, gives -1 to untouched trees and ids 0..nisland-1 in ascending order of each island's smallest tree, same id iff connected, nidof = dofs of active trees; "
             "(C17_rows) with per-row tree lists as produced by the tree iterator, efc_tree of every row is in an island and every dynamic tree of the row is in that island; "
             "(C17_maps) the counts / prefix-sum / placement construction used for trees, dofs and rows yields class sizes, their prefix sums, mutually inverse permutations, island blocks in original order, unconstrained items last; "
             "(C17_floodfill) mj_floodFill terminates and labels exactly the connected components of a symmetric graph, numbered by first vertex, -1 for vertices without edges. "
             "Tied to /repo by exact comparison of every array: exported mj_dsuMerge/mj_dsuRoot/mj_dsuAssign/mj_floodFill on raw arrays (all merge sequences over small forests with every intermediate parent array, all small graphs, random large ones) and mj_island inside mj_forward on mjSpec-built models (contacts, connect/weld/joint equalities, limits, friction loss, cross-tree tendons; plus chains of adjacent single-dof trees coupled only by generic-scan rows - joint/tendon equalities, tendon limits and friction - with the dense Jacobian forced, which exercise the dense branch of treeNext), where the per-row trees fed to the model are recomputed by the driver from the sparsity of efc_J. "
             "An independent oracle (BFS components, permutation/prefix-sum checks) runs on all implementation output. "
             "Only observed/tied, not proved: that treeIterInit/treeNext return the trees of the Jacobian row (special cases for contacts, connect/weld, friction, limits) - this is what the efc_J-based oracle tests; "
             "that nidof (sum of tree_dofnum) equals the number of dofs in islands (needs tree_dofnum consistent with dof_treeid; checked by the oracle); the composition of the three C17_maps instances into island_arrays is by inspection of Model/Island.v. "
             "Not covered: flex stiffness coupling (flex models cannot be built without the XML/plugin stack in this harness), sleeping-tree filter, arena allocation failure path."),
    "note": "Trusted: Coq kernel; hand-written model Model/Island.v (C int arrays as lists of Z, out-of-range reads modelled as a sentinel, loops with fuel whose sufficiency is proved); spec vocabulary Model/IslandSpec.v; correspondence harness (gcc, drivers c17_dsu.c, c17_island.c, mjgen.h model generator). All theorems are closed under the global context.",
    "assumptions": ["int arithmetic does not overflow (array sizes far below 2^31)",
                    "the tie is differential testing on the cases of this run; the model is hand-written",
                    "mj_island is exercised on models without flexes and with sleeping disabled"],
}

IMPORTS = "From Coq Require Import ZArith.\nFrom MJV Require Import Lib.Eqb Model.Island Model.IslandEval.\nOpen Scope Z_scope."


def zl(xs):
    return F.zlist(xs)


def zll(xss):
    return "[" + "; ".join(zl(x) for x in xss) + "]"


# ---------------------------------------------------------------- independent oracles
def components(n, merges):
    """reference partition by naive label propagation (not a union-find): active set + class of every tree"""
    cls = {}
    for a, b in merges:
        if a == -1:
            a = b
        if b == -1:
            b = a
        for t in (a, b):
            cls.setdefault(t, {t})
        if cls[a] is not cls[b]:
            u = cls[a] | cls[b]
            for t in u:
                cls[t] = u
    return cls


def expected_islands(n, cls):
    """island ids in ascending order of the smallest tree of each class; -1 for inactive trees"""
    mins = sorted({min(s) for s in cls.values()})
    rank = {m: i for i, m in enumerate(mins)}
    return [rank[min(cls[t])] if t in cls else -1 for t in range(n)], len(mins)


def oracle_flood(nr, rownnz, rowadr, colind):
    adj = [colind[rowadr[v]:rowadr[v] + rownnz[v]] for v in range(nr)]
    lab = [-1] * nr
    k = 0
    for i in range(nr):
        if lab[i] != -1 or not adj[i]:
            continue
        todo = [i]
        seen = {i}
        while todo:
            v = todo.pop(0)
            lab[v] = k
            for w in adj[v]:
                if w not in seen:
                    seen.add(w)
                    todo.append(w)
        k += 1
    return lab, k


# ---------------------------------------------------------------- case generation (raw arrays)
def csr_of_edges(nr, edges, rng=None, dup=False):
    """symmetric CSR (both directions of every edge); optionally shuffled columns and duplicates"""
    adj = [[] for _ in range(nr)]
    for (u, v) in edges:
        adj[u].append(v)
        if u != v:
            adj[v].append(u)
        if dup and rng is not None and rng.random() < 0.3:
            adj[u].append(v)
            if u != v:
                adj[v].append(u)
    rownnz, rowadr, colind = [], [], []
    for v in range(nr):
        if rng is not None:
            rng.shuffle(adj[v])
        rowadr.append(len(colind))
        rownnz.append(len(adj[v]))
        colind.extend(adj[v])
    return rownnz, rowadr, colind


def gen_raw_cases(ctx):
    rng = ctx.rng
    thorough = ctx.tier == "thorough"
    cases = []
    exh = []

    def dcase(n, ms, nq=None):
        qs = list(range(n)) if nq is None else [rng.randrange(n) for _ in range(nq)]
        rng.shuffle(qs)
        return {"op": "D" if n <= 8 or not ms else "E", "n": n, "merges": [list(m) for m in ms], "queries": qs,
                "dof": [rng.randrange(0, 7) for _ in range(n)]}

    # exhaustive: every sequence of L merges over every admissible endpoint pair (incl. -1 and self-pairs)
    plan = [(1, 2), (2, 3), (3, 2)] + ([(2, 4), (3, 3), (4, 3)] if thorough else [])
    for n, L in plan:
        pairs = [(a, b) for a in range(-1, n) for b in range(-1, n) if not (a == -1 and b == -1)]
        cnt = 0
        for ms in itertools.product(pairs, repeat=L):
            cases.append(dcase(n, ms))
            cnt += 1
        exh.append("all %d sequences of %d merges over all %d endpoint pairs on %d trees (every prefix checked)" % (cnt, L, len(pairs), n))
    # exhaustive over unordered pairs of distinct trees on more trees
    plan2 = [(4, 3), (5, 2)] + ([(5, 3), (4, 4), (5, 4), (6, 3)] if thorough else [])
    for n, L in plan2:
        pairs = [(a, b) for a in range(n) for b in range(a + 1, n)]
        if n == 6:
            pairs = [(b, a) for (a, b) in pairs]   # larger endpoint first on 6 trees
        cnt = 0
        for ms in itertools.product(pairs, repeat=L):
            cases.append(dcase(n, ms))
            cnt += 1
        exh.append("all %d sequences of %d merges of distinct trees on %d trees" % (cnt, L, n))
    nexh = len(cases)
    # random, larger
    for rep in range(150 if not thorough else 800):
        n = rng.choice([2, 3, 5, 8, 13, 30, 60, 120, 300]) if rep % 3 else rng.randrange(1, 40)
        L = rng.randrange(0, 2 * n + 2)
        ms = []
        style = rng.randrange(4)
        for _ in range(L):
            if style == 0:      # uniform
                a, b = rng.randrange(-1, n), rng.randrange(-1, n)
            elif style == 1:    # descending chains: deep parent paths before compression
                a = rng.randrange(n); b = max(-1, a - rng.randrange(0, 3))
            elif style == 2:    # merge large indices first
                a = n - 1 - min(n - 1, int(rng.expovariate(3.0 / n))); b = rng.randrange(-1, n)
            else:               # few clusters
                c = rng.randrange(1, 4); a = rng.randrange(n) // c * c % n; b = rng.randrange(-1, n)
            if a == -1 and b == -1:
                a = rng.randrange(n)
            ms.append((a, b))
        cases.append(dcase(n, ms, nq=min(n, 12)))
    # flood fill: exhaustive undirected graphs (with self loops on a second pass) + random
    fexh = []
    for nr in range(0, 5 if not thorough else 6):
        und = [(u, v) for u in range(nr) for v in range(u + 1, nr)]
        cnt = 0
        for mask in range(1 << len(und)):
            edges = [e for k, e in enumerate(und) if mask >> k & 1]
            rn, ra, ci = csr_of_edges(nr, edges)
            cases.append({"op": "F", "nr": nr, "rownnz": rn, "rowadr": ra, "colind": ci})
            cnt += 1
        fexh.append("all %d undirected graphs on %d vertices" % (cnt, nr))
    for rep in range(150 if not thorough else 800):
        nr = rng.choice([1, 2, 3, 6, 10, 25, 60, 150])
        ne = rng.randrange(0, max(1, int(nr * rng.choice([0.3, 0.7, 1.2]))) + 1)
        edges = [(rng.randrange(nr), rng.randrange(nr)) for _ in range(ne)]
        rn, ra, ci = csr_of_edges(nr, edges, rng, dup=True)
        cases.append({"op": "F", "nr": nr, "rownnz": rn, "rowadr": ra, "colind": ci})
    return cases, exh + fexh


def raw_line(c):
    if c["op"] in ("D", "E"):
        return "%s %d %d %s %d %s %s\n" % (c["op"], c["n"], len(c["merges"]), " ".join("%d %d" % tuple(m) for m in c["merges"]),
                                         len(c["queries"]), " ".join(map(str, c["queries"])), " ".join(map(str, c["dof"])))
    return "F %d %d %s %s %s\n" % (c["nr"], len(c["colind"]), " ".join(map(str, c["rownnz"])),
                                   " ".join(map(str, c["rowadr"])), " ".join(map(str, c["colind"])))


def check_raw(ctx, exe, cases):
    """runs the implementation, the oracle on its output and the Coq model; returns number of non-trivial cases"""
    rc, out, err = ctx.run(exe, "".join(raw_line(c) for c in cases))
    lines = out.split("\n")
    if rc != 0 or len(lines) < len(cases):
        ctx.broken.append(("correspondence", "driver c17_dsu failed", "rc=%s %s" % (rc, err[-500:])))
        return 0
    coq_cases = []
    nontriv = set()
    for c, line in zip(cases, lines):
        v = list(map(int, line.split()))
        if c["op"] in ("D", "E"):
            n, L, Q = c["n"], len(c["merges"]), len(c["queries"])
            if c["op"] == "E":
                L = 1
            if len(v) != L * n + Q * (n + 1) + 2 + 2 * n:
                ctx.broken.append(("correspondence", "driver c17_dsu output malformed", line[:200]))
                return 0
            outs = [v[k * n:(k + 1) * n] for k in range(L)]
            o = L * n
            qs = []
            for q in c["queries"]:
                qs.append((q, v[o], v[o + 1:o + 1 + n]))
                o += n + 1
            nisland, nidof = v[o], v[o + 1]
            island = v[o + 2:o + 2 + n]
            parent = v[o + 2 + n:o + 2 + 2 * n]
            cls = components(n, [tuple(m) for m in c["merges"]])
            exp_island, exp_n = expected_islands(n, cls)
            exp_nidof = sum(c["dof"][t] for t in cls)
            if island != exp_island or nisland != exp_n or nidof != exp_nidof:
                ctx.violation("impl_violation", c, expected={"island": exp_island, "nisland": exp_n, "nidof": exp_nidof},
                              observed={"island": island, "nisland": nisland, "nidof": nidof},
                              signature={"site": "mj_dsuMerge/mj_dsuAssign"}, theorem="C17_assign",
                              note="island ids must be the connected components of the merge list numbered in ascending order of their smallest tree")
            coq_cases.append("chk%s %d [%s] %s [%s] %s %s %s %s %s" % (
                c["op"], n, "; ".join("(%s,%s)" % (zint(a), zint(b)) for a, b in c["merges"]), zll(outs) if c["op"] == "D" else zl(outs[0]),
                "; ".join("(%d,%s,%s)" % (q, zint(r), zl(p)) for q, r, p in qs), zl(c["dof"]), zint(nisland), zint(nidof),
                zl(island), zl(parent)))
            if any(len(s) >= 3 for s in cls.values()) and len({min(s) for s in cls.values()}) >= 1:
                nontriv.add(("D", n, tuple(map(tuple, c["merges"]))))
        else:
            nr = c["nr"]
            if len(v) != nr + 1:
                ctx.broken.append(("correspondence", "driver c17_dsu output malformed", line[:200]))
                return 0
            nisland, island = v[0], v[1:]
            exp, expn = oracle_flood(nr, c["rownnz"], c["rowadr"], c["colind"])
            if island != exp or nisland != expn:
                ctx.violation("impl_violation", c, expected={"island": exp, "nisland": expn},
                              observed={"island": island, "nisland": nisland},
                              signature={"site": "mj_floodFill"}, theorem="C17_floodfill",
                              note="labels must be the connected components numbered by first vertex, -1 for vertices without edges")
            coq_cases.append("chkF %d %s %s %s %s %s" % (nr, zl(c["rownnz"]), zl(c["rowadr"]), zl(c["colind"]), zint(nisland), zl(island)))
            if expn >= 2 and len(c["colind"]) >= 4:
                nontriv.add(("F", nr, tuple(c["rownnz"]), tuple(c["colind"])))
    fails = ctx.coq_eval("c17raw", IMPORTS, coq_cases, "fun b : bool => b", shard=500)
    for i in fails[:5]:
        ctx.violation("correspondence", cases[i], expected="model output (Model/Island.v)", observed=lines[i][:400],
                      found_input=False, theorem="correspondence c17_dsu",
                      signature={"site": "mj_dsu*" if cases[i]["op"] in ("D", "E") else "mj_floodFill"},
                      note="implementation and Coq model disagree on this input, but the implementation output still satisfies the oracle")
    ctx.cov["correspondence_disagreements"] = ctx.cov.get("correspondence_disagreements", 0) + len(fails)
    return len(nontriv)


# ---------------------------------------------------------------- whole mj_island on mjSpec models
ARR_NAMES = ["island_ntree", "island_itreeadr", "map_itree2tree", "dof_island", "island_nv", "island_idofadr",
             "island_dofadr", "map_dof2idof", "map_idof2dof", "efc_island", "island_ne", "island_nf", "island_nefc",
             "island_iefcadr", "map_efc2iefc", "map_iefc2efc"]


ISLAND_ERRORS = ("mj_island", "treeIterInit", "unionConstraintTrees", "mj_dsuMerge", "static bodies", "no tree found",
                 "miscount", "self-incidence")


def gen_model_cases(ctx):
    rng = ctx.rng
    thorough = ctx.tier == "thorough"
    cases = []
    ALL = 0x7FFFF
    for rep in range(14 if not thorough else 80):
        feat = ALL if rep % 3 == 0 else (rng.getrandbits(19) | (1 << 15) | (1 << 3) | (1 << 0))   # multitree, contact, free
        cases.append({"op": "G", "seed": rng.randrange(1, 10 ** 6), "feat": feat, "nbody": rng.choice([2, 5, 10, 20, 30]),
                      "jac": int(rng.random() < 0.8), "steps": rng.choice([0, 0, 3])})
    for rep in range(22 if not thorough else 120):
        cases.append({"op": "P", "seed": rng.randrange(1, 10 ** 6), "nbody": rng.choice([1, 2, 3, 5, 8, 12, 20, 35, 60]),
                      "jac": int(rng.random() < 0.8), "steps": rng.choice([0, 0, 0, 2])})
    # chains of single-dof trees coupled through generic-scan rows (joint/tendon equalities, tendon limits and
    # friction), dense Jacobian forced in most cases: exercises the dense branch of the tree iterator
    for rep in range(24 if not thorough else 120):
        cases.append({"op": "C", "seed": rng.randrange(1, 10 ** 6), "nbody": rng.choice([2, 2, 3, 4, 6, 10, 20, 40]),
                      "jac": rng.choice([0, 0, 0, 0, 2, 1]), "steps": rng.choice([0, 0, 0, 1])})
    return cases


def model_line(c):
    if c["op"] == "G":
        return "G %d %d %d %d %d\n" % (c["seed"], c["feat"], c["nbody"], c["jac"], c["steps"])
    return "%s %d %d %d %d\n" % (c["op"], c["seed"], c["nbody"], c["jac"], c["steps"])


def parse_model_output(line):
    v = list(map(int, line.split()))
    pos = [0]

    def take(n):
        r = v[pos[0]:pos[0] + n]
        if len(r) != n:
            raise ValueError("short output")
        pos[0] += n
        return r
    ntree, nv, nefc, ni, nidof = take(5)
    o = {"ntree": ntree, "nv": nv, "nefc": nefc, "nisland": ni, "nidof": nidof}
    o["tree_dofnum"] = take(ntree)
    o["dof_treeid"] = take(nv)
    rows, cls = [], []
    for _ in range(nefc):
        c, k = take(2)
        cls.append(c)
        rows.append(take(k))
    o["rows"], o["cls"] = rows, cls
    o["efc_type"], o["efc_id"] = take(nefc), take(nefc)
    if ni > 0:
        o["tree_island"] = take(ntree)
        sizes = {"island_ntree": ni, "island_itreeadr": ni, "map_itree2tree": ntree, "dof_island": nv, "island_nv": ni,
                 "island_idofadr": ni, "island_dofadr": ni, "map_dof2idof": nv, "map_idof2dof": nv, "efc_island": nefc,
                 "island_ne": ni, "island_nf": ni, "island_nefc": ni, "island_iefcadr": ni, "map_efc2iefc": nefc, "map_iefc2efc": nefc}
        for nm in ARR_NAMES:
            o[nm] = take(sizes[nm])
        o["iefc_type"], o["iefc_id"] = take(nefc), take(nefc)
    if pos[0] != len(v):
        raise ValueError("trailing output")
    return o


def oracle_model(o):
    """independent check of the property statement on the implementation's output; returns list of complaints"""
    bad = []
    ntree, nv, nefc, ni = o["ntree"], o["nv"], o["nefc"], o["nisland"]
    # components of the tree/row incidence graph by breadth-first search
    adj = {t: set() for t in range(ntree)}
    act = set()
    for r in o["rows"]:
        if not r:
            bad.append("a constraint row without any tree")
        for t in r:
            act.add(t)
            adj[t].update(r)
    comp = {}
    order = []
    for t in sorted(act):
        if t in comp:
            continue
        comp[t] = len(order)
        todo = [t]
        while todo:
            x = todo.pop()
            for y in adj[x]:
                if y not in comp:
                    comp[y] = len(order)
                    todo.append(y)
        order.append(t)
    exp_ti = [comp.get(t, -1) for t in range(ntree)]
    if ni == 0:
        if act:
            bad.append("constraint rows exist but nisland == 0")
        return bad, exp_ti
    if ni != len(order) or o["tree_island"] != exp_ti:
        bad.append("tree_island is not the component numbering by smallest tree: expected %s got %s" % (exp_ti, o["tree_island"]))
        return bad, exp_ti
    ti = o["tree_island"]
    if o["dof_island"] != [ti[t] for t in o["dof_treeid"]]:
        bad.append("dof_island[d] != tree_island[dof_treeid[d]]")
    for c, r in enumerate(o["rows"]):
        if any(ti[t] != o["efc_island"][c] for t in r) or o["efc_island"][c] < 0:
            bad.append("efc_island[%d] is not the island of every tree of the row" % c)
            break
    ncon = sum(1 for x in o["dof_island"] if x >= 0)
    if o["nidof"] != ncon or o["nidof"] != sum(o["tree_dofnum"][t] for t in act):
        bad.append("nidof %d != number of constrained dofs %d" % (o["nidof"], ncon))

    def check_maps(what, key, cnt, adr, fwd, inv, base):
        n = len(key)
        if cnt != [sum(1 for x in key if x == k) for k in range(ni)]:
            bad.append("%s: per-island counts wrong" % what)
        if adr != [sum(1 for x in key if 0 <= x < k) for k in range(ni)]:
            bad.append("%s: address array is not the prefix sum of the counts" % what)
        if inv is not None and sorted(inv) != list(range(n)):
            bad.append("%s: inverse map is not a permutation" % what)
        if fwd is not None:
            if sorted(fwd) != list(range(n)):
                bad.append("%s: forward map is not a permutation" % what)
            elif inv is not None and any(inv[fwd[i]] != i for i in range(n)):
                bad.append("%s: maps are not mutually inverse" % what)
        m = fwd if fwd is not None else ([inv.index(i) for i in range(n)] if sorted(inv) == list(range(n)) else None)
        if m is not None:
            for i in range(n):
                k = key[i]
                if k >= 0 and not (adr[k] <= m[i] < adr[k] + cnt[k]):
                    bad.append("%s: item %d of island %d is outside the island's block" % (what, i, k)); break
                if k < 0 and m[i] < base:
                    bad.append("%s: unconstrained item %d is placed among the constrained ones" % (what, i)); break
    check_maps("trees", ti, o["island_ntree"], o["island_itreeadr"], None, o["map_itree2tree"], sum(1 for x in ti if x >= 0))
    check_maps("dofs", o["dof_island"], o["island_nv"], o["island_idofadr"], o["map_dof2idof"], o["map_idof2dof"], ncon)
    check_maps("rows", o["efc_island"], o["island_nefc"], o["island_iefcadr"], o["map_efc2iefc"], o["map_iefc2efc"], nefc)
    if sorted(o["map_idof2dof"]) == list(range(nv)) and o["island_dofadr"] != [o["map_idof2dof"][a] for a in o["island_idofadr"]]:
        bad.append("island_dofadr is not the first dof of each island")
    if o["island_ne"] != [sum(1 for c in range(nefc) if o["efc_island"][c] == k and o["cls"][c] == 0) for k in range(ni)]:
        bad.append("island_ne wrong")
    if o["island_nf"] != [sum(1 for c in range(nefc) if o["efc_island"][c] == k and o["cls"][c] == 1) for k in range(ni)]:
        bad.append("island_nf wrong")
    if sorted(o["map_efc2iefc"]) == list(range(nefc)):
        if any(o["iefc_type"][o["map_efc2iefc"][c]] != o["efc_type"][c] or o["iefc_id"][o["map_efc2iefc"][c]] != o["efc_id"][c] for c in range(nefc)):
            bad.append("iefc_type/iefc_id are not efc_type/efc_id permuted by map_efc2iefc")
    return bad, exp_ti


def check_models(ctx, exe, cases):
    # the driver flushes one line per case; if the implementation crashes on a case, the cases before
    # it are still checked, the crash is reported with that case, and the run resumes after it
    lines = []
    start = 0
    crashes = 0
    while start < len(cases):
        rc, out, err = ctx.run(exe, "".join(model_line(c) for c in cases[start:]), timeout=900)
        got = out.split("\n")[:-1]
        lines.extend(got[:len(cases) - start])
        if rc == 0 and len(got) >= len(cases) - start:
            break
        # the driver prints "X crash <phase>" from its signal handler before dying
        if got and got[-1].startswith("X crash"):
            k = start + len(got) - 1
            where = got[-1].split()[-1]
        else:
            k = start + len(got)
            where = "unknown"
            lines.append("X crash unknown")
        if k >= len(cases):
            break
        crashes += 1
        if where == "compile":
            ctx.cov["support"].setdefault("compile_crashes_not_attributed_to_islands", []).append(cases[k])
        elif crashes <= 3:
            ctx.violation("impl_violation", cases[k], expected="mj_step/mj_forward (with mj_island) returns and all island arrays are in range",
                          observed="driver c17_island died with rc=%s in phase %s on this model (%s)" % (rc, where, err[-200:]),
                          signature={"site": "mj_island", "crash": True}, theorem="C17_maps",
                          note="the simulation step containing island discovery crashed: index maps / address arrays out of range")
        start = k + 1
        if crashes > 20:
            ctx.broken.append(("correspondence", "driver c17_island keeps crashing", "rc=%s %s" % (rc, err[-300:])))
            return 0, 0
    coq_cases, idx = [], []
    nontriv = set()
    skipped = 0
    nerr = 0
    for k, (c, line) in enumerate(zip(cases, lines)):
        if line.startswith("X"):
            skipped += 1
            # an engine error raised by island discovery itself on a valid model is a failing input
            if any(w in line for w in ISLAND_ERRORS) and nerr < 3:
                nerr += 1
                ctx.violation("impl_violation", c, expected="mj_island partitions the trees of this model",
                              observed=line[:300], signature={"site": "mj_island", "error": True}, theorem="C17_rows",
                              note="island discovery raised an engine error on a model whose constraint rows all have a dynamic tree")
            continue
        try:
            o = parse_model_output(line)
        except ValueError as e:
            ctx.broken.append(("correspondence", "driver c17_island output malformed (%s)" % e, line[:200]))
            return 0, 0
        bad, exp_ti = oracle_model(o)
        if bad:
            ctx.violation("impl_violation", c, expected={"tree_island": exp_ti}, observed={"complaints": bad[:4], "nisland": o["nisland"],
                          "tree_island": o.get("tree_island"), "rows": o["rows"][:60]},
                          signature={"site": "mj_island"}, theorem="C17_islands/C17_maps", note=bad[0])
        if o["nisland"] > 0:
            coq_cases.append("chkI %d %s %s %s %s %d %d %s %s" % (
                o["ntree"], zl(o["tree_dofnum"]), zl(o["dof_treeid"]), zll(o["rows"]), zl(o["cls"]), o["nisland"], o["nidof"],
                zl(o["tree_island"]), zll([o[nm] for nm in ARR_NAMES])))
            idx.append(k)
            sizes = sorted(o["island_ntree"])
            if o["nisland"] >= 2 and sizes[-1] >= 2 and any(x < 0 for x in o["tree_island"]):
                nontriv.add((c["op"], c["seed"], c["nbody"]))
    if skipped > len(cases) // 2:
        ctx.broken.append(("correspondence", "more than half of the generated models do not compile or run", lines[0][:300]))
    fails = ctx.coq_eval("c17isl", IMPORTS, coq_cases, "fun b : bool => b", shard=20)
    for i in fails[:5]:
        c = cases[idx[i]]
        ctx.violation("correspondence", c, expected="model output (Model/Island.v: island_model)", observed=lines[idx[i]][:600],
                      found_input=False, theorem="correspondence c17_island", signature={"site": "mj_island"},
                      note="mj_island and the Coq model disagree on this model, but the output still satisfies the oracle")
    ctx.cov["correspondence_disagreements"] = ctx.cov.get("correspondence_disagreements", 0) + len(fails)
    ctx.cov["support"]["models_with_islands"] = len(coq_cases)
    ctx.cov["support"]["models_skipped"] = skipped
    return len(coq_cases), len(nontriv)


def zint(x):
    return "(%d)" % x if x < 0 else str(x)


def run(ctx):
    ctx.coq_props(allowed_axioms=(), extra_targets=["Lib/Eqb.vo", "Model/Island.vo", "Model/IslandEval.vo"])
    exe = ctx.driver("c17_dsu", ["c17_dsu.c"])
    exe2 = ctx.driver("c17_island", ["c17_island.c"])
    if exe is None or exe2 is None:
        return
    rep = ctx.replay.get("case") if ctx.replay else None
    if rep and rep.get("op") in ("D", "E", "F"):
        cases, exh, mcases = [rep], [], []
    elif rep and rep.get("op") in ("G", "P", "C"):
        cases, exh, mcases = [], [], [rep]
    else:
        cases, exh = gen_raw_cases(ctx)
        mcases = gen_model_cases(ctx)
    nontriv = check_raw(ctx, exe, cases) if cases else 0
    nmod, nontriv2 = check_models(ctx, exe2, mcases) if mcases else (0, 0)
    ctx.cov["evaluations"] = len(cases) + nmod
    ctx.cov["distinct_nontrivial"] = nontriv + nontriv2
    ctx.cov["exhaustive_part"] = "; ".join(exh)
    ctx.cov["rule"] = ("non-trivial = distinct merge sequence producing a class of >= 3 trees, or distinct graph with >= 2 components and "
                       ">= 4 stored entries, or distinct generated model with >= 2 islands, an island of >= 2 trees and an unconstrained tree")
    ctx.cov["samples"] = ([cases[len(cases) // 3], cases[-1]] if len(cases) > 3 else cases) + mcases[:2]
    ctx.cov["explanation"] = ("Theorems proved for all inputs; model tied to engine_island.c by exact comparison of every array on %d raw-array "
                              "cases and %d mjSpec-built models" % (len(cases), nmod))
