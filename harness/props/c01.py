"""C01 — simulation is a deterministic function of the integration state."""
import json, os, re, sys
import framework as F
sys.path.insert(0, os.path.join(F.VERIF, "translate"))
import stages2v, frames2v

META = {
    "id": "C01", "category": "proof", "design_ref": "DESIGN.md section 4, C01",
    "technique": "Coq: noninterference of the regenerated pipeline programs by a proved-sound read/write-frame dataflow analysis; stage frames validated on the implementation by garbage injection; end-to-end bitwise determinism oracle over copy/set/reset receivers",
    "text": "Proved (Coq, closed, for every interpretation of the stage functions that respects the frame table): for the mj_forward and mj_step programs regenerated from engine_forward.c (all four integrators, no control callback, no passive flex contact), two mjData that agree on the integration state (and on the sleep bookkeeping arrays, constant while sleeping is disabled) end with identical values in every field the analysis marks as defined, whatever the other fields held; the listed outputs (positions, contacts, constraint forces, qacc, next state) are in that set. The frame table (harness/c01_table.json: reads / always-written / maybe-written fields per stage) is a hand-curated hypothesis: every run validates it on the real stage functions by filling everything outside a stage's read set with garbage. The end-to-end clause (bit-identical results after mj_copyData, mj_copyState or mj_setState into a fresh, reset or previously used mjData; forward, step, 3 steps, forward+inverse) is checked on the implementation: that part is validation, not proof. mj_inverse's internals, plugins, user callbacks and sleeping-enabled runs are not modelled.",
    "note": "Trusted: Coq kernel; translate/stages2v.py and frames2v.py; the frame table (validated by execution only); harness drivers c01_frames.c, mjgen.h; gcc. Theorems closed under the global context.",
    "assumptions": ["stage frames of harness/c01_table.json (validated by garbage injection on every run, not proved)",
                    "no control callback, no passive flex contact, sleeping disabled (theorem and frame table; the end-to-end clause also runs with sleeping enabled)",
                    "frame table validated with the dense constraint Jacobian only (sparse Jacobian: end-to-end clause only)"],
}
ALLF = 0x7FFFF
# fields defined by mj_inverse from (integration state, qacc): position and velocity stage quantities, the
# inverse outputs, energy and sensors
INV_FIELDS = ["qfrc_inverse", "energy", "sensordata", "xpos", "xquat", "xmat", "xipos", "ximat", "geom_xpos", "geom_xmat",
              "site_xpos", "site_xmat", "subtree_com", "cinert", "cdof", "cvel", "cdof_dot", "qfrc_bias", "qfrc_passive",
              "qfrc_constraint", "ten_length", "ten_velocity", "actuator_length", "actuator_velocity", "qM", "qLD"]
TABLE = os.path.join(F.VERIF, "harness", "c01_table.json")


def gen(ctx):
    def g():
        try:
            return {"Gen/Pipeline.v": stages2v.translate(ctx.repo), "Gen/StageSets.v": frames2v.translate(TABLE)}
        except stages2v.TranslatorError as e:
            raise F.TranslatorError(str(e))
    return g


def run(ctx):
    rng = ctx.rng
    ctx.coq_props(allowed_axioms=(), gen=gen(ctx))
    table = json.load(open(TABLE))
    # the sets of fields on which the theorem guarantees agreement, computed by Coq
    okr, out = ctx.coq_run("c01_sets", """From Coq Require Import String List.
From MJV Require Import Model.Pipeline Model.Frames Gen.Pipeline Gen.StageSets Proof.C04Proof Proof.C01Proof.
Import ListNotations. Open Scope string_scope.
Definition show (p : prog) (v : string) := match flow_of p v with Some D => D | None => ["<none>"] end.
Eval vm_compute in (show prog_forward "mjINT_EULER").
Eval vm_compute in (show prog_step "mjINT_EULER").
Eval vm_compute in (show prog_step "mjINT_RK4").
Eval vm_compute in (show prog_step "mjINT_IMPLICIT").
""")
    sets = []
    if okr:
        for body in re.findall(r"=\s*\[(.*?)\]\s*:\s*list string", out, flags=re.S):
            sets.append(re.findall(r'"([^"]*)"', body))
    if len(sets) != 4 or any(s == ["<none>"] for s in sets):
        ctx.broken.append(("proof", "dataflow analysis of the regenerated programs fails (def-before-use)", out[-800:]))
        return
    Dfwd, Deuler, Drk4, Dimpl = sets
    ctx.cov["defined_fields"] = {"forward": len(Dfwd), "step_euler": len(Deuler), "step_rk4": len(Drk4), "step_implicit": len(Dimpl)}
    exe = ctx.driver("c01_frames", ["c01_frames.c"])
    if exe is None:
        return
    lines, meta = [], []
    nval = 6 if ctx.tier == "quick" else 60
    for i in range(nval):
        seed = rng.randrange(1, 10**6); feat = ALLF if i % 2 == 0 else rng.randrange(0, ALLF + 1); nb = 1 + rng.randrange(6); en = rng.choice([0, 2, 4, 6]) | (rng.choice([0, 1, 2, 3]) << 8) | (rng.choice([0, 1, 2]) << 10) | (rng.choice([0, 1, 2, 3]) << 12) | (rng.choice([0, 0, 1, 1, 3] + list(range(2, 16))) << 14) | (rng.choice([0, 0, 0, 1]) << 18)
        en &= ~(3 << 12)   # frame table is validated with the dense Jacobian (nv < 60: auto = dense); the sparse index arrays are outside it
        for st, fr in table["frames"].items():
            R, W = fr["reads"], fr["must"]
            WA = sorted(set(fr["must"]) | set(fr["may"]))
            lines.append("V %d %d %d %d %s %d %s %d %s %d %s" % (seed, feat, nb, en, st, len(R), " ".join(R), len(W), " ".join(W), len(WA), " ".join(WA)))
            meta.append(("V", st))
    ne2e = 25 if ctx.tier == "quick" else 300
    extra = ["sensordata", "energy"]
    # fixed corpus: sleeping enabled, receiver previously used for other steps (known finding C01-F1)
    FLfix = sorted(set(Dfwd) | set(extra))
    lines.append("E 717640 524287 5 1 670468 4 mj_forward_inverse %d %s" % (len(FLfix), " ".join(FLfix)))
    meta.append(("E", "mj_forward_inverse recv=4 integ=1"))
    for i in range(ne2e):
        seed = rng.randrange(1, 10**6); feat = ALLF if i % 3 == 0 else rng.randrange(0, ALLF + 1); nb = 1 + rng.randrange(6); en = rng.choice([0, 2, 4, 6]) | (rng.choice([0, 1, 2, 3]) << 8) | (rng.choice([0, 1, 2]) << 10) | (rng.choice([0, 1, 2, 3]) << 12) | (rng.choice([0, 0, 1, 1, 3] + list(range(2, 16))) << 14) | (rng.choice([0, 0, 0, 1]) << 18)
        if i % 4 == 3:
            en |= 1 << 19      # sleeping enabled (end-to-end clause only; the frame table assumes it off)
        if i % 3 == 1:
            en |= 1 << 20      # multi-input (PID) actuators appended: nu > nactuator
        if i % 5 == 2:
            # partial-island scenes (some trees in contact, others in flight); half of them with a cold start
            en = (en & ~(1 << 20)) | (1 << 21)
            if i % 2 == 0:
                en = (en & ~(15 << 14)) | (rng.choice([1, 3, 7, 13]) << 14)
        if i % 6 == 4:
            # history buffers (mjSTATE_HISTORY is part of the integration state): interval / delayed / interpolating sensors, delayed controls
            en = (en & ~((1 << 20) | (1 << 21))) | (1 << 22)
        for recv in range(5):
            integ = rng.choice([0, 1, 2, 3])
            D = {0: Deuler, 1: Drk4, 2: Dimpl, 3: Dimpl}[integ]
            fn = rng.choice(["mj_forward", "mj_step", "mj_step3", "mj_forward_inverse", "mj_inverse_q"])
            if fn == "mj_inverse_q":
                # mj_inverse alone (qacc set by the driver): compare what inverse dynamics defines
                FL = sorted(INV_FIELDS)
            else:
                FL = sorted(set(Dfwd if fn in ("mj_forward", "mj_forward_inverse") else D) | set(extra))
            lines.append("E %d %d %d %d %d %d %s %d %s" % (seed, feat, nb, integ, en, recv, fn, len(FL), " ".join(FL)))
            meta.append(("E", "%s recv=%d integ=%d" % (fn, recv, integ)))
    rc, outp, err = ctx.run(exe, "\n".join(lines) + "\n", timeout=2400)
    res = outp.strip().split("\n")
    if rc != 0 or len(res) != len(lines):
        ctx.broken.append(("correspondence", "driver c01_frames failed", "rc=%s lines=%d/%d %s" % (rc, len(res), len(lines), err[-400:])))
        return
    nontriv = set()
    for (kind, what), inp, l in zip(meta, lines, res):
        if l.startswith("OK"):
            nontriv.add(inp[:80])
            continue
        if l.startswith("ERR compile"):
            continue
        if kind == "V":
            ctx.violation("correspondence", {"driver_input": inp[:300]}, expected="stage respects its frame", observed=l[:400],
                          theorem="frame table entry of %s (hypothesis of C01_noninterference)" % what, found_input=False,
                          signature={"site": what, "what": "frame"})
        else:
            toks = inp.split()
            sleeping = bool((int(toks[5]) >> 19) & 1)
            differing = l.split()[2:] if l.startswith("DIFF") else []
            if sleeping and "tree_asleep" in differing:
                # the sleep countdown per tree (tree_asleep) is not a component of mjSTATE_INTEGRATION
                sig = {"option": "mjENBL_SLEEP", "class": "sleep-timers-not-in-integration-state"}
            else:
                sig = {"site": what.split()[0], "what": "two mjData with the same integration state diverge"}
            ctx.violation("impl_violation", {"driver_input": inp[:160] + " ...", "case": what}, expected="bitwise identical fields", observed=l[:400],
                          theorem="C01_noninterference", signature=sig)
    ctx.cov["evaluations"] = len(lines)
    ctx.cov["distinct_nontrivial"] = len(nontriv)
    ctx.cov["rule"] = ("frame validation: every stage of the table x random mjgen models, garbage outside the read set, must-fields compared and nothing outside must+may written; "
                       "(solver and cone drawn per model: default/PGS/CG/Newton, pyramidal/elliptic) end-to-end: random models x receivers {copyData, copyState into fresh / reset / used, setState into used} x {forward, step, 3 steps, forward+inverse} x integrators, "
                       "comparing exactly the fields the Coq analysis marks as defined (+ sensordata, energy); every sixth model carries history buffers (interval / delayed / interpolating sensors, delayed controls: mjSTATE_HISTORY); non-trivial = distinct case that ran")
    ctx.cov["samples"] = [lines[0][:200], lines[-1][:200]]
    ctx.cov["translator_inputs"] = ["src/engine/engine_forward.c", "include/mujoco/mjtype.h", "harness/c01_table.json"]
    ctx.cov["explanation"] = "noninterference theorem over regenerated programs and the frame table; table and end-to-end determinism validated on %d implementation runs" % len(lines)
