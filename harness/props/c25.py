"""C25 — analytic derivatives match finite differences."""
import math
import framework as F

META = {
    "id": "C25", "category": "proof", "design_ref": "DESIGN.md section 4, C25",
    "technique": "Coq proofs (over R for the force kernels; induction over the evaluation list for the finite-difference skeleton, citing the C26 state-API theorems) of a Gallina model (Model/Deriv.v) + float correspondence of the linear-terms model with mjd_actuator_vel + mjd_passive_vel + independent finite-difference oracles on qDeriv, mjd_transitionFD and mjd_inverseFD, and state comparison before/after",
    "text": "filled in below", "note": "filled in below",
    "assumptions": [
        "numeric theorems are about exact real arithmetic; IEEE rounding is outside every theorem (the kernel model is run at binary64 only for the tie)",
        "hand-written model Model/Deriv.v; the tie is differential testing on the models/states of this run",
        "the finite-difference skeleton is modelled over the C26 state-API model (mjData = field -> list of values); that mj_stepSkip and the nudges keep array sizes is a premise of the theorem",
        "finite-difference oracles use eps = 1e-6 and the tolerances stated in META.text",
    ],
}
META["text"] = (
    "Proved in Coq about Model/Deriv.v: (C25_linear_terms, over R, all inputs) for dof damping with zero polynomial coefficients, tendon damping through an arbitrary Jacobian row J and actuators with affine gain and bias through an arbitrary moment row J, "
    "the generalized force is affine in qvel and its exact secant slope for EVERY perturbation w equals what the analytic code adds to qDeriv (-damping on the diagonal; J^T B J with B = -mjd_xPolyForce; J^T (biasprm[2] + gainprm[2]*input) J as computed by mjd_actuator_vel, for every input, in particular the control clamped to ctrlrange that the code uses since /repo e72d433e4); "
    "(C25_poly_damping_partial, over R, Coquelicot) for the general polynomial damping loops mju_polyForce / mjd_xPolyForce with any number of coefficients and v <> 0, the slope mjd_passive_vel puts on the diagonal is the derivative of the dof damping force -v*polyForce(b, poly, |v|) (v = 0 and the tendon composition are not covered); "
    "(C25_clamped_diff, over R) every branch of clampedDiff (forward, backward, centred) returns the exact slope of an output that is affine in the perturbed variable and zeros when no direction is given; the control loop of mjd_stepFD (nudge_fwd / nudge_back chosen with inRange as written, any flg_centered, limited or not, control inside / at the edge of / outside ctrlrange, any eps > 0) applied to an output affine in the clamped control returns the exact slope whenever a nudge is allowed and zero otherwise, and allowed nudges stay inside the range; "
    "(C25_fd_restores, all tables/evaluations) the save / nudge / mj_stepSkip / mj_setState skeleton of mjd_stepFD (which mjd_transitionFD wraps), for every table of state elements with distinct fields (C26), every restore signature the state API accepts, every list of perturbed evaluations and "
    "whatever the evaluations do to mjData (keeping array sizes): no state-API error and every component of the restore signature ends with its initial contents (proved from C26_set_get); C25_restore_spec_resolves / C25_fd_restores_mjdata: on the state table regenerated from the working tree, for every model and both restore signatures of mjd_stepFD (mjSTATE_FULLPHYSICS|mjSTATE_CTRL with and without mjSTATE_WARMSTART; the numeric values are compared with the header on every run) the fields time, qpos, qvel, act, ctrl, plugin_state (and qacc_warmstart) end with their initial contents; "
    "(C25_fd_restores_inverse_partial) the save-entry / nudge / inverse / restore-entry skeleton of mjd_inverseFD leaves qpos, qvel, qacc unchanged PROVIDED the inverse-dynamics call does not write those fields (premise). "
    "NOT proved (oracle only, on implementation output): the numerical agreement itself. qDeriv of mjd_smooth_vel (dense-ified) is compared with own centred finite differences of qfrc_actuator + qfrc_passive - qfrc_bias w.r.t. qvel (1e-5 scaled) on mjgen models with damping, springs, tendons, "
    "every mjgen actuator kind plus damper, cylinder, intvelocity, muscle, DC-motor and PID actuators, inertia-box and ellipsoid fluid forces (ellipsoid-fluid capsules, cylinders, spheres, ellipsoids and boxes, off-centre, on hinge+slide / ball / free parents, in media with density only, viscosity only and both), all four integrator settings (under implicitfast, which symmetrizes the fluid blocks by design, the symmetric parts are compared); mjd_transitionFD forward vs centred to differencing accuracy on smooth models (a scaled gap above 5e-5 is re-examined with forward differences at eps/4 and must shrink by more than 2x, truncation error shrinking 4x, unless below the roundoff floor 1e-7; the same rule for forward D vs own centred differences and for the forward-only mjd_inverseFD with cheap threshold 1e-4), mjd_transitionFD centred vs own centred differences of mj_step (1e-5 scaled), "
    "the sensor Jacobians C (centred) and D (forward and centred) vs own centred differences of mj_step + sensordata (actuatorfrc / jointactuatorfrc sensors on every actuator; 1e-5 scaled), the D entry of a one-actuator model with the control inside / exactly at / within eps of / outside ctrlrange and ranges narrower than eps against the documented one-sided behaviour, the static clampedDiff on random vectors for the four pointer patterns; "
    "mjd_inverseFD DfDv/DfDa vs own centred differences of mj_inverse (1e-4 scaled); input state before/after mjd_transitionFD and mjd_inverseFD by mj_getState(mjSTATE_INTEGRATION) memcmp plus mjcmp.h field comparison (no state field may differ; qacc for inverseFD). "
    "Not covered by any theorem: mjd_rne_vel, fluid and muscle derivatives, DC-motor / SO3 / PID terms, flex, polynomial tendon damping. "
    "Tie: Model/Deriv.v clampedDiff is run at binary64 against the static clampedDiff, and ctrl_column (nudge selection + clampedDiff on the clamped control) against the D entry mjd_transitionFD returns on the one-actuator model; the linear-terms model (actuators with fixed/affine gain and none/affine bias incl. the forcerange skip, tendon and dof damping) is evaluated at binary64 inside Coq and compared with the dense-ified result of mjd_actuator_vel + mjd_passive_vel on the entries of the qDeriv sparsity pattern.")
META["note"] = ("Trusted: Coq kernel + standard-library real-number axioms listed in trusted_base (the finite-difference theorems are closed under the global context); hand-written model Model/Deriv.v; the C26 state-API model and its generated table (Gen/StateTable.v, regenerated by C26's translator); "
                "correspondence harness (gcc, driver c25_deriv.c, mjgen.h, mjcmp.h).")

TOL = "0x1p-30"
GAIN_AFFINE, INT_IMPLICIT, INT_IMPLICITFAST = 1, 2, 3
MJMINVAL = 1e-15

SIG_F1 = {"site": "addJTBJSparse", "class": "coupling-outside-qDeriv-sparsity"}
SIG_F2 = {"site": "mjd_actuator_vel", "class": "unclamped-ctrl-in-velocity-gain"}
SIG_F3 = {"site": "mjd_viscous_drag", "class": "mjMINVAL-guard-small-geoms"}     # fixed in /repo 186c34282; no longer attributed
SIG_F5 = {"site": "mj_viscousForces", "class": "kutta-cos-alpha-absolute-guard"}
SIG_F4 = {"site": "mjd_stepFD", "class": "implicit-skipfactor-with-ctrl-act-dependent-qDeriv"}


def unhx(t):
    t = t.strip()
    if t in ("nan", "-nan", "+nan"):
        return math.nan
    if t in ("inf", "+inf"):
        return math.inf
    if t == "-inf":
        return -math.inf
    return float.fromhex(t)


def hx(x):
    return "nan" if x != x else float(x).hex()


def split_blocks(out):
    blocks, cur = [], []
    for l in out.split("\n"):
        if l.strip() == "END":
            blocks.append(cur)
            cur = []
        elif l.strip():
            cur.append(l)
    return blocks


def reps_of(lines):
    """split a block into (info dict, list of rep line lists)"""
    info, reps, cur = {}, [], None
    fail = None
    for l in lines:
        t = l.split()
        if t[0] == "FAIL":
            fail = l
        elif t[0] == "INFO":
            for k in range(1, len(t) - 1, 2):
                if t[k] == "ngain":
                    info["gains"] = t[k + 1:]
                    break
                info[t[k]] = int(t[k + 1])
        elif t[0] == "REP":
            cur = {"rep": int(t[1]), "bad": int(t[2]), "lines": []}
            reps.append(cur)
        elif t[0] == "ENDREP":
            cur = None
        elif cur is not None:
            cur["lines"].append(t)
    return fail, info, reps


def scaled_diff(a, b):
    """max |a-b| over entries where both are numbers, divided by 1 + max magnitude; and the worst index"""
    sc = 1.0 + max([abs(x) for x in a if x == x] + [abs(x) for x in b if x == x] + [0.0])
    worst, wi = 0.0, -1
    for i, (x, y) in enumerate(zip(a, b)):
        if x == x and y == y:
            e = abs(x - y) / sc
            if e > worst:
                worst, wi = e, i
    return worst, wi, sc


def fl(x):
    return F.fhex(x) + "%float"


FWD_THR = 5e-5      # cheap threshold (scaled) above which a forward-vs-centred pair goes to the refinement step
FWD_FLOOR = 1e-7    # roundoff floor (scaled) of a forward difference with eps/4 = 2.5e-7


def forward_gap(x0, x1, xq, thr, refine):
    """forward differences x0 (eps) against centred x1, with the forward differences xq at eps/4 for refinement.
    A gap that is truncation error is O(eps): it shrinks about 4x at eps/4; a missing or wrong term does not shrink.
    Returns (worst scaled gap, failing index or None, scaled gap there, scaled refined gap there)."""
    n = min(len(x0), len(x1))
    sc = 1.0 + max([abs(x) for x in x0[:n] if x == x] + [abs(x) for x in x1[:n] if x == x] + [0.0])
    worst, fail = 0.0, None
    for i in range(n):
        a, b = x0[i], x1[i]
        if a != a or b != b:
            continue
        gap = abs(a - b) / sc
        worst = max(worst, gap)
        if gap > thr:
            refine["pairs_refined"] += 1
            if xq is None or i >= len(xq) or xq[i] != xq[i]:
                if fail is None:
                    fail = (i, gap, None)
                continue
            gap4 = abs(xq[i] - b) / sc
            ratio = gap4 / gap
            refine["worst_shrink_ratio"] = max(refine["worst_shrink_ratio"], ratio)
            if ratio > 0.5 and gap4 > FWD_FLOOR and (fail is None or gap > fail[1]):
                fail = (i, gap, gap4)
    return worst, fail


def flit(xs):
    return F.flist(xs) if xs else "(@nil float)"


def run(ctx):
    rng = ctx.rng
    quick = ctx.tier == "quick"
    ctx.coq_props(allowed_axioms=F.STD_AXIOMS, extra_targets=["Lib/NumF.vo", "Model/Deriv.vo"])
    exe = ctx.driver("c25_deriv", ["c25_deriv.c"])
    if exe is None:
        return

    ALL = 0x7FFFF
    # ---- requests: fixed corpus first (replays of the recorded findings), then generated cases
    scases = [(27, 1, 1, 3, 1, 0), (40, 1, 2, 3, 1, 0),            # ellipsoid fluid on small geoms
              (5, ALL, 3, 3, 2, 0), (9, ALL, 4, 3, 2, 2),          # damper actuator, ctrl outside its range (fixed in /repo e72d433e4)
              (3, ALL, 5, 2, 0, 0), (15, ALL, 5, 2, 0, 0)]         # tendons / actuators across branches
    tcases = [(8, ALL, 2, 2, 32 + 30, 3), (13, ALL, 3, 2, 32 + 30, 2), (4, ALL, 2, 2, 32, 0)]
    ns_, nt_ = (26, 10) if quick else (600, 200)
    for k in range(ns_):
        xf = [0, 1, 2, 4, 8, 16, 63, 31][k % 8] if k < 32 else rng.randrange(64)
        feat = ALL if k % 3 else (rng.getrandbits(19) | 0x40 | 0x1000)
        scases.append((rng.randrange(1, 10 ** 6), feat, 1 + k % 5 if k < 15 else rng.randrange(1, 8), 2 if quick else 3, (xf & 31) | (64 if k % 5 == 4 else 0), k % 4))
    for k in range(nt_):
        smooth = 32 if k % 3 != 2 else 0
        xf = [0, 30, 2, 14][k % 4] if k < 16 else rng.randrange(32)
        integ = [0, 2, 3, 0][k % 4]          # RK4 is rejected by mjd_transitionFD
        tcases.append((rng.randrange(1, 10 ** 6), ALL if k % 2 else (rng.getrandbits(19) | 0x40), 1 + k % 3 if quick else rng.randrange(1, 5), 3, smooth | xf, integ))
    # force-limited actuators with a velocity term, saturated (xflags 64): the forcerange skip of mjd_actuator_vel
    scases += [(21, ALL, 2, 3, 64, 0), (22, ALL, 3, 3, 64 + 2, 2), (23, 0x10000 | 0x4 | 0x40, 2, 3, 64, 1)]
    # ellipsoid-fluid geoms of every shape on hinge+slide / ball / free parents, density-only / viscosity-only / both (xflags 128)
    scases += [(31, 0x10000 | 0x4, 1, 3, 128, 2), (33, 0x10000 | 0x4, 1, 3, 128, 0), (35, ALL, 2, 3, 128, 2)]
    scases += [(rng.randrange(1, 10 ** 6), rng.choice([0x10004, ALL]), 1 + k % 2, 2 if quick else 3, 128 | (k % 2), [0, 2, 1][k % 3]) for k in range(4 if quick else 60)]
    # clampedDiff kernel cases: (x_plus given, x_minus given, h, x, xp, xm)
    cdcases = []
    for fp in (0, 1):
        for fm in (0, 1):
            cdcases.append((fp, fm, 0.25, [1.0, -2.0], [1.5, -2.5], [0.5, -1.0]))
            for _ in range(6 if quick else 60):
                n = rng.randrange(1, 6)
                h = rng.choice([1e-6, 1e-3, 0.5, rng.uniform(1e-7, 1.0)])
                cdcases.append((fp, fm, h, [rng.uniform(-3, 3) for _ in range(n)], [rng.uniform(-3, 3) for _ in range(n)], [rng.uniform(-3, 3) for _ in range(n)]))
    # control inside / at the edge of / within eps of / outside its range, limited or not, forward or centred
    ecases = []
    eps0 = 1e-6
    for limited in (0, 1):
        for centered in (0, 1):
            for (lo, hi) in ((-1.0, 1.0), (0.0, 2.0), (0.25, 0.25 + 0.5e-6)):
                for c in (lo + 0.37 * (hi - lo), lo, hi, lo + 0.4e-6, hi - 0.4e-6, lo - 0.1, hi + 0.1, hi + 0.4e-6, lo - 0.4e-6):
                    ecases.append((limited, centered, c, eps0, lo, hi))
    for _ in range(10 if quick else 150):
        lo = rng.uniform(-2, 1); hi = lo + rng.choice([rng.uniform(0.1, 2), 1.5e-6, 0.7e-6])
        ecases.append((rng.randrange(2), rng.randrange(2), rng.choice([lo, hi, rng.uniform(lo - 0.2, hi + 0.2), lo + rng.uniform(0, 2e-6), hi - rng.uniform(0, 2e-6)]), rng.choice([1e-6, 1e-5]), lo, hi))
    # --replay: the case of a stored violation is added to the corpus of this run
    rc_ = getattr(ctx, "replay", None)
    if rc_ and isinstance(rc_.get("case"), dict) and all(k in rc_["case"] for k in ("seed", "feat", "nbody", "nrep", "xflags", "integrator")):
        c_ = tuple(int(rc_["case"][k]) for k in ("seed", "feat", "nbody", "nrep", "xflags", "integrator"))
        (scases if rc_["case"].get("op") == "mjd_smooth_vel" else tcases).append(c_)
    reqs = (["S %d %d %d %d %d %d" % c for c in scases] + ["T %d %d %d %d %d %d" % c for c in tcases] +
            ["CD %d %d %s %d %s %s %s" % (fp, fm, hx(h), len(x), " ".join(map(hx, x)), " ".join(map(hx, xp)), " ".join(map(hx, xm))) for (fp, fm, h, x, xp, xm) in cdcases] +
            ["E %d %d %s %s %s %s" % (l, ce, hx(c), hx(e), hx(lo), hx(hi)) for (l, ce, c, e, lo, hi) in ecases])
    rc, out, err = ctx.run(exe, "\n".join(reqs) + "\n", timeout=1500)
    blocks = split_blocks(out)
    if rc != 0 or len(blocks) != len(reqs):
        ctx.broken.append(("correspondence", "driver c25_deriv failed", "rc=%s blocks=%d/%d %s" % (rc, len(blocks), len(reqs), err[-800:])))
        return

    stats = {"smooth_models": 0, "smooth_reps": 0, "smooth_bad_reps": 0, "compile_fail": 0, "qderiv_entries": 0, "qderiv_nonzero_entries": 0,
             "reps_with_fluid": 0, "reps_with_ctrl_out_of_range": 0, "reps_linear_model": 0, "trans_models": 0, "trans_reps": 0, "trans_bad_reps": 0,
             "fwd_vs_centred_checked": 0, "centred_vs_own_checked": 0, "inverse_checked": 0, "restore_checks": 0,
             "sensor_jacobians_checked": 0, "worst_sensor_jac": 0.0, "clampeddiff_cases": 0, "edge_cases": 0, "edge_cases_one_sided": 0, "edge_cases_no_nudge": 0, "reps_saturated_actuator": 0, "F1_reps": 0, "F2_reps": 0, "F3_reps": 0, "F4_reps": 0, "worst_qderiv_err": 0.0, "worst_fwd_centred": 0.0, "worst_centred_own": 0.0, "worst_inverse": 0.0}
    refine = {"pairs_refined": 0, "worst_shrink_ratio": 0.0}     # forward-vs-centred entries sent to the eps/4 refinement step
    gain_kinds = set()
    distinct = set()
    samples = []
    coq_cases, coq_meta = [], []

    # ---------------------------------------------------------------- S blocks
    for case, blk in zip(scases, blocks[:len(scases)]):
        fail, info, reps = reps_of(blk)
        mcase = dict(zip(("seed", "feat", "nbody", "nrep", "xflags", "integrator"), case))
        if fail or not info:
            stats["compile_fail"] += 1
            continue
        stats["smooth_models"] += 1
        for g in info.get("gains", []):
            gain_kinds.add(g)
        nv = info["nv"]
        for rp in reps:
            stats["smooth_reps"] += 1
            if rp["bad"]:
                stats["smooth_bad_reps"] += 1
                continue
            rcase = dict(mcase, rep=rp["rep"], op="mjd_smooth_vel")
            A = mask = FD = QDC = LINQ = None
            guards, acts, tens, dofs = [], [], [], []
            FD4 = FD16 = None
            noor = 0
            for t in rp["lines"]:
                if t[0] == "QD":
                    bar = t.index("|")
                    A = [unhx(x) for x in t[2:bar]]
                    mask = [int(x) for x in t[bar + 1:]]
                elif t[0] == "FDS":
                    FD = [unhx(x) for x in t[2:]]
                elif t[0] == "FDS4":
                    FD4 = [unhx(x) for x in t[2:]]
                elif t[0] == "FDS16":
                    FD16 = [unhx(x) for x in t[2:]]
                elif t[0] == "QDC":
                    QDC = [unhx(x) for x in t[2:]]
                elif t[0] == "CLAMP":
                    if any(x == "1" for x in t[1:]):
                        stats["reps_saturated_actuator"] += 1
                elif t[0] == "CTRLOOR":
                    noor = int(t[1])
                elif t[0] == "GUARD":
                    gv = [unhx(x) for x in t[3:]]
                    # (old viscous-drag quantity, relative quantity guarded since 186c34282, geom speed, proj_denom, speed^2, Kutta derivative denominator, Kutta coefficient)
                    guards.append(gv)
                elif t[0] == "LINQ":
                    LINQ = [unhx(x) for x in t[2:]]
                elif t[0] == "LINA":
                    climited = int(t[13])
                    v = [unhx(x) for x in t[3:13]] + [unhx(x) for x in t[14:]]
                    # input as mjd_actuator_vel forms it: the control clamped to its range when limited (model function ctrl_input)
                    inp = "(ctrl_input %s %s %s %s)" % ("true" if climited else "false", fl(v[9]), fl(v[10]), fl(v[11]))
                    acts.append((int(t[1]), int(t[2]), v[0], v[1], v[2], v[3:6], v[6:9], inp, v[12:12 + nv]))
                elif t[0] == "LINT":
                    npoly = int(t[1]); v = [unhx(x) for x in t[2:]]
                    tens.append((v[0], v[1], v[2:2 + npoly], v[2 + npoly:2 + npoly + nv]))
                elif t[0] == "LIND":
                    npoly = int(t[1]); v = [unhx(x) for x in t[2:]]
                    dofs.append((v[0], v[1], v[2:2 + npoly]))
            if A is None or FD is None or len(A) != nv * nv or len(FD) != nv * nv or len(mask) != nv * nv:
                ctx.broken.append(("correspondence", "driver c25_deriv printed no qDeriv / finite differences", str(rcase)))
                continue
            if case[5] == INT_IMPLICITFAST:
                # implicitfast symmetrizes the fluid blocks by design (documented approximation): compare the symmetric parts
                def sym(Mx):
                    return [0.5 * (Mx[i * nv + j] + Mx[j * nv + i]) for i in range(nv) for j in range(nv)]
                A, FD = sym(A), sym(FD)
                mask = [1 if (mask[i * nv + j] or mask[j * nv + i]) else 0 for i in range(nv) for j in range(nv)]
                if QDC is not None:
                    QDC = sym(QDC)
            stats["qderiv_entries"] += nv * nv
            stats["qderiv_nonzero_entries"] += sum(1 for x in FD if abs(x) > 1e-9)
            if info.get("fluid"):
                stats["reps_with_fluid"] += 1
            if noor:
                stats["reps_with_ctrl_out_of_range"] += 1
            if any(abs(x) > 1e-9 for x in FD):
                distinct.add(("S",) + case + (rp["rep"],))
            sc = 1.0 + max([abs(x) for x in A] + [abs(x) for x in FD])
            bad = [i for i in range(nv * nv) if not (abs(A[i] - FD[i]) <= 1e-5 * sc)]
            if bad and FD4 is not None and FD16 is not None and case[5] != INT_IMPLICITFAST:
                # a finite-difference value is an oracle only where it has converged: the values at eps/4 and eps/16 must stay
                # within a quarter of the discrepancy (non-smooth points of |v| terms and states slower than eps are dropped)
                conv = [i for i in bad if abs(FD[i] - FD4[i]) <= 0.25 * abs(A[i] - FD[i]) and abs(FD[i] - FD16[i]) <= 0.25 * abs(A[i] - FD[i])]
                stats["fd_entries_not_converged"] = stats.get("fd_entries_not_converged", 0) + len(bad) - len(conv)
                bad = conv
            stats["worst_qderiv_err"] = max(stats["worst_qderiv_err"], max([abs(A[i] - FD[i]) / sc for i in range(nv * nv) if mask[i]] + [0.0]))
            if len(samples) < 2 and nv <= 6 and any(abs(x) > 1e-6 for x in FD):
                samples.append(dict(rcase, nv=nv, qDeriv_dense=A, finite_difference=FD))
            if bad:
                outside = [i for i in bad if mask[i] == 0 and A[i] == 0.0]
                inside = [i for i in bad if i not in set(outside)]

                def entry(i):
                    return {"row": i // nv, "col": i % nv, "analytic": A[i], "finite_difference": FD[i], "in_sparsity_pattern": bool(mask[i])}
                if outside:
                    stats["F1_reps"] += 1
                    ctx.violation("impl_violation", dict(rcase, nv=nv, entries=[entry(i) for i in outside[:4]]), expected="qDeriv = d(smooth force)/d(qvel)",
                                  observed="entries of the true derivative outside the sparsity pattern of qDeriv are dropped", theorem="C25 oracle (qDeriv vs finite differences)", signature=SIG_F1)
                if inside:
                    sig = {"site": "mjd_smooth_vel", "class": "analytic-vs-finite-difference"}
                    if QDC is not None and all(abs(QDC[i] - FD[i]) <= 1e-5 * sc for i in range(nv * nv) if mask[i]):
                        # the analytic code agrees once ctrl is clamped like the force law clamps it: the defect fixed in /repo e72d433e4
                        # (formerly known finding C25-F2) is back; reported as an ordinary violation
                        sig = {"site": "mjd_actuator_vel", "class": "velocity-gain-times-unclamped-ctrl"}
                        stats["F2_reps"] += 1
                    elif any(len(g) >= 7 and g[6] != 0 and g[2] > 0 and g[2] * g[3] < MJMINVAL for g in guards):
                        # the FORCE clamps cos_alpha = proj_num / max(mjMINVAL, |v| * proj_denom) for an ellipsoid-fluid geom with Kutta lift
                        # (cm-sized semi-axes): the analytic derivative differentiates the unclamped formula
                        sig = SIG_F5
                        stats["F5_reps"] = stats.get("F5_reps", 0) + 1
                    ctx.violation("impl_violation", dict(rcase, nv=nv, ctrl_out_of_range=noor, fluid_speed_times_proj_denom_min=(min([g[2] * g[3] for g in guards if len(g) >= 4]) if guards else None), entries=[entry(i) for i in inside[:4]]),
                                  expected="qDeriv = d(smooth force)/d(qvel) within 1e-5 (scaled)", observed="max scaled difference %.3g" % max(abs(A[i] - FD[i]) / sc for i in inside),
                                  theorem="C25 oracle (qDeriv vs finite differences)", signature=sig)
            # linear-terms model (tie)
            if LINQ is not None and nv <= 12 and len(dofs) == nv:
                stats["reps_linear_model"] += 1
                al = "[" + "; ".join("(%s, %s, %s, %s, %s, %s, (%s, %s, %s), (%s, %s, %s), %s)" % (
                    "true" if a[0] else "false", "true" if a[1] else "false", fl(a[2]), fl(a[3]), fl(a[4]), flit(a[8]),
                    fl(a[5][0]), fl(a[5][1]), fl(a[5][2]), fl(a[6][0]), fl(a[6][1]), fl(a[6][2]), a[7]) for a in acts) + "]" if acts else "(@nil (@actuator float))"
                tl = "[" + "; ".join("(%s, %s, %s, %s)" % (flit(t[3]), fl(t[0]), flit(t[2]), fl(t[1])) for t in tens) + "]" if tens else "(@nil (@tendon float))"
                dl = "[" + "; ".join("(%s, %s, %s)" % (fl(x[0]), flit(x[2]), fl(x[1])) for x in dofs) + "]"
                ml = "[" + "; ".join("true" if x else "false" for x in mask) + "]"
                coq_cases.append("(%d%%nat, %s, %s, %s, %s, %s)" % (nv, al, tl, dl, ml, flit(LINQ)))
                coq_meta.append(rcase)

    # ---------------------------------------------------------------- T blocks
    for case, blk in zip(tcases, blocks[len(scases):len(scases) + len(tcases)]):
        fail, info, reps = reps_of(blk)
        mcase = dict(zip(("seed", "feat", "nbody", "nrep", "xflags", "integrator"), case))
        if fail or not info:
            stats["compile_fail"] += 1
            continue
        stats["trans_models"] += 1
        if (info.get("spec"), info.get("specwarm")) != (8287, 8319):
            ctx.broken.append(("correspondence", "mjSTATE_FULLPHYSICS|mjSTATE_CTRL[|mjSTATE_WARMSTART] differ from the signatures of C25_fd_restores_mjdata (8287, 8319)", str(info)))
        nv, na, nu, ndx = info["nv"], info["na"], info["nu"], info["ndx"]
        smooth = bool(info.get("smooth"))
        implicit = info.get("integrator") in (INT_IMPLICIT, INT_IMPLICITFAST)
        for rp in reps:
            stats["trans_reps"] += 1
            if rp["bad"]:
                stats["trans_bad_reps"] += 1
                continue
            rcase = dict(mcase, rep=rp["rep"])
            M = {}
            for t in rp["lines"]:
                if t[0] == "RESTORE":
                    stats["restore_checks"] += 1
                    d = {"fn": t[1], "centred": int(t[2])}
                    for k in range(3, len(t) - 1):
                        if t[k] in ("err", "statevec_equal", "ndiff_fields", "state_fields_differing", "qacc_equal"):
                            d[t[k]] = int(t[k + 1])
                    lst = " ".join(t)
                    fields = lst[lst.index("[") + 1:lst.index("]")] if "[" in lst else ""
                    if d.get("err"):
                        ctx.violation("impl_violation", dict(rcase, op=d["fn"], centred=d["centred"]), expected="no mju_error", observed="mju_error raised",
                                      theorem="C25_fd_restores", signature={"site": d["fn"], "class": "error"})
                    elif not d.get("statevec_equal") or d.get("state_fields_differing") or d.get("qacc_equal", 1) == 0:
                        ctx.violation("impl_violation", dict(rcase, op=d["fn"], centred=d["centred"]), expected="input state unchanged (mj_getState(mjSTATE_INTEGRATION) bitwise, no state field in the mjData comparison%s)" % (", qacc" if d["fn"] == "inverseFD" else ""),
                                      observed={"statevec_equal": d.get("statevec_equal"), "state_fields_differing": fields, "qacc_equal": d.get("qacc_equal")},
                                      theorem="C25_fd_restores" if d["fn"] == "transitionFD" else "C25_fd_restores_inverse_partial", signature={"site": "mjd_" + d["fn"], "class": "state-not-restored"})
                elif t[0] in ("A0", "A1", "AO", "B0", "B1", "C0", "C1", "CO", "D0", "D1", "DO", "IFV", "IFVO", "IFA", "IFAO", "A0Q", "B0Q", "C0Q", "D0Q", "IFVQ", "IFAQ"):
                    M[t[0]] = [unhx(x) for x in t[2:]]
                elif t[0] == "BO":
                    M["BO"] = [unhx(x) for x in t[3:]]
            if "A1" not in M or "AO" not in M:
                ctx.broken.append(("correspondence", "driver c25_deriv printed no transition matrices", str(rcase)))
                continue
            distinct.add(("T",) + case + (rp["rep"],))
            # forward vs centred (differencing accuracy), smooth models
            if smooth:
                stats["fwd_vs_centred_checked"] += 1
                pairs = [("A", M["A0"], M["A1"], M.get("A0Q")), ("C", M.get("C0", []), M.get("C1", []), M.get("C0Q"))]
                if "B0" in M and "BO" in M:
                    # columns whose control sits at a range limit are differenced one-sided by design: use only the others
                    ok = [i for i in range(len(M["BO"])) if M["BO"][i] == M["BO"][i]]
                    pairs.append(("B", [M["B0"][i] for i in ok], [M["B1"][i] for i in ok], [M["B0Q"][i] for i in ok] if "B0Q" in M else None))
                for nm, x0, x1, xq in pairs:
                    e, fail = forward_gap(x0, x1, xq, FWD_THR, refine)
                    stats["worst_fwd_centred"] = max(stats["worst_fwd_centred"], e)
                    if fail is not None:
                        wi, gap, gap4 = fail
                        ctx.violation("impl_violation", dict(rcase, op="mjd_transitionFD", matrix=nm, index=wi, forward=x0[wi], centred=x1[wi], forward_quarter_eps=(xq[wi] if xq else None)),
                                      expected="forward and centred differences agree to differencing accuracy: a gap above %g (scaled) must shrink about 4x when eps is divided by 4" % FWD_THR,
                                      observed="scaled gap %.3g at eps, %s at eps/4" % (gap, ("%.3g" % gap4) if gap4 is not None else "not available"),
                                      theorem="C25 oracle (forward vs centred)", signature={"site": "mjd_transitionFD", "class": "forward-vs-centred", "matrix": nm})
            # centred vs own centred differences of mj_step
            stats["centred_vs_own_checked"] += 1
            f4 = False
            sc = 1.0 + max([abs(x) for x in M["A1"]] + [abs(x) for x in M["AO"]])
            badA = [i for i in range(ndx * ndx) if not (abs(M["A1"][i] - M["AO"][i]) <= 1e-5 * sc)]
            stats["worst_centred_own"] = max(stats["worst_centred_own"], max([abs(a - b) / sc for a, b in zip(M["A1"], M["AO"])] + [0.0]))
            if badA:
                only_act_cols = all((i % ndx) >= 2 * nv for i in badA)
                if implicit and info.get("velgain") and only_act_cols:
                    f4 = True
                    sig = SIG_F4
                else:
                    sig = {"site": "mjd_transitionFD", "class": "vs-direct-perturbation-of-mj_step", "matrix": "A"}
                i = max(badA, key=lambda k: abs(M["A1"][k] - M["AO"][k]))
                ctx.violation("impl_violation", dict(rcase, op="mjd_transitionFD", matrix="A", row=i // ndx, col=i % ndx, nv=nv, na=na, transitionFD=M["A1"][i], direct=M["AO"][i]),
                              expected="A equals centred differences of mj_step (1e-5 scaled)", observed="scaled difference %.3g" % (abs(M["A1"][i] - M["AO"][i]) / sc), theorem="C25 oracle (transitionFD vs mj_step)", signature=sig)
            if "B1" in M and "BO" in M and nu:
                e, wi, scb = scaled_diff(M["B1"], M["BO"])
                stats["worst_centred_own"] = max(stats["worst_centred_own"], e)
                if e > 1e-5:
                    if implicit and info.get("velgain"):
                        f4 = True
                        sig = SIG_F4
                    else:
                        sig = {"site": "mjd_transitionFD", "class": "vs-direct-perturbation-of-mj_step", "matrix": "B"}
                    ctx.violation("impl_violation", dict(rcase, op="mjd_transitionFD", matrix="B", row=wi // nu, col=wi % nu, transitionFD=M["B1"][wi], direct=M["BO"][wi]),
                                  expected="B equals centred differences of mj_step (1e-5 scaled)", observed="scaled difference %.3g" % e, theorem="C25 oracle (transitionFD vs mj_step)", signature=sig)
            if f4:
                stats["F4_reps"] += 1
            # sensor Jacobians: C (centred) and D (forward and centred) against own centred differences of mj_step + sensordata;
            # D columns whose control cannot be nudged both ways are one-sided by design (covered by the E cases): skipped here
            if smooth and "D0" in M and "DO" in M:
                # forward D against own centred differences: same differencing-accuracy rule (refinement with eps/4)
                stats["sensor_jacobians_checked"] += 1
                e, fail = forward_gap(M["D0"], M["DO"], M.get("D0Q"), FWD_THR, refine)
                stats["worst_sensor_jac"] = max(stats["worst_sensor_jac"], e if fail is not None else 0.0)
                if fail is not None:
                    wi, gap, gap4 = fail
                    ctx.violation("impl_violation", dict(rcase, op="mjd_transitionFD", matrix="D", centred=0, index=wi, transitionFD=M["D0"][wi], direct=M["DO"][wi]),
                                  expected="D (flg_centered=0) equals centred differences of mj_step + sensordata to differencing accuracy (gap above %g must shrink about 4x at eps/4)" % FWD_THR,
                                  observed="scaled gap %.3g at eps, %s at eps/4" % (gap, ("%.3g" % gap4) if gap4 is not None else "not available"),
                                  theorem="C25_clamped_diff", signature={"site": "mjd_transitionFD", "class": "sensor-jacobian-vs-direct-perturbation", "matrix": "D", "centred": 0})
            for nm, a, b, tol in (("C", "C1", "CO", 1e-5), ("D", "D1", "DO", 1e-5)):
                if a in M and b in M and tol is not None:
                    stats["sensor_jacobians_checked"] += 1
                    e, wi, _ = scaled_diff(M[a], M[b])
                    stats["worst_sensor_jac"] = max(stats["worst_sensor_jac"], e)
                    if e > tol:
                        ctx.violation("impl_violation", dict(rcase, op="mjd_transitionFD", matrix=nm, centred=int(a.endswith("1")), index=wi, transitionFD=M[a][wi], direct=M[b][wi]),
                                      expected="%s (flg_centered=%s) equals centred differences of mj_step + sensordata (%g scaled)" % (nm, a[-1], tol), observed="scaled difference %.3g" % e,
                                      theorem="C25_clamped_diff" if nm == "D" else "C25 oracle (transitionFD vs mj_step)", signature={"site": "mjd_transitionFD", "class": "sensor-jacobian-vs-direct-perturbation", "matrix": nm, "centred": int(a.endswith("1"))})
            # inverseFD
            for nm, a, b in (("DfDv", "IFV", "IFVO"), ("DfDa", "IFA", "IFAO")):
                if a in M and b in M:
                    stats["inverse_checked"] += 1
                    # mjd_inverseFD differences forward only: differencing-accuracy rule with the eps/4 refinement
                    e, fail = forward_gap(M[a], M[b], M.get(a + "Q"), 1e-4, refine)
                    stats["worst_inverse"] = max(stats["worst_inverse"], e)
                    if fail is not None:
                        wi, gap, gap4 = fail
                        ctx.violation("impl_violation", dict(rcase, op="mjd_inverseFD", matrix=nm, index=wi, inverseFD=M[a][wi], direct=M[b][wi]),
                                      expected="%s equals centred differences of mj_inverse to differencing accuracy (gap above 1e-4 scaled must shrink about 4x at eps/4)" % nm,
                                      observed="scaled gap %.3g at eps, %s at eps/4" % (gap, ("%.3g" % gap4) if gap4 is not None else "not available"),
                                      theorem="C25 oracle (inverseFD vs mj_inverse)", signature={"site": "mjd_inverseFD", "class": "vs-direct-perturbation", "matrix": nm})
            if len(samples) < 4 and ndx <= 8:
                samples.append(dict(rcase, op="mjd_transitionFD", ndx=ndx, A_centred=M["A1"], A_direct=M["AO"]))

    # ---------------------------------------------------------------- clampedDiff kernel and control-edge cases
    base = len(scases) + len(tcases)
    coq_cd, cd_meta = [], []
    for case, blk in zip(cdcases, blocks[base:base + len(cdcases)]):
        fp, fm, h, x, xp, xm = case
        t = blk[0].split() if blk else ["FAIL"]
        ccase = {"op": "clampedDiff", "x_plus_given": fp, "x_minus_given": fm, "h": h, "x": x, "x_plus": xp, "x_minus": xm}
        if t[0] != "CD":
            ctx.broken.append(("correspondence", "clampedDiff driver reply", " ".join(t)[:200]))
            continue
        stats["clampeddiff_cases"] += 1
        outv = [unhx(v) for v in t[2:]]
        if fp and not fm:
            expv = [(b - a) / h for a, b in zip(x, xp)]
        elif fm and not fp:
            expv = [(a - b) / h for a, b in zip(x, xm)]
        elif fp and fm:
            expv = [(a - b) / (2 * h) for a, b in zip(xp, xm)]
        else:
            expv = [0.0] * len(x)
        e, wi, _ = scaled_diff(outv, expv)
        if int(t[1]) or len(outv) != len(expv) or e > 1e-9:
            ctx.violation("impl_violation", ccase, expected=expv, observed=outv, theorem="C25_clamped_diff",
                          signature={"site": "clampedDiff", "class": "forward" if fp and not fm else "backward" if fm and not fp else "centered" if fp else "none"})
        distinct.add(("CD", fp, fm, hx(h), tuple(map(hx, x + xp + xm))))
        coq_cd.append("(%s, %s, %s, %s, %s, %s, %s)" % ("true" if fp else "false", "true" if fm else "false", fl(h), flit(x), flit(xp), flit(xm), flit(outv)))
        cd_meta.append(ccase)
    imports = "From Coq Require Import ZArith PrimFloat Bool.\nFrom MJV Require Import Lib.Num Lib.NumF Model.Deriv.\n"
    fails = ctx.coq_eval("c25_clampeddiff", imports, coq_cd, shard=max(10, (len(coq_cd) + 3) // 4), checker=
                         "fun c : bool * bool * float * list float * list float * list float * list float => match c with (fp, fm, h, x, xp, xm, out) => fclose_list 0x1p-40 (clampedDiff (T:=float) x (if fp then Some xp else @None (list float)) (if fm then Some xm else @None (list float)) h) out end")
    for f in fails[:3]:
        ctx.violation("correspondence", cd_meta[f], expected="Model/Deriv.v clampedDiff", observed="static clampedDiff differs", found_input=False, theorem="correspondence c25 clampedDiff")

    coq_e, e_meta = [], []
    for case, blk in zip(ecases, blocks[base + len(cdcases):]):
        limited, centered, c, eps, lo, hi = case
        t = blk[0].split() if blk else ["FAIL"]
        ecase = {"op": "mjd_transitionFD D (hinge, motor, actuatorfrc sensor)", "limited": limited, "flg_centered": centered, "ctrl": c, "eps": eps, "ctrlrange": [lo, hi]}
        if t[0] != "E":
            ctx.broken.append(("correspondence", "edge-case driver reply", " ".join(t)[:200]))
            continue
        stats["edge_cases"] += 1
        err, Dv = int(t[1]), unhx(t[2])
        # documented behaviour: the sensor is the clamped control (slope 1 inside the range, 0 outside); nudges never leave the
        # range, so at an edge the one-sided slope 1 is returned, and 0 when no nudge of size eps fits
        can_f = (not limited) or (lo <= c <= hi and lo <= c + eps <= hi)
        can_b = (not limited) or (lo <= c - eps <= hi and lo <= c <= hi)
        expD = 1.0 if (can_f or can_b) else 0.0
        if can_f != can_b:
            stats["edge_cases_one_sided"] += 1
        if not (can_f or can_b):
            stats["edge_cases_no_nudge"] += 1
        if err or not (abs(Dv - expD) <= 1e-6):
            ctx.violation("impl_violation", ecase, expected=expD, observed=("mju_error" if err else Dv), theorem="C25_clamped_diff",
                          signature={"site": "mjd_stepFD", "class": "control-loop-DsDu", "centred": centered, "forward_possible": can_f, "backward_possible": can_b})
        distinct.add(("E",) + tuple(hx(v) if isinstance(v, float) else v for v in case))
        coq_e.append("(%s, %s, %s, %s, %s, %s, %s)" % ("true" if limited else "false", "true" if centered else "false", fl(c), fl(eps), fl(lo), fl(hi), fl(Dv)))
        e_meta.append(ecase)
    fails = ctx.coq_eval("c25_edge", imports, coq_e, shard=max(10, (len(coq_e) + 3) // 4), checker=
                         "fun c => match c with (lim, cen, ct, eps, lo, hi, out) => fclose_list 0x1p-30 (ctrl_column (T:=float) lim cen ct eps lo hi (gclip lim lo hi (cons 1%float nil) (cons 0%float nil))) (cons out nil) end")
    for f in fails[:3]:
        ctx.violation("correspondence", e_meta[f], expected="Model/Deriv.v ctrl_column (nudge selection + clampedDiff)", observed="D of mjd_transitionFD differs", found_input=False, theorem="correspondence c25 control loop")

    # ---------------------------------------------------------------- Coq tie of the linear-terms model
    keep = sorted(rng.sample(range(len(coq_cases)), min(len(coq_cases), 40 if quick else 400)))
    coq_sel = [coq_cases[k] for k in keep]
    pre = ("Fixpoint msel (m : list bool) (l : list float) : list float := match m, l with b :: m', x :: l' => (if b then x else 0%float) :: msel m' l' | _, _ => nil end.\n")
    imports = "From Coq Require Import ZArith PrimFloat Bool.\nFrom MJV Require Import Lib.Num Lib.NumF Model.Deriv.\n"
    fails = ctx.coq_eval("c25_linear", imports, coq_sel, shard=max(5, (len(coq_sel) + 7) // 8), pre=pre, checker=
                         "fun c => match c with (nv, acts, tens, dofs, mask, out) => fclose_list %s (msel mask (concat (smooth_deriv (T:=float) nv acts tens dofs))) (msel mask out) end" % TOL)
    for f in fails[:3]:
        ctx.violation("correspondence", coq_meta[keep[f]], expected="Model/Deriv.v smooth_deriv on the qDeriv sparsity pattern", observed="mjd_actuator_vel + mjd_passive_vel differ", found_input=False,
                      theorem="correspondence c25 linear terms", note="model and implementation disagree; the finite-difference oracle decides whether the implementation output is wrong")

    ctx.cov["evaluations"] = stats["smooth_reps"] + stats["trans_reps"] + stats["clampeddiff_cases"] + stats["edge_cases"]
    ctx.cov["distinct_nontrivial"] = len(distinct)
    ctx.cov["rule"] = ("fixed corpus (replays of recorded findings) + generated mjgen models with extra actuators (damper, cylinder, intvelocity, muscle, DC motor, PID), fluid (inertia-box + ellipsoid), all integrators; per model 2-3 random states "
                       "(controls partly outside their ranges). A case is (model, state); non-trivial when the finite-difference derivative has a non-zero entry (S cases) or the transition matrices were produced (T cases); distinct by request and repetition")
    ctx.cov["samples"] = samples[:4] or [{"requests": reqs[:3]}]
    ctx.cov["support"].update({"forward_difference_refinement": dict(refine, cheap_threshold_scaled=FWD_THR, roundoff_floor_scaled=FWD_FLOOR, rule="alarm iff gap(eps/4) > 0.5*gap(eps) and gap(eps/4) > floor"), "stats": stats, "actuator_gain:bias:dyn_kinds_seen": sorted(gain_kinds), "linear_model_cases_in_coq": len(coq_sel)})
    ctx.cov["explanation"] = ("qDeriv compared with finite differences on %d states of %d models (%d entries, %d non-zero), mjd_transitionFD / mjd_inverseFD on %d states of %d models, %d before/after state comparisons; "
                              "linear-terms model tied on %d states" % (stats["smooth_reps"] - stats["smooth_bad_reps"], stats["smooth_models"], stats["qderiv_entries"], stats["qderiv_nonzero_entries"],
                                                                        stats["trans_reps"] - stats["trans_bad_reps"], stats["trans_models"], stats["restore_checks"], len(coq_sel)))
    if stats["smooth_models"] == 0 or stats["trans_models"] == 0:
        ctx.broken.append(("correspondence", "no model could be built", str(stats)))
