"""C13 — contacts report true geometry."""
import math
import time
import framework as F

META = {
    "id": "C13", "category": "proof", "design_ref": "DESIGN.md section 4, C13",
    "technique": "Coq proofs over R of a Gallina model (Model/CollidePrim.v, generic over Lib/Num) of the analytic primitive colliders, mju_makeFrame and the analytic arm of mj_geomDistance + float correspondence of the same model with the real mjc_* functions / mju_makeFrame / mj_geomDistance + independent geometric oracle on every contact produced by mj_collision",
    "text": "filled in below",
    "note": "filled in below",
    "assumptions": [
        "theorems are about exact real arithmetic; IEEE rounding is outside every theorem (the model is run at binary64 only for the tie, tolerance 2^-30 scaled)",
        "hand-written model Model/CollidePrim.v; the tie is differential testing on the cases of this run (random, near-contact, exactly touching, coincident centres, parallel capsules, margin thresholds)",
        "geom z-axes are unit vectors (third column of a rotation matrix) in the distance theorems; stated as hypotheses",
    ],
}
META["text"] = (
    "Proved in Coq over the reals, for all inputs, about the model Model/CollidePrim.v of engine_collision_primitive.c / mju_makeFrame / mj_setContact / mj_geomDistance: "
    "C13_frame: mju_makeFrame (as completed by mj_setContact from the collider's normal and tangent) fails exactly when |x| < 0.5 and otherwise returns, for EVERY tangent input, an orthonormal right-handed frame "
    "(rows unit, mutually orthogonal, z = x cross y, determinant 1) whose first row is x/|x|, with the branches stated: default y-axis (0,1,0) or (0,0,1) when the given one is short or parallel to x, else the normalised rejection of the given tangent; "
    "C13_sphere_sphere / C13_plane_sphere: a contact is emitted iff the signed distance (|c2-c1|-r1-r2, resp. n.(c2-c1)-r) is <= margin (for margin+r1+r2 >= 0), its dist is that value, the normal is unit and equal to (c2-c1)/|c2-c1| resp. the plane normal, "
    "pos is the midpoint of the two surface points p1 = c1+r1 n, p2 = c2-r2 n (resp. the foot point on the plane and c2-r n) and p2-p1 = dist n; the value is the infimum of |x-y| over the two solids (lower bound for all point pairs, attained by p1,p2 when separated), "
    "and for coincident centres the normal is still unit; C13_plane_capsule: the contacts are the two end-sphere tests, each emitted iff its distance <= margin, tangent = capsule axis, and the smaller end distance is the infimum over plane half-space x capsule; "
    "C13_sphere_capsule: the chosen segment point is the nearest point of the segment to the sphere centre and dist = |c1-q|-r1-r2 is the infimum over ball x capsule; "
    "C13_capsule_capsule_partial: in the non-parallel arm both parameters lie in [-1,1] and the contact is the sphere-sphere contact of those two segment points (so dist is an upper bound of the true distance; optimality of the segment pair and the parallel arm are NOT proved, they are covered by the oracle only); "
    "C13_capsule_parallel_refuted (KNOWN finding, KNOWN_FINDINGS.json class parallel-overhang): for parallel capsules where capsule 1 overhangs capsule 2 on both sides every returned contact reports a distance larger than the true one (witness: 3 instead of 1), "
    "so mj_geomDistance depends on the geom order there; the oracle reports exactly these configurations under the known signature and any other wrong distance of parallel capsules as an ordinary violation; "
    "C13_contact_frame: every pre-contact with a unit normal gets an orthonormal right-handed frame with first row the normal from mj_setContact; "
    "C13_margin: every emitted contact of the five colliders has dist <= margin; C13_geomDistance: the analytic arm of mj_geomDistance returns min(distmax, smallest contact dist), is symmetric under the type-sorting flip (same distance, witness points swapped) and its witness points are pos -+ dist/2 normal. "
    "Tie: the model is evaluated at binary64 inside Coq on the inputs of this run and compared with mjc_PlaneSphere, mjc_SphereSphere, mjc_PlaneCapsule, mjc_SphereCapsule, mjc_CapsuleCapsule (called through the mjCOLLISIONFUNC table entries on two-geom mjSpec models with poses written into mjData), mju_makeFrame and mj_geomDistance in both geom orders. "
    "Oracle on implementation output (no theorem involved): for every contact of the direct calls and for EVERY contact produced by mj_collision on two-geom worlds and mjgen scenes: |normal| = 1, frame orthonormal right-handed with first row the normal (1e-10), dist <= margin+gap, includemargin = margin; "
    "for the analytic pairs the smallest contact dist equals an independently computed true signed distance (golden-section search for segment-segment), the surface points pos -+ dist/2 n lie on the two surfaces and the normal leaves geom 1 / enters geom 2; mj_geomDistance is symmetric in its two geoms and agrees with the smallest contact dist of the pair. "
    "C13_sphere_cylinder_deep: mjc_SphereCylinder with the sphere centre strictly inside the cylinder (either half) reports dist = -min(h-|x|, R-rho) - r, i.e. the nearer of cap and side, and emits iff that is <= margin; the outside arms (side, cap, corner) are in the model and the tie without theorem. "
    "Deep-penetration strata (sphere centre inside a sphere / capsule / cylinder / box: every region, both halves, cap-vs-side ties, on the axis; plane pairs and analytic pairs 13 cm deep in the aligned stream) are checked against closed-form signed distances that are valid at every depth. "
    "mjc_PlaneCylinder (all four contacts, both arms of the 'disk parallel to plane' switch, as fixed in /repo: threshold len_sqr >= mjMINVAL) is in the model and in the float tie but has NO theorem: it is covered by the tie and by the oracle (true signed distance through the closed form, surface points, 18 near-parallel angles per tilted frame). "
    "A structured degenerate-alignment stream runs every primitive pair (plane, sphere, capsule, ellipsoid, cylinder, box) through the full pipeline with axes exactly parallel / perpendicular / at 45 degrees, placed along axes and diagonals at gaps 0, inside the margin, penetrating and beyond the margin, "
    "in a canonical frame and under a common random rigid motion (rotation composed about three axes) and in both geom orders; oracles there: per-contact checks, true signed distance (plane pairs exactly through the support function of the second geom, other pairs through a certified alternating-projection reference when separated), "
    "mj_geomDistance, and covariance (same smallest dist and mj_geomDistance, every contact has a partner with equal dist and rotated pos/normal); for GJK/EPA pairs (and box-box) only the per-contact clauses are applied there: their distance values in this exactly-aligned family are C15's business (known findings touching-degenerate, deep-core-on-axis) and are counted as delegated. "
    "Floating point is outside the theorems: in particular C13_frame holds over the reals for every y, while at binary64 a given y-axis of length >= 2 exactly parallel to x leaves a rounding residue above mjMINVAL "
    "so the fallback of the (fixed) mju_makeFrame does not fire (not reachable from the colliders, whose tangents are zero or unit axes), and a y-axis at angle a to x gives orthogonality error ~1e-16/a (single-pass Gram-Schmidt). "
    "Not covered by theorems: box colliders, plane/sphere-cylinder, ellipsoid/cylinder/mesh pairs (GJK/EPA) — these only get the generic per-contact oracle (unit normal, orthonormal frame, dist <= margin, mj_geomDistance symmetry/agreement with a loose tolerance).")
META["note"] = ("Trusted: Coq kernel + the standard-library real-number axioms listed in trusted_base; hand-written model Model/CollidePrim.v (reuses Model/Spatial.v vector helpers and normalize3); "
                "correspondence harness (gcc, driver c13_prim.c); python reference geometry of the oracle.")

TOL = "0x1p-30"
PLANE, SPHERE, CAPSULE = 0, 2, 3
PAIRS = {"PS": (0, PLANE, SPHERE), "SS": (1, SPHERE, SPHERE), "PC": (2, PLANE, CAPSULE), "SC": (3, SPHERE, CAPSULE), "CC": (4, CAPSULE, CAPSULE), "PY": (6, PLANE, 5), "SY": (7, SPHERE, 5)}
ANALYTIC_TYPES = {(PLANE, SPHERE), (SPHERE, SPHERE), (PLANE, CAPSULE), (SPHERE, CAPSULE), (CAPSULE, CAPSULE), (PLANE, 5), (SPHERE, 5), (SPHERE, 6)}
CCD_FUNCS = "pairs routed to mjc_Convex / mjc_BoxBox (GJK/EPA distance in mj_geomDistance)"
GEOMNAME = {0: "plane", 1: "hfield", 2: "sphere", 3: "capsule", 4: "ellipsoid", 5: "cylinder", 6: "box", 7: "mesh", 8: "sdf"}


# ------------------------------------------------------------------------------------- small vector algebra
def hx(x):
    x = float(x)
    if x != x:
        return "nan"
    if x in (math.inf, -math.inf):
        return "inf" if x > 0 else "-inf"
    return x.hex()


def unhx(t):
    t = t.strip()
    if t in ("nan", "-nan", "+nan"):
        return math.nan
    if t in ("inf", "+inf"):
        return math.inf
    if t == "-inf":
        return -math.inf
    return float.fromhex(t)


def dot(a, b):
    return sum(x * y for x, y in zip(a, b))


def sub(a, b):
    return [x - y for x, y in zip(a, b)]


def add(a, b):
    return [x + y for x, y in zip(a, b)]


def scl(a, s):
    return [x * s for x in a]


def norm(a):
    return math.sqrt(dot(a, a))


def cross(a, b):
    return [a[1] * b[2] - a[2] * b[1], a[2] * b[0] - a[0] * b[2], a[0] * b[1] - a[1] * b[0]]


def unit(a):
    n = norm(a)
    return [x / n for x in a]


def quat2mat(q):
    w, x, y, z = q
    return [w * w + x * x - y * y - z * z, 2 * (x * y - w * z), 2 * (x * z + w * y),
            2 * (x * y + w * z), w * w - x * x + y * y - z * z, 2 * (y * z - w * x),
            2 * (x * z - w * y), 2 * (y * z + w * x), w * w - x * x - y * y + z * z]


def zax(m):
    return [m[2], m[5], m[8]]


def rquat(rng):
    return unit([rng.gauss(0, 1) for _ in range(4)])


def quat_z_to(v):
    """a unit quaternion rotating the z axis onto the unit vector v"""
    z = [0.0, 0.0, 1.0]
    c = dot(z, v)
    if c < -1 + 1e-12:
        return [0.0, 1.0, 0.0, 0.0]
    ax = cross(z, v)
    q = [1 + c] + ax
    return unit(q)


EYE = [1.0, 0, 0, 0, 1.0, 0, 0, 0, 1.0]


# ------------------------------------------------------------------------------------- reference geometry (oracle)
def seg_point_dist(p, c, a, ln):
    """distance from p to the segment c + s a, |s| <= ln (a unit)"""
    s = max(-ln, min(ln, dot(sub(p, c), a)))
    return norm(sub(p, add(c, scl(a, s))))


def seg_seg_dist(c1, a1, l1, c2, a2, l2):
    """golden-section search over the first segment of the (convex) point-segment distance"""
    def f(s):
        return seg_point_dist(add(c1, scl(a1, s)), c2, a2, l2)
    lo, hi = -l1, l1
    gr = (math.sqrt(5) - 1) / 2
    x1 = hi - gr * (hi - lo)
    x2 = lo + gr * (hi - lo)
    f1, f2 = f(x1), f(x2)
    for _ in range(90):
        if f1 < f2:
            hi, x2, f2 = x2, x1, f1
            x1 = hi - gr * (hi - lo)
            f1 = f(x1)
        else:
            lo, x1, f1 = x1, x2, f2
            x2 = lo + gr * (hi - lo)
            f2 = f(x2)
    return min(f(lo), f(hi), f1, f2, f(-l1), f(l1))


def sdf(t, pos, mat, size, p):
    """signed distance of point p to a plane half-space / sphere / capsule"""
    if t == PLANE:
        return dot(sub(p, pos), zax(mat))
    if t == SPHERE:
        return norm(sub(p, pos)) - size[0]
    if t == CAPSULE:
        return seg_point_dist(p, pos, zax(mat), size[1]) - size[0]
    if t == 5:        # solid cylinder
        a = zax(mat)
        v = sub(p, pos)
        z = dot(v, a)
        dr = norm(sub(v, scl(a, z))) - size[0]
        dz = abs(z) - size[1]
        return math.hypot(max(dr, 0.0), max(dz, 0.0)) if max(dr, dz) > 0 else max(dr, dz)
    if t == 6:        # solid box
        v = sub(p, pos)
        q = [abs(dot(v, [mat[i], mat[3 + i], mat[6 + i]])) - size[i] for i in range(3)]
        return norm([max(x, 0.0) for x in q]) if max(q) > 0 else max(q)
    return None


def true_dist(t1, pos1, mat1, size1, t2, pos2, mat2, size2):
    if (t1, t2) == (PLANE, SPHERE):
        return dot(sub(pos2, pos1), zax(mat1)) - size2[0]
    if (t1, t2) == (SPHERE, SPHERE):
        return norm(sub(pos2, pos1)) - size1[0] - size2[0]
    if (t1, t2) == (PLANE, CAPSULE):
        n, a = zax(mat1), zax(mat2)
        return min(dot(sub(add(pos2, scl(a, s * size2[1])), pos1), n) for s in (1, -1)) - size2[0]
    if (t1, t2) == (SPHERE, CAPSULE):
        return seg_point_dist(pos1, pos2, zax(mat2), size2[1]) - size1[0] - size2[0]
    if t1 == SPHERE and t2 in (5, 6):
        # signed distance of the sphere centre to the solid (negative inside: minus the depth of the centre) minus the radius
        return sdf(t2, pos2, mat2, size2, pos1) - size1[0]
    if (t1, t2) == (PLANE, 5):
        n, a = zax(mat1), zax(mat2)
        k = dot(a, n)
        return dot(sub(pos2, pos1), n) - size2[1] * abs(k) - size2[0] * math.sqrt(max(0.0, 1 - k * k))
    if (t1, t2) == (CAPSULE, CAPSULE):
        return seg_seg_dist(pos1, zax(mat1), size1[1], pos2, zax(mat2), size2[1]) - size1[0] - size2[0]
    return None


def cc_overhang(pos1, mat1, size1, pos2, mat2, size2):
    """KNOWN finding C13 parallel-overhang: the parallel arm of mjraw_CapsuleCapsule tests the ends of the FIRST capsule first and returns
    as soon as two contacts exist; when the first capsule overhangs the second one on both sides (neither of its ends attains the segment
    distance) both contacts report an inflated distance.  Returns (capsule 1 overhangs 2, capsule 2 overhangs 1)."""
    a1, a2 = zax(mat1), zax(mat2)
    if norm(cross(a1, a2)) >= 1e-7:
        return False, False
    segd = seg_seg_dist(pos1, a1, size1[1], pos2, a2, size2[1])
    e12 = min(seg_point_dist(add(pos1, scl(a1, e * size1[1])), pos2, a2, size2[1]) for e in (1, -1))
    e21 = min(seg_point_dist(add(pos2, scl(a2, e * size2[1])), pos1, a1, size1[1]) for e in (1, -1))
    pr1 = [dot(sub(add(pos1, scl(a1, e * size1[1])), pos2), a2) for e in (1, -1)]
    pr2 = [dot(sub(add(pos2, scl(a2, e * size2[1])), pos1), a1) for e in (1, -1)]
    return (e12 > segd + 1e-9 and min(pr1) < -size2[1] and max(pr1) > size2[1],
            e21 > segd + 1e-9 and min(pr2) < -size1[1] and max(pr2) > size1[1])


def frame_errors(fr):
    r = [fr[0:3], fr[3:6], fr[6:9]]
    e = 0.0
    for i in range(3):
        for j in range(3):
            e = max(e, abs(dot(r[i], r[j]) - (1.0 if i == j else 0.0)))
    det = dot(r[0], cross(r[1], r[2]))
    return max(e, abs(det - 1.0))


def check_contact_geometry(t1, pos1, mat1, size1, t2, pos2, mat2, size2, dist, pos, normal, degenerate, nearest=True):
    """independent checks of one contact of an analytic pair; returns list of failure strings.
    The surface points p1/p2 = pos -+ dist/2 normal must lie ON the two surfaces for the contact of smallest
    distance; the additional contacts of multi-contact pairs (second capsule end on a plane, parallel
    capsules) are contacts of end spheres, whose surface points lie in the closed solids."""
    f = []
    if any(v != v for v in [dist] + pos + normal):
        return ["NaN in contact"]
    if abs(norm(normal) - 1) > 1e-10:
        f.append("|normal| = %.17g" % norm(normal))
        return f
    sc = 1 + max(abs(v) for v in pos1 + pos2 + size1[:2] + size2[:2])
    p1 = add(pos, scl(normal, -0.5 * dist))
    p2 = add(pos, scl(normal, 0.5 * dist))
    s1, s2 = sdf(t1, pos1, mat1, size1, p1), sdf(t2, pos2, mat2, size2, p2)
    if nearest and not degenerate:
        if abs(s1) > 1e-8 * sc or abs(s2) > 1e-8 * sc:
            f.append("pos -+ dist/2 normal not on the two surfaces (signed distances %.3g, %.3g): pos is not the midpoint between the surface points" % (s1, s2))
    elif s1 > 1e-8 * sc or s2 > 1e-8 * sc:
        f.append("pos -+ dist/2 normal outside the two solids (signed distances %.3g, %.3g): pos is not the midpoint between surface points" % (s1, s2))
    if not degenerate:
        eps = 1e-5 * sc
        o1 = sdf(t1, pos1, mat1, size1, add(p1, scl(normal, eps)))
        o2 = sdf(t2, pos2, mat2, size2, add(p2, scl(normal, -eps)))
        # additional contacts of multi-contact pairs are end-sphere contacts: their second surface point may lie on the capsule
        # axis (upright capsule sunk into the plane), where moving along the normal does not change the signed distance
        # (nor for the upper-cap rim point of a tilted cylinder, from which -normal leads into the solid)
        ok = (o1 > s1 + 0.5 * eps and o2 > s2 + 0.5 * eps) if nearest else (o1 > s1 + 1e-3 * eps)
        if not ok:
            f.append("normal does not point from geom 1 to geom 2 (moving along +normal from surface point 1 changes its signed distance by %.3g, along -normal from point 2 by %.3g, expected +%.3g)" % (o1 - s1, o2 - s2, eps))
    return f


# ------------------------------------------------------------------------------------- direct-call cases
def rmat(rng):
    return quat2mat(rquat(rng))


def rvec(rng, s=1.0):
    return [rng.uniform(-s, s) for _ in range(3)]


def pair_cases(ctx):
    """list of (pair name, args[31], meta) — args = pos1 mat1 size1 pos2 mat2 size2 margin"""
    rng = ctx.rng
    big = ctx.tier != "quick"
    n = 40 if not big else 600
    cs = []

    def addc(name, pos1, mat1, size1, pos2, mat2, size2, margin, **meta):
        cs.append((name, list(pos1) + list(mat1) + list(size1) + list(pos2) + list(mat2) + list(size2) + [margin], meta))

    def rsize():
        return [rng.uniform(0.02, 0.5), rng.uniform(0.02, 0.8), rng.uniform(0.02, 0.5)]
    margins = [0.0, 0.0, 0.01, 0.1, 1.0, -0.01]
    for k in range(n):
        for name in PAIRS:
            _, t1, t2 = PAIRS[name]
            m1, m2 = rmat(rng), rmat(rng)
            s1, s2 = rsize(), rsize()
            p1 = rvec(rng)
            mg = rng.choice(margins)
            mode = rng.random()
            if mode < 0.3:                        # anywhere
                p2 = add(p1, rvec(rng, 1.5))
            else:                                 # near contact: place geom 2 so that the true distance is about gap
                gap = rng.choice([rng.uniform(-0.05, 0.05), rng.uniform(-0.3, 0.3), mg + rng.uniform(-1e-3, 1e-3), 0.0])
                if abs(gap - mg) < 1e-7:          # thresholds are hit exactly only in the dyadic 'touching' cases below: a value
                    gap = mg + rng.choice([-1e-6, 1e-6])   # within rounding of the margin would make the emission depend on rounding
                dirv = unit(rvec(rng)) if t1 != PLANE else zax(m1)
                p2 = add(p1, rvec(rng, 0.3)) if t1 == PLANE else list(p1)
                # bisection along dirv on the reference distance
                lo, hi = -3.0, 3.0
                if t1 != PLANE:
                    lo = 0.0
                for _ in range(60):
                    mid = 0.5 * (lo + hi)
                    d = true_dist(t1, p1, m1, s1, t2, add(p2, scl(dirv, mid)), m2, s2)
                    if d < gap:
                        lo = mid
                    else:
                        hi = mid
                p2 = add(p2, scl(dirv, 0.5 * (lo + hi)))
            addc(name, p1, m1, s1, p2, m2, s2, mg, kind="random")
    # ---- degenerate and boundary configurations (exact dyadic numbers where a threshold is hit exactly)
    reps = 3 if not big else 12
    for k in range(reps):
        m1, m2 = rmat(rng), rmat(rng)
        p = rvec(rng)
        # coincident centres: z axes generic, parallel, identical
        addc("SS", p, m1, [0.25, 0, 0], p, m2, [0.5, 0, 0], 0.0, kind="coincident")
        addc("SS", p, m1, [0.25, 0, 0], p, m1, [0.5, 0, 0], 0.0, kind="coincident-parallel-axes")
        addc("SS", p, EYE, [0.25, 0, 0], add(p, [1e-16, 0, 0]), m2, [0.5, 0, 0], 0.125, kind="coincident-tiny")
        addc("SS", p, EYE, [0.25, 0, 0], add(p, [3e-15, -2e-15, 0]), m2, [0.5, 0, 0], 0.125, kind="near-coincident")
        addc("SC", p, m1, [0.25, 0, 0], p, m2, [0.125, 0.5, 0], 0.0, kind="coincident")          # sphere centre on the capsule axis
        addc("SC", add(p, scl(zax(m2), 0.3)), m1, [0.25, 0, 0], p, m2, [0.125, 0.5, 0], 0.0, kind="coincident")
        addc("CC", p, m1, [0.125, 0.5, 0], p, m2, [0.25, 0.75, 0], 0.0, kind="coincident")        # crossing axes
        addc("CC", p, m1, [0.125, 0.5, 0], p, m1, [0.25, 0.75, 0], 0.0, kind="coincident-parallel")
        # parallel capsules (det = 0): side by side, offset along the axis, overlapping partly, end to end, far
        a = zax(m1)
        side = unit(cross(a, rvec(rng)))
        for along, lat in ((0.0, 0.5), (0.4, 0.5), (1.0, 0.375), (1.5, 0.3), (1.25, 0.0), (2.0, 0.0), (0.3, 0.0), (3.0, 0.2), (-0.6, 0.45)):
            p2 = add(add(p, scl(a, along)), scl(side, lat))
            addc("CC", p, m1, [0.125, 0.5, 0], p2, m1, [0.25, 0.75, 0], rng.choice([0.0, 0.1, 0.5]), kind="parallel")
        # anti-parallel axes
        mflip = [m1[0], -m1[1], -m1[2], m1[3], -m1[4], -m1[5], m1[6], -m1[7], -m1[8]]
        addc("CC", p, m1, [0.125, 0.5, 0], add(p, scl(side, 0.3)), mflip, [0.25, 0.75, 0], 0.1, kind="parallel")
        # nearly parallel (det around mjMINVAL)
        for ang in (1e-9, 3e-8, 1e-7, 1e-6, 1e-4):
            q = [math.cos(ang / 2)] + scl(side, math.sin(ang / 2))
            w, x, y, z = q
            # rotate m1 by q (world rotation)
            r = quat2mat(q)
            m2p = [sum(r[3 * i + kk] * m1[3 * kk + j] for kk in range(3)) for i in range(3) for j in range(3)]
            addc("CC", p, m1, [0.125, 0.5, 0], add(add(p, scl(side, 0.2)), scl(cross(a, side), 0.3)), m2p, [0.25, 0.75, 0], 0.5, kind="nearly-parallel")
        # cylinder on a tilted plane: cap-down with the SAME (non-symmetric) orientation (degenerate 'disk parallel to plane' arm), upside-down,
        # lying on its side, and axis nearly parallel to the normal (around the len_sqr = mjMINVAL^2 switch)
        mflip1 = [m1[0], -m1[1], -m1[2], m1[3], -m1[4], -m1[5], m1[6], -m1[7], -m1[8]]
        for hgt in (0.3 + 0.004, 0.3 - 0.01, 0.3, 0.3 + 0.2):
            addc("PY", p, m1, [1, 1, 0.1], add(add(p, scl(zax(m1), hgt)), scl(side, 0.2)), m1, [0.2, 0.3, 0], 0.02, kind="cap-down-tilted")
            addc("PY", p, m1, [1, 1, 0.1], add(add(p, scl(zax(m1), hgt)), scl(side, 0.2)), mflip1, [0.2, 0.3, 0], 0.02, kind="cap-down-tilted-flipped")
        addc("PY", p, m1, [1, 1, 0.1], add(p, scl(zax(m1), 0.21)), quat2mat(quat_z_to(side)), [0.2, 0.3, 0], 0.02, kind="lying")
        for ang in (1e-17, 3e-16, 9e-16, 1.1e-15, 3e-15, 1e-14, 1e-13, 1e-12, 1e-10, 1e-9, 1e-8, 2.5e-8, 3.1e-8, 3.3e-8, 5e-8, 1e-7, 1e-6, 1e-4):
            r = quat2mat([math.cos(ang / 2)] + scl(side, math.sin(ang / 2)))
            m2p = [sum(r[3 * i + kk] * m1[3 * kk + j] for kk in range(3)) for i in range(3) for j in range(3)]
            addc("PY", p, m1, [1, 1, 0.1], add(p, scl(zax(m1), 0.305)), m2p, [0.2, 0.3, 0], 0.02, kind="nearly-parallel")
        # upright / lying capsule on a plane, tilted planes
        addc("PC", p, m1, [1, 1, 0.1], add(p, scl(zax(m1), 0.6)), m1, [0.125, 0.5, 0], 0.0, kind="upright")
        addc("PC", p, m1, [1, 1, 0.1], add(p, scl(zax(m1), 0.1)), quat2mat(quat_z_to(side)), [0.125, 0.5, 0], 0.0, kind="lying")
    # sphere : cylinder, DEEP penetration (sphere centre inside the cylinder): both halves, nearer to a cap / to the side, near the
    # cap-vs-side tie, on the axis; plus the three outside regions (side, cap, corner) close to the region boundaries
    for k in range(25 if not big else 300):
        m1, m2 = rmat(rng), (rmat(rng) if k % 5 else EYE)
        R, hh, r = rng.uniform(0.1, 0.4), rng.uniform(0.1, 0.4), rng.uniform(0.02, 0.15)
        a = zax(m2)
        ex = [m2[0], m2[3], m2[6]]
        ey = [m2[1], m2[4], m2[7]]
        c2 = rvec(rng)
        mode = k % 7
        ang = rng.uniform(0, 2 * math.pi)
        if mode <= 3:       # centre inside: (lower/upper half) x (nearer cap / nearer side)
            sgn = -1 if mode % 2 else 1
            if mode < 2:
                z = sgn * hh * rng.uniform(0.6, 0.98)
                rho = R * rng.uniform(0.0, max(0.0, 1 - (hh - abs(z)) / R) * 0.9) if R > hh - abs(z) else 0.0
            else:
                rho = R * rng.uniform(0.6, 0.98)
                z = sgn * hh * rng.uniform(0.0, max(0.0, 1 - (R - rho) / hh) * 0.9)
            kind = "deep"
        elif mode == 4:     # cap and side (almost) equally near
            d = rng.uniform(0.02, 0.9 * min(R, hh))
            sgn = rng.choice([-1, 1])
            z, rho, kind = sgn * (hh - d), R - d * (1 + rng.choice([1e-3, -1e-3, 1e-9, -1e-9])), "deep-near-tie"
        elif mode == 5:     # centre on the axis
            z, rho, kind = rng.uniform(-0.95, 0.95) * hh, 0.0, "deep-on-axis"
        else:               # outside, next to a region boundary
            z = rng.choice([-1, 1]) * hh * rng.choice([0.999, 1.001, 1.3, 0.5])
            rho = R * rng.choice([0.999, 1.001, 1.3, 0.5])
            kind = "outside-regions"
        c1 = add(c2, add(scl(a, z), add(scl(ex, rho * math.cos(ang)), scl(ey, rho * math.sin(ang)))))
        addc("SY", c1, m1, [r, 0, 0], c2, m2, [R, hh, 0], rng.choice([0.0, 0.02, 1.0]), kind=kind)
    # exactly touching / exactly at the margin (identity matrices, dyadic numbers: every operation is exact)
    for mg in (0.0, 0.125, 0.5):
        for off in (0.0, 2.0 ** -40, -2.0 ** -40, 2.0 ** -20):
            addc("SS", [0, 0, 0], EYE, [0.25, 0, 0], [0.75 + mg + off, 0, 0], EYE, [0.5, 0, 0], mg, kind="touching")
            addc("SS", [1, 2, -1], EYE, [0.25, 0, 0], [1, 2, -1 - (0.75 + mg + off)], EYE, [0.5, 0, 0], mg, kind="touching")
            addc("PS", [0, 0, 0.5], EYE, [1, 1, 0.1], [3, -2, 0.5 + 0.25 + mg + off], EYE, [0.25, 0, 0], mg, kind="touching")
            addc("PC", [0, 0, 0], EYE, [1, 1, 0.1], [0, 0, 0.5 + 0.125 + mg + off], EYE, [0.125, 0.5, 0], mg, kind="touching")
            addc("PC", [0, 0, 0], EYE, [1, 1, 0.1], [0, 0, 0.125 + mg + off], [0, 0, 1.0, 0, 1.0, 0, -1.0, 0, 0], [0.125, 0.5, 0], mg, kind="touching-lying")
            addc("SC", [0, 0, 1 + 0.25 + 0.125 + mg + off], EYE, [0.25, 0, 0], [0, 0, 0], EYE, [0.125, 1.0, 0], mg, kind="touching")
            addc("SC", [0.375 + mg + off, 0, 0.5], EYE, [0.25, 0, 0], [0, 0, 0], EYE, [0.125, 1.0, 0], mg, kind="touching")
            addc("CC", [0, 0, 0], EYE, [0.125, 0.5, 0], [0.375 + mg + off, 0, 0], [0, 0, 1.0, 0, 1.0, 0, -1.0, 0, 0], [0.25, 0.5, 0], mg, kind="touching")
            addc("CC", [0, 0, 0], EYE, [0.125, 0.5, 0], [0.375 + mg + off, 0, 0.25], EYE, [0.25, 0.5, 0], mg, kind="touching-parallel")
    # corpus of the KNOWN finding parallel-overhang (capsule 1 overhangs capsule 2 on both sides): (a) separated, (b) penetrating
    addc("CC", [0, 0, 0], EYE, [0.1, 0.5, 0], [0.3, 0, 0], EYE, [0.1, 0.25, 0], 1.0, kind="parallel-overhang")
    addc("CC", [0, 0, 0], EYE, [0.1, 0.3, 0], [0.15, 0, 0], EYE, [0.1, 0.25, 0], 0.0, kind="parallel-overhang")
    # the same with the short capsule first (correct result; only mj_geomDistance's other order is affected)
    addc("CC", [0, 0, 0], EYE, [0.1, 0.25, 0], [0.15, 0, 0], EYE, [0.1, 0.3, 0], 0.0, kind="parallel-overhang-swapped")
    # negative margin below -(r1+r2): the squared bounding test of mjraw_SphereSphere (tie only, oracle skips it)
    addc("SS", [0, 0, 0], EYE, [0.25, 0, 0], [0.5, 0, 0], EYE, [0.25, 0, 0], -1.5, kind="negative-margin")
    # zero-length capsules (not reachable through the compiler: sizes must be positive): NaN paths, tie only
    addc("CC", [0, 0, 0], EYE, [0.125, 0.0, 0], [0.5, 0, 0], EYE, [0.25, 0.0, 0], 1.0, kind="zero-length")
    addc("CC", [0, 0, 0], EYE, [0.125, 0.5, 0], [0.5, 0, 0], rmat(rng), [0.25, 0.0, 0], 1.0, kind="zero-length")
    return cs


def frame_cases(ctx):
    rng = ctx.rng
    big = ctx.tier != "quick"
    n = 150 if not big else 2000
    cs = []
    for k in range(n):
        x = [rng.gauss(0, 1) for _ in range(3)]
        if rng.random() < 0.6:
            x = unit(x)
        m = rng.random()
        if m < 0.3:
            y = [0.0, 0, 0]
        elif m < 0.7:
            y = unit([rng.gauss(0, 1) for _ in range(3)])
        else:
            y = [rng.gauss(0, 0.35) for _ in range(3)]
        cs.append((x, y, "random"))
    # default-y selection threshold x[1] = +-0.5, |y|^2 around 0.25, |x| around 0.5
    for x1 in (0.5, -0.5, 0.5 - 2 ** -30, -0.5 + 2 ** -30, 0.5 + 2 ** -30, 0.0, 1.0, -1.0):
        r = math.sqrt(max(0.0, 1 - x1 * x1))
        cs.append(([r, x1, 0.0], [0.0, 0, 0], "default-y"))
        cs.append(([0.0, x1, r], [0.25, 0.25, 0.25], "default-y"))
    for s in (0.5, 0.5 - 2 ** -40, 0.5 + 2 ** -40, 0.49, 0.51):
        cs.append(([0.0, 0, 1.0], [s, 0, 0], "short-y"))
        cs.append(([s, 0, 0], [0.0, 1.0, 0], "short-x"))
        cs.append(([0, 0.3 * s / 0.5, 0.4 * s / 0.5], [1.0, 0, 0], "short-x"))
    cs.append(([0.0, 0, 0], [0.0, 1.0, 0], "zero-x"))
    # tangent parallel to the normal (capsule upright on a tilted plane)
    for k in range(8 if not big else 60):
        x = unit([rng.gauss(0, 1) for _ in range(3)])
        cs.append((x, list(x), "parallel"))
        cs.append((x, scl(x, -1.0), "parallel"))
        cs.append((scl(x, 3.0), scl(x, 0.75), "parallel"))
    for x in ([1.0, 0, 0], [0, 1.0, 0], [0, 0, 1.0], [0, 0, -1.0], [0.6, 0, 0.8], [0, 0.6, 0.8], [0.6, 0.8, 0], [-1.0, 0, 0]):
        cs.append((x, list(x), "parallel"))
    return cs


def world_cases(ctx):
    """two-geom worlds through the full pipeline: (t1,size1,pos1,quat1,t2,size2,pos2,quat2,[m1,g1,m2,g2,distmax], meta)"""
    rng = ctx.rng
    big = ctx.tier != "quick"
    cs = []
    # the configuration of finding C13 (fixed in /repo): capsule upright on tilted planes
    for k in range(6 if not big else 40):
        q = rquat(rng) if k else [math.cos(0.6435011087932844 / 2), 0, math.sin(0.6435011087932844 / 2), 0]
        nrm = zax(quat2mat(q))
        h = rng.choice([0.29, 0.3, 0.25])
        cs.append((PLANE, [1, 1, 0.1], [0, 0, 0], q, CAPSULE, [0.1, 0.2, 0], scl(nrm, h), q, [0, 0, 0, 0, 1.0], "upright-capsule-on-tilted-plane"))
        qf = [-q[1], q[0], q[3], -q[2]]      # q * (0,1,0,0): z axis reversed
        cs.append((PLANE, [1, 1, 0.1], [0, 0, 0], q, CAPSULE, [0.1, 0.2, 0], scl(nrm, h), qf, [0.01, 0.02, 0, 0, 1.0], "upside-down-capsule-on-tilted-plane"))
    # DEEP penetration: the sphere centre at a random interior point of a sphere / capsule / cylinder / box (all regions: near every
    # face, cap, side, both halves), random orientations, either geom on the moving body
    for k in range(40 if not big else 600):
        t2 = [SPHERE, CAPSULE, 5, 6][k % 4]
        s2 = [rng.uniform(0.1, 0.35) for _ in range(3)]
        q1, q2 = rquat(rng), rquat(rng)
        m2 = quat2mat(q2)
        p2 = rvec(rng, 0.3)
        u = [rng.uniform(-0.97, 0.97) for _ in range(3)]
        if t2 == SPHERE:
            loc = scl(u, s2[0] / math.sqrt(3))
        elif t2 == CAPSULE:
            loc = [u[0] * s2[0] * 0.7, u[1] * s2[0] * 0.7, u[2] * s2[1]]
        elif t2 == 5:
            loc = [u[0] * s2[0] * 0.7, u[1] * s2[0] * 0.7, u[2] * s2[1]]
        else:
            loc = [u[i] * s2[i] for i in range(3)]
        p1 = add(p2, matvec3(m2, loc))
        s1 = [rng.uniform(0.02, 0.12), 0.1, 0.1]
        mg = [0, 0, 0, 0, 0.5]
        if k % 2:
            cs.append((SPHERE, s1, p1, q1, t2, s2, p2, q2, mg, "deep"))
        else:
            cs.append((t2, s2, p2, q2, SPHERE, s1, p1, q1, mg, "deep"))
    types = [SPHERE, CAPSULE, 4, 5, 6]
    n = 40 if not big else 500
    for k in range(n):
        t1 = rng.choice([PLANE, PLANE] + types)
        t2 = rng.choice(types)
        s1 = [1, 1, 0.1] if t1 == PLANE else [rng.uniform(0.05, 0.3) for _ in range(3)]
        s2 = [rng.uniform(0.05, 0.3) for _ in range(3)]
        q1, q2 = rquat(rng), rquat(rng)
        p1 = rvec(rng, 0.3)
        if t1 == PLANE:
            p2 = add(p1, add(scl(zax(quat2mat(q1)), rng.uniform(-0.05, 0.4)), rvec(rng, 0.05)))
        else:
            p2 = add(p1, scl(unit(rvec(rng)), rng.uniform(0.0, 0.7)))
        mg = [rng.choice([0, 0, 0.02]), rng.choice([0, 0, 0.03]), rng.choice([0, 0.01]), rng.choice([0, 0, 0.05]), 0.5]
        cs.append((t1, s1, p1, q1, t2, s2, p2, q2, mg, "random"))
    return cs


# ------------------------------------------------------------------------------------- degenerate-alignment stream (full pipeline)
def qmul(a, b):
    return [a[0] * b[0] - a[1] * b[1] - a[2] * b[2] - a[3] * b[3],
            a[0] * b[1] + a[1] * b[0] + a[2] * b[3] - a[3] * b[2],
            a[0] * b[2] - a[1] * b[3] + a[2] * b[0] + a[3] * b[1],
            a[0] * b[3] + a[1] * b[2] - a[2] * b[1] + a[3] * b[0]]


def qaxis(ax, ang):
    s = math.sin(ang / 2)
    return [math.cos(ang / 2), ax[0] * s, ax[1] * s, ax[2] * s]


def matvec3(m, v):
    return [m[0] * v[0] + m[1] * v[1] + m[2] * v[2], m[3] * v[0] + m[4] * v[1] + m[5] * v[2], m[6] * v[0] + m[7] * v[1] + m[8] * v[2]]


ELLIPSOID, CYLINDER, BOX = 4, 5, 6
ALIGNED_QUATS = [("aligned", [1.0, 0, 0, 0]), ("flipped", [0.0, 1.0, 0, 0]), ("axis-perpendicular", qaxis([1.0, 0, 0], math.pi / 2)),
                 ("axis-perpendicular-y", qaxis([0, 1.0, 0], math.pi / 2)), ("edge-45", qaxis([1.0, 0, 0], math.pi / 4)), ("yaw-30", qaxis([0, 0, 1.0], math.pi / 6))]
ALIGNED_DIRS = [("+z", [0.0, 0, 1.0]), ("-z", [0.0, 0, -1.0]), ("+x", [1.0, 0, 0]), ("+y", [0, 1.0, 0]), ("xy-diagonal", [math.sqrt(0.5), math.sqrt(0.5), 0]),
                ("space-diagonal", [1 / math.sqrt(3)] * 3)]
ALIGNED_GAPS = [0.0, 0.004, -0.01, 0.05, -0.13]      # touching, inside the margin, shallow, beyond the margin, DEEP (core inside)
ALIGNED_MARGIN = 0.01            # per geom: contacts are detected up to 0.02


def aligned_cases(ctx):
    """structured degenerate alignments for every primitive pair, in a canonical frame (geom A at the origin with identity
    orientation, geom B with its axes exactly parallel / perpendicular / at 45 degrees to A's, placed along an axis or a
    diagonal of A at a controlled gap) and under a common random rigid motion (rotation composed about three axes, so the
    rotation matrix is not symmetric; random translation); non-plane pairs in both geom orders.
    Returns list of dicts(group, label, tA, sA, tB, sB, qB, pB, gap, motion=(q, t) or None, swap)."""
    import c15 as H
    rng = ctx.rng
    big = ctx.tier != "quick"
    types = [PLANE, SPHERE, CAPSULE, ELLIPSOID, CYLINDER, BOX]
    out = []
    gid = 0
    for ia, tA in enumerate(types):
        for tB in types[max(ia, 1):]:
            if tA == PLANE and tB == PLANE:
                continue
            quats = ALIGNED_QUATS if tB != SPHERE else ALIGNED_QUATS[:1]
            dirs = ALIGNED_DIRS[:1] if tA == PLANE else (ALIGNED_DIRS if tA != SPHERE else ALIGNED_DIRS[:3])
            gjk = (tA, tB) in ((SPHERE, ELLIPSOID), (CAPSULE, ELLIPSOID), (CAPSULE, CYLINDER), (ELLIPSOID, ELLIPSOID), (ELLIPSOID, CYLINDER), (ELLIPSOID, BOX),
                               (CYLINDER, CYLINDER), (CYLINDER, BOX), (BOX, BOX))
            # (deep penetration of GJK/EPA pairs belongs to C15, which has the convex-optimisation reference for it)
            combos = [(qn, q, dn, d, gap) for (qn, q) in quats for (dn, d) in dirs for gap in ALIGNED_GAPS if not (gjk and gap < -0.05)]
            if tA != PLANE and not big:                    # quick tier: plane pairs exhaustively, a sample of the others
                combos = rng.sample(combos, 4)
            elif tA != PLANE:
                combos = rng.sample(combos, min(len(combos), 40))
            for (qn, qB, dn, d, gap) in combos:
                sA = [1, 1, 0.1] if tA == PLANE else [rng.choice([0.1, 0.15]), rng.choice([0.2, 0.12]), rng.choice([0.25, 0.08])]
                sB = [rng.choice([0.1, 0.2]), rng.choice([0.1, 0.15]), rng.choice([0.12, 0.3])]
                B0 = H.Shape(tB, sB, [0.0, 0, 0], quat2mat(qB))
                if tA == PLANE:
                    s0 = B0.h([0.0, 0, -1.0]) + gap          # lowest point of B at height gap above the plane z = 0
                    pB = [rng.uniform(-0.3, 0.3), rng.uniform(-0.3, 0.3), s0]
                else:
                    A0 = H.Shape(tA, sA, [0.0, 0, 0], EYE)
                    s0 = A0.h(d) + B0.h(scl(d, -1.0)) + gap  # slab separation along d equals gap
                    pB = scl(d, s0)
                qR = qmul(qmul(qaxis([0, 0, 1.0], rng.uniform(0.3, 2.8)), qaxis([0, 1.0, 0], rng.uniform(0.2, 1.3) * rng.choice([-1, 1]))), qaxis([1.0, 0, 0], rng.uniform(0.2, 1.3) * rng.choice([-1, 1])))
                qR = unit(qR)
                tR = rvec(rng, 1.0)
                label = "%s-%s %s along %s gap %g" % (GEOMNAME[tA], GEOMNAME[tB], qn, dn, gap)
                for motion in (None, (qR, tR)):
                    for swap in ((False,) if tA == PLANE else (False, True)):
                        out.append(dict(group=gid, label=label, tA=tA, sA=sA, tB=tB, sB=sB, qB=qB, pB=pB, gap=gap, motion=motion, swap=swap))
                gid += 1
    return out


def aligned_world(c):
    """world poses of the two geoms of an aligned case: (typeA, sizeA, posA, quatA, typeB, sizeB, posB, quatB)"""
    pA, qA, pB, qB = [0.0, 0, 0], [1.0, 0, 0, 0], list(c["pB"]), list(c["qB"])
    if c["motion"] is not None:
        qR, tR = c["motion"]
        R = quat2mat(qR)
        pA, pB = add(matvec3(R, pA), tR), add(matvec3(R, pB), tR)
        qA, qB = qmul(qR, qA), qmul(qR, qB)
    return (c["tA"], c["sA"], pA, qA, c["tB"], c["sB"], pB, qB)


def aligned_line(c):
    (tA, sA, pA, qA, tB, sB, pB, qB) = aligned_world(c)
    first, second = ((tB, sB, pB, qB), (tA, sA, pA, qA)) if c["swap"] else ((tA, sA, pA, qA), (tB, sB, pB, qB))
    return "WORLD %d %s %d %s %s\n" % (first[0], " ".join(hx(x) for x in first[1] + first[2] + first[3]), second[0], " ".join(hx(x) for x in second[1] + second[2] + second[3]),
                                       " ".join(hx(x) for x in [ALIGNED_MARGIN, 0, ALIGNED_MARGIN, 0, 1.0]))


def parse_world_line(line):
    t = line.split()
    if t[0] == "ERR":
        return None
    ncon = int(t[0])
    v = [unhx(x) for x in t[1:16]]
    rest = t[16:]
    cons = []
    for i in range(ncon):
        r = rest[16 * i:16 * i + 16]
        vals = [unhx(x) for x in r[:14]]
        cons.append(dict(dist=vals[0], pos=vals[1:4], frame=vals[4:13], inc=vals[13], g=(int(r[14]), int(r[15]))))
    return dict(detect=v[0], gd12=v[1], ft12=v[2:8], gd21=v[8], ft21=v[9:15], cons=cons)


def aligned_oracle(ctx, cases, results, stats):
    """oracles on the degenerate-alignment stream: per-contact checks, true signed distance (plane pairs: exact through the
    support function of the second geom; other pairs: certified alternating-projection reference when separated),
    mj_geomDistance, and covariance of the contacts under the common rigid motion and under the geom order."""
    import c15 as H
    DIRECT = {(PLANE, SPHERE), (PLANE, CAPSULE), (PLANE, ELLIPSOID), (PLANE, CYLINDER), (PLANE, BOX), (SPHERE, SPHERE), (SPHERE, CAPSULE), (SPHERE, CYLINDER),
              (SPHERE, BOX), (CAPSULE, CAPSULE), (CAPSULE, BOX)}
    groups = {}
    for c, w in zip(cases, results):
        groups.setdefault(c["group"], []).append((c, w))
        (tA, sA, pA, qA, tB, sB, pB, qB) = aligned_world(c)
        key = "%s-%s" % (GEOMNAME[tA], GEOMNAME[tB])
        case = {"aligned": c["label"], "world": [tA, sA, pA, qA, tB, sB, pB, qB], "swap": c["swap"], "rigid_motion": c["motion"]}
        sig = {"site": "mj_collision", "pair": key}

        oh = cc_overhang(pA, quat2mat(qA), sA, pB, quat2mat(qB), sB) if (tA, tB) == (CAPSULE, CAPSULE) else (False, False)
        oh_first = oh[1] if c["swap"] else oh[0]          # does the capsule passed first to the collider overhang the other one?

        def viol(what, exp, obs, cls, oh=oh, oh_first=oh_first, case=case, sig=sig):
            if (oh_first and cls in ("dist", "geomdist")) or ((oh[0] or oh[1]) and cls == "geomdist-sym"):
                ctx.violation("impl_violation", dict(case, what=what), expected=exp, observed=obs, theorem="C13 oracle: " + what,
                              signature={"site": "mjc_CapsuleCapsule", "class": "parallel-overhang"})
            else:
                ctx.violation("impl_violation", dict(case, what=what), expected=exp, observed=obs, theorem="C13 oracle: " + what, signature=dict(sig, **{"class": cls}))
        if w is None:
            viol("mj_collision runs", "contacts", "ERR", "error")
            continue
        stats["worlds"] += 1
        stats["contacts"] += len(w["cons"])
        for con in w["cons"]:
            check_full_contact(ctx, "ALIGNED", case, tA, tB, con["dist"], con["pos"], con["frame"], con["inc"], w["detect"], 2 * ALIGNED_MARGIN)
        dists = [con["dist"] for con in w["cons"]]
        direct = (tA, tB) in DIRECT
        if not direct:
            # GJK/EPA pairs (and box-box, whose mj_geomDistance is GJK/EPA): only the per-contact clauses above belong to C13; the
            # distance values of exactly aligned GJK pairs are C15's business (known findings touching-degenerate / deep-core-on-axis
            # and the GJK stagnation coincidences live in exactly this family) and are exercised there with the convex reference
            stats["gjk_pairs_generic_clauses_only"] = stats.get("gjk_pairs_generic_clauses_only", 0) + 1
            continue
        # ---- true signed distance
        td = None
        if tA == PLANE:
            n = zax(quat2mat(qA))
            X = H.Shape(tB, sB, pB, quat2mat(qB))
            td = -X.h(scl(n, -1.0)) - dot(n, pA)              # lowest point of the convex geom above the plane (signed)
            tol = 1e-9
        elif (tA, tB) in ANALYTIC_TYPES and not ((tA, tB) == (CAPSULE, CAPSULE) and any(oh)):
            td = true_dist(tA, pA, quat2mat(qA), sA, tB, pB, quat2mat(qB), sB)      # closed forms, signed, valid at every depth
            tol = 1e-9 + (5e-8 * sB[0] if tB == 5 else 0.0)
        else:
            ref = H.separated_reference(H.Shape(tA, sA, pA, quat2mat(qA)), H.Shape(tB, sB, pB, quat2mat(qB)), iters=600)
            if ref is not None and ref[1] - ref[0] < 1e-7 and ref[0] > 1e-6:
                td = 0.5 * (ref[0] + ref[1])
                tol = 2e-6 if direct else 1e-5 + 5e-3 * max(0.0, w["detect"] - td)
        if td is not None:
            stats["with_true_distance"] += 1
            if td < w["detect"] - 1e-6 and not dists and direct:
                viol("contact emitted iff distance <= margin", "a contact (true signed distance %.17g < margin+gap %.17g)" % (td, w["detect"]), "ncon=0", "emit")
            elif td < w["detect"] - 1e-6 and not dists:
                stats["nondirect_missing_contact_within_margin"] = stats.get("nondirect_missing_contact_within_margin", 0) + 1
            if td > w["detect"] + 1e-6 and dists:
                viol("contact emitted iff distance <= margin", "no contact (true signed distance %.17g > margin+gap %.17g)" % (td, w["detect"]), dists, "emit")
            if dists and abs(min(dists) - td) > tol and not (tA == BOX and tB == BOX):
                viol("smallest contact dist = true signed distance", td, min(dists), "dist")
            if abs(w["gd12"] - min(td, 1.0)) > (tol if direct else 2e-6):
                viol("mj_geomDistance = true signed distance", td, w["gd12"], "geomdist")
        gjk_touching = (not direct) and abs(c["gap"]) < 1e-9     # exactly touching GJK/EPA pairs: see C15 (class touching-degenerate)
        if gjk_touching:
            stats["gjk_touching_delegated_to_C15"] = stats.get("gjk_touching_delegated_to_C15", 0) + 1
        elif abs(w["gd12"] - w["gd21"]) > (1e-9 if direct else 2e-6 + 2e-3 * max(0.0, -w["gd12"])):
            viol("mj_geomDistance symmetric in its two geoms", w["gd12"], w["gd21"], "geomdist-sym")
    # ---- covariance within each group: reference = canonical frame, first geom order
    for gidx, items in groups.items():
        ref = next(((c, w) for c, w in items if c["motion"] is None and not c["swap"]), None)
        if ref is None or ref[1] is None:
            continue
        c0, w0 = ref
        tA, tB = c0["tA"], c0["tB"]
        direct = (tA, tB) in DIRECT
        if not direct:
            continue
        if (tA, tB) == (CAPSULE, CAPSULE):
            w_ = aligned_world(c0)
            if any(cc_overhang(w_[2], quat2mat(w_[3]), w_[1], w_[6], quat2mat(w_[7]), w_[5])):
                continue
        for c, w in items:
            if w is None or c is c0:
                continue
            case = {"aligned": c["label"], "world": list(aligned_world(c)), "swap": c["swap"], "rigid_motion": c["motion"], "canonical_world": list(aligned_world(c0))}
            sig = {"site": "mj_collision", "pair": "%s-%s" % (GEOMNAME[tA], GEOMNAME[tB])}
            if c["motion"] is not None:
                R, tR = quat2mat(c["motion"][0]), c["motion"][1]
            else:
                R, tR = EYE, [0.0, 0, 0]
            tol = 1e-9 if direct else 1e-5 + 5e-3 * 0.03
            # smallest distance and mj_geomDistance are invariant
            d0 = [x["dist"] for x in w0["cons"]]
            d1 = [x["dist"] for x in w["cons"]]
            stats["covariance_pairs"] += 1
            bad = None
            gjk_touching = (not direct) and abs(c0["gap"]) < 1e-9
            if gjk_touching:
                pass
            elif abs(w["gd12"] - w0["gd12"]) > (1e-9 if direct else 2e-6 + 2e-3 * max(0.0, -w0["gd12"])):
                bad = ("mj_geomDistance invariant under a common rigid motion / geom order", w0["gd12"], w["gd12"])
            elif (not d0) != (not d1) and min(d0 + d1) < w0["detect"] - 1e-6:
                bad = ("contact emitted independently of a common rigid motion / geom order", "ncon=%d dists=%s" % (len(d0), d0), "ncon=%d dists=%s" % (len(d1), d1))
            elif d0 and d1 and abs(min(d0) - min(d1)) > tol and not (tA == BOX and tB == BOX):
                bad = ("smallest contact dist invariant under a common rigid motion / geom order", min(d0), min(d1))
            elif direct and d0 and d1:
                # every contact of the smaller set has a covariant partner in the other one: dist equal, pos and normal rotated
                # (the normal points from the geom of lower type to the other one in every order, so it is not reversed by the swap)
                small, large, fwd = (w0["cons"], w["cons"], True) if len(d0) <= len(d1) else (w["cons"], w0["cons"], False)
                # parallel capsules: which two of the four candidate contacts are returned depends on the geom order (only the nearest is compared);
                # sphere centre deep inside a cylinder / box: two faces can be equally near (45-degree placements), the face is then a convention
                nearest_only = (tA, tB) == (CAPSULE, CAPSULE) and c["swap"]
                dist_only = tA == SPHERE and tB in (5, 6) and c0["gap"] < -0.05
                w_ = aligned_world(c0)
                # parallel capsules: the nearest points are not unique along the overlap (dist and normal are compared, not pos)
                pos_free = (tA, tB) == (CAPSULE, CAPSULE) and norm(cross(zax(quat2mat(w_[3])), zax(quat2mat(w_[7])))) < 1e-7
                if nearest_only:
                    small = [x for x in small if x["dist"] <= min(y["dist"] for y in small) + 1e-9][:1]
                for x in small:
                    px, nx = (add(matvec3(R, x["pos"]), tR), matvec3(R, x["frame"][:3])) if fwd else (x["pos"], x["frame"][:3])
                    ok = False
                    for y in large:
                        py, ny = (y["pos"], y["frame"][:3]) if fwd else (add(matvec3(R, y["pos"]), tR), matvec3(R, y["frame"][:3]))
                        same_type_swap = c["swap"] and tA == tB
                        nn = scl(ny, -1.0) if same_type_swap else ny
                        if abs(x["dist"] - y["dist"]) <= 1e-9 and (dist_only or ((pos_free or norm(sub(px, py)) <= 1e-8) and norm(sub(nx, nn)) <= 1e-8)):
                            ok = True
                            break
                    if not ok:
                        bad = ("contacts transform covariantly under a common rigid motion / geom order (dist equal, pos and normal rotated)",
                               {"canonical_contacts": [(y["dist"], y["pos"], y["frame"][:3]) for y in w0["cons"]]},
                               {"contacts": [(y["dist"], y["pos"], y["frame"][:3]) for y in w["cons"]]})
                        break
            if bad:
                ctx.violation("impl_violation", dict(case, what=bad[0]), expected=bad[1], observed=bad[2], theorem="C13 oracle: " + bad[0], signature=dict(sig, **{"class": "covariance"}))



# ------------------------------------------------------------------------------------- Coq side
def coq_pre():
    return "\n".join([
        "Definition g (l : list float) (i : nat) : float := nth i l 0%float.",
        "Definition V (l : list float) (i : nat) : vec3 float := (g l i, g l (i+1), g l (i+2)).",
        "Definition M (l : list float) (i : nat) : mat3 float := (g l i, g l (i+1), g l (i+2), g l (i+3), g l (i+4), g l (i+5), g l (i+6), g l (i+7), g l (i+8)).",
        "Definition cl (cs : list (precon float)) : list float := nofZ (Z.of_nat (length cs)) :: flat_map pc2l cs.",
        "Definition gd2l (r : float * vec3 float * vec3 float) : list float := let '(d, a, b) := r in d :: v2l a ++ v2l b.",
        "Definition collide (op : Z) (a : list float) (swap : bool) : list (precon float) :=",
        "  let p1 := V a 0 in let m1 := M a 3 in let p2 := V a 15 in let m2 := M a 18 in let mg := g a 30 in",
        "  if (op =? 0)%Z then rawPlaneSphere mg p1 m1 p2 (g a 27)",
        "  else if (op =? 1)%Z then (if swap then rawSphereSphere mg p2 m2 (g a 27) p1 m1 (g a 12) else rawSphereSphere mg p1 m1 (g a 12) p2 m2 (g a 27))",
        "  else if (op =? 2)%Z then planeCapsule mg p1 m1 p2 m2 (g a 27) (g a 28)",
        "  else if (op =? 3)%Z then sphereCapsule mg p1 m1 (g a 12) p2 m2 (g a 27) (g a 28)",
        "  else if (op =? 6)%Z then planeCylinder mg p1 m1 p2 m2 (g a 27) (g a 28)",
        "  else if (op =? 7)%Z then sphereCylinder mg p1 m1 (g a 12) p2 m2 (g a 27) (g a 28)",
        "  else (if swap then capsuleCapsule mg p2 m2 (g a 27) (g a 28) p1 m1 (g a 12) (g a 13) else capsuleCapsule mg p1 m1 (g a 12) (g a 13) p2 m2 (g a 27) (g a 28)).",
        "Definition model (op : Z) (a : list float) : list float :=",
        "  if (op =? 5)%Z then match makeFrame (V a 0) (V a 3) with Some (x, y, z) => v2l x ++ v2l y ++ v2l z | None => [] end",
        "  else let cs := collide op a false in let mg := g a 30 in",
        "    cl cs ++ gd2l (geomDistance false cs mg) ++",
        "    gd2l (if ((op =? 1) || (op =? 4))%Z then geomDistance false (collide op a true) mg else geomDistance true cs mg).",
        "(* ops >= 100: two contacts tie for the smallest distance (to rounding): which one mj_geomDistance picks for its witness points depends on",
        "   rounding, so the witness points are not compared, only the contacts and the two distances *)",
        "Definition chk (c : Z * list float * list float) : bool := let '(op, a, out) := c in",
        "  if (100 <=? op)%Z then (let m := model (op - 100)%Z a in let k := (length out - 14)%nat in",
        "    fclose_list %s (firstn (S k) m) (firstn (S k) out) && fclose %s (nth (k + 7) m 0%%float) (nth (k + 7) out 0%%float))" % (TOL, TOL),
        "  else fclose_list %s (model op a) out." % TOL,
    ]) + "\n"


# ------------------------------------------------------------------------------------- the check
def parse_pair_line(line):
    t = line.split()
    if not t or t[0] == "ERR" or t[-1] == "ERR":
        return None
    n = int(t[0])
    vals = [unhx(x) for x in t[1:]]
    if len(vals) != 10 * n + 14:
        return None
    cons = [dict(dist=vals[10 * i], pos=vals[10 * i + 1:10 * i + 4], normal=vals[10 * i + 4:10 * i + 7], tangent=vals[10 * i + 7:10 * i + 10]) for i in range(n)]
    r = vals[10 * n:]
    return n, cons, dict(gd12=r[0], ft12=r[1:7], gd21=r[7], ft21=r[8:14]), [float(n)] + vals


def oracle_pair(ctx, name, a, meta, parsed, stats):
    _, t1, t2 = PAIRS[name]
    pos1, mat1, size1, pos2, mat2, size2, mg = a[0:3], a[3:12], a[12:15], a[15:18], a[18:27], a[27:30], a[30]
    n, cons, gd, _ = parsed
    kind = meta["kind"]
    if kind in ("negative-margin", "zero-length"):
        return
    sig = {"site": "mjc_" + {"PS": "PlaneSphere", "SS": "SphereSphere", "PC": "PlaneCapsule", "SC": "SphereCapsule", "CC": "CapsuleCapsule", "PY": "PlaneCylinder", "SY": "SphereCylinder"}[name]}

    def viol(what, exp, obs, cls):
        ctx.violation("impl_violation", {"pair": name, "kind": kind, "args": a, "what": what}, expected=exp, observed=obs,
                      theorem="C13 oracle: " + what, signature=dict(sig, **{"class": cls}))
    td = true_dist(t1, pos1, mat1, size1, t2, pos2, mat2, size2)
    sc = 1 + max(abs(v) for v in pos1 + pos2)
    overhang12, overhang21 = cc_overhang(pos1, mat1, size1, pos2, mat2, size2) if name == "CC" else (False, False)
    # candidate finding near-parallel-cancellation: cylinder axis nearly but not exactly parallel to the plane normal
    nearpar = False
    if name == "PY":
        sang = norm(cross(zax(mat1), zax(mat2)))
        nearpar = False and 3e-16 < sang < 1e-7     # fixed in /repo (threshold len_sqr >= mjMINVAL): no carve-out, the window is fully in the oracle
    _viol = viol

    def viol(what, exp, obs, cls):      # noqa: F811
        known = (overhang12 and cls in ("dist", "pos", "normal", "geomdist")) or ((overhang12 or overhang21) and cls == "geomdist-sym")
        if nearpar and cls in ("dist", "pos", "normal", "geomdist", "emit", "margin"):
            _viol(what, exp, obs, "near-parallel-cancellation")
        else:
            _viol(what, exp, obs, "parallel-overhang" if known else cls)
    tol = 1e-9 * sc
    if name == "PY":
        # cylinder axis within sqrt(mjMINVAL) = 3.2e-8 rad of the plane normal: the degenerate arm uses the cylinder x-axis instead of the
        # lowest rim direction (error <= r * angle), just above it the normalised cancellation vector carries ~1e-16/3.2e-8 relative noise
        tol += 5e-8 * size2[0]
    # coincident centre points (sphere centres / nearest segment points): the normal direction is a convention
    degenerate = kind.startswith(("coincident", "near-coincident")) or (t1 != PLANE and name != "SY" and td + size1[0] + size2[0] < 1e-12)
    if name == "SY":
        v_ = sub(pos1, pos2)
        a_ = zax(mat2)
        rho_ = norm(sub(v_, scl(a_, dot(v_, a_))))
        degenerate = rho_ < 1e-9 or kind == "deep-tie"        # centre on the axis / cap and side equally near: the direction is a convention
    # emitted iff true distance <= margin (outside a tolerance band; exact in the dyadic 'touching' cases)
    exact = kind.startswith("touching")
    if exact:
        want = td <= mg
    else:
        want = True if td < mg - tol else (False if td > mg + tol else None)
    if want is not None and (n > 0) != want:
        viol("contact emitted iff true distance <= margin", "emitted=%s (true distance %.17g, margin %.17g)" % (want, td, mg), "n=%d" % n, "emit")
    stats["emitted" if n else "not_emitted"] += 1
    if n:
        dmin = min(c["dist"] for c in cons)
        if abs(dmin - td) > tol:
            viol("smallest contact dist = true signed distance", td, dmin, "dist")
    for c in cons:
        if c["dist"] > mg + 1e-12 * sc:
            viol("dist <= margin", mg, c["dist"], "margin")
        if c["dist"] < td - tol:
            viol("contact dist >= true signed distance", td, c["dist"], "dist")
        fl = check_contact_geometry(t1, pos1, mat1, size1, t2, pos2, mat2, size2, c["dist"], c["pos"], c["normal"], degenerate,
                                    nearest=c["dist"] <= dmin + tol)
        for s in fl[:1]:
            viol(s.split(" (")[0], "see text", s, "normal" if "normal" in s.split(" (")[0] else "pos")
        # frame completion of this pre-contact is checked through FRAME cases issued by the caller
    # mj_geomDistance: symmetric, agrees with the smallest contact distance below distmax = margin
    exp = min([mg] + [c["dist"] for c in cons])
    if abs(gd["gd12"] - exp) > 1e-12 * sc:
        viol("mj_geomDistance agrees with the smallest contact dist", exp, gd["gd12"], "geomdist")
    if abs(gd["gd12"] - gd["gd21"]) > 1e-10 * sc:
        viol("mj_geomDistance symmetric in its two geoms", gd["gd12"], gd["gd21"], "geomdist-sym")
    parallel_cc = name == "CC" and norm(cross(zax(mat1), zax(mat2))) < 1e-7      # nearest points not unique
    if not degenerate and not parallel_cc and max(abs(x - y) for x, y in zip(gd["ft12"], gd["ft21"][3:] + gd["ft21"][:3])) > 1e-9 * sc:
        viol("mj_geomDistance fromto swapped when the geoms are swapped", gd["ft12"], gd["ft21"], "geomdist-sym")
    if gd["gd12"] < mg and not degenerate:
        s1 = sdf(t1, pos1, mat1, size1, gd["ft12"][:3])
        s2 = sdf(t2, pos2, mat2, size2, gd["ft12"][3:])
        if abs(s1) > 1e-8 * sc or abs(s2) > 1e-8 * sc:
            viol("mj_geomDistance fromto points lie on the two surfaces", 0.0, [s1, s2], "geomdist")


def check_full_contact(ctx, where, case, t1, t2, dist, pos, frame, includemargin, detect, margin_expected):
    sig = {"site": "mj_collision", "pair": "%s-%s" % (GEOMNAME.get(t1, t1), GEOMNAME.get(t2, t2))}

    def viol(what, exp, obs, cls):
        ctx.violation("impl_violation", dict(case, where=where, what=what), expected=exp, observed=obs, theorem="C13 oracle: " + what, signature=dict(sig, **{"class": cls}))
    if any(v != v for v in [dist] + pos + frame):
        viol("no NaN in contact", "finite", [dist] + pos + frame, "nan")
        return
    if abs(norm(frame[:3]) - 1) > 1e-10:
        viol("|normal| = 1", 1.0, norm(frame[:3]), "normal")
    e = frame_errors(frame)
    if e > 1e-10:
        viol("contact frame orthonormal and right-handed", "error <= 1e-10", {"frame": frame, "error": e}, "frame")
    if dist > detect + 1e-9:
        viol("dist <= margin + gap of the pair", detect, dist, "margin")
    if margin_expected is not None and abs(includemargin - margin_expected) > 1e-15:
        viol("includemargin = margin of the pair", margin_expected, includemargin, "margin")


def run(ctx):
    rng = ctx.rng
    phase = {}
    t0 = time.time()
    ctx.coq_props(allowed_axioms=F.STD_AXIOMS, extra_targets=["Lib/Num.vo", "Lib/NumF.vo", "Model/Spatial.vo", "Model/CollidePrim.vo"])
    phase["coq_props"] = round(time.time() - t0, 1)
    t0 = time.time()
    exe = ctx.driver("c13_prim", ["c13_prim.c"])
    phase["build"] = round(time.time() - t0, 1)
    ctx.cov["support"]["phase_s"] = phase
    if exe is None:
        return
    t0 = time.time()
    stats = {"emitted": 0, "not_emitted": 0}
    # ---------------- direct calls of the colliders + mju_makeFrame
    pcs = pair_cases(ctx)
    fcs = frame_cases(ctx)
    inp = "".join("PAIR %d %d %s\n" % (PAIRS[nm][1], PAIRS[nm][2], " ".join(hx(x) for x in a)) for nm, a, _ in pcs)
    rc, out, err = ctx.run(exe, inp)
    lines = out.strip("\n").split("\n") if out.strip() else []
    if rc != 0 or len(lines) != len(pcs):
        ctx.broken.append(("correspondence", "driver c13_prim failed (PAIR)", "rc=%s lines=%d/%d %s" % (rc, len(lines), len(pcs), err[-800:])))
        return
    coq_cases, descr = [], []
    kinds = {}
    for (nm, a, meta), line in zip(pcs, lines):
        parsed = parse_pair_line(line)
        kinds[nm + ":" + meta["kind"]] = kinds.get(nm + ":" + meta["kind"], 0) + 1
        if parsed is None:
            ctx.violation("impl_violation", {"pair": nm, "args": a}, expected="contacts", observed=line[:200], theorem="C13 oracle: collider returns without error",
                          signature={"site": "mjc_" + nm, "class": "error"})
            continue
        oracle_pair(ctx, nm, a, meta, parsed, stats)
        ds_ = sorted(c_["dist"] for c_ in parsed[1])
        tie = len(ds_) >= 2 and abs(ds_[0] - ds_[1]) <= 1e-9 * (1 + abs(ds_[0]))
        coq_cases.append("(%d%%Z, %s, %s)" % (PAIRS[nm][0] + (100 if tie else 0), F.flist(a), F.flist(parsed[3])))
        descr.append(("PAIR " + nm, a, meta["kind"], line))
        # the frame mj_setContact would build from each pre-contact
        for c in parsed[1]:
            if all(v == v for v in c["normal"] + c["tangent"]) and (ctx.tier != "quick" or meta["kind"] != "random" or rng.random() < 0.4):
                fcs.append((c["normal"], c["tangent"], "precontact-" + nm))
    inp = "".join("FRAME %s\n" % " ".join(hx(x) for x in x + y + [0.0, 0, 0]) for x, y, _ in fcs)
    rc, out, err = ctx.run(exe, inp)
    lines = out.strip("\n").split("\n") if out.strip() else []
    if rc != 0 or len(lines) != len(fcs):
        ctx.broken.append(("correspondence", "driver c13_prim failed (FRAME)", "rc=%s lines=%d/%d %s" % (rc, len(lines), len(fcs), err[-800:])))
        return
    nframe_err = 0
    for (x, y, kind), line in zip(fcs, lines):
        t = line.split()
        kinds["FRAME:" + kind] = kinds.get("FRAME:" + kind, 0) + 1
        if t[0] == "ERR":
            o = []
            nframe_err += 1
            if norm(x) >= 0.5 + 1e-12:
                ctx.violation("impl_violation", {"op": "mju_makeFrame", "x": x, "y": y}, expected="a frame (|x| >= 0.5)", observed="mjERROR", theorem="C13_frame",
                              signature={"site": "mju_makeFrame", "class": "error"})
        else:
            o = [unhx(v) for v in t[1:]]
            e = frame_errors(o)
            nx = norm(x)
            bad = e > 1e-10 or (nx >= 1e-15 and max(abs(a - b / nx) for a, b in zip(o[:3], x)) > 1e-12)
            if nx < 0.5 - 1e-12:
                ctx.violation("impl_violation", {"op": "mju_makeFrame", "x": x, "y": y}, expected="mjERROR (|x| < 0.5)", observed=o, theorem="C13_frame",
                              signature={"site": "mju_makeFrame", "class": "error"})
            elif bad:
                ctx.violation("impl_violation", {"op": "mju_makeFrame", "x": x, "y": y, "kind": kind}, expected="orthonormal right-handed frame with first row x/|x| (error <= 1e-10)",
                              observed={"frame": o, "error": e}, theorem="C13_frame",
                              signature={"site": "mju_makeFrame", "class": "tangent-parallel-to-normal" if kind.startswith(("parallel", "precontact")) else "frame"})
        coq_cases.append("(5%%Z, %s, %s)" % (F.flist(x + y), F.flist(o) if o else "[]%float"))
        descr.append(("FRAME", x + y, kind, line))
    phase["direct_calls_and_oracle"] = round(time.time() - t0, 1)
    t0 = time.time()
    # ---------------- model evaluation inside Coq
    fails = ctx.coq_eval("c13", "From Coq Require Import ZArith PrimFloat Bool.\nFrom MJV Require Import Lib.Num Lib.NumF Model.Spatial Model.CollidePrim.\nOpen Scope nat_scope.",
                         coq_cases, "chk", pre=coq_pre())
    seen = set()
    for i in fails:
        op, a, kind, line = descr[i]
        if (op, kind) in seen:
            continue
        seen.add((op, kind))
        ctx.violation("correspondence", {"op": op, "kind": kind, "args": a}, expected="model output (Model/CollidePrim.v at binary64, tolerance 2^-30 scaled)", observed=line[:600],
                      found_input=False, theorem="correspondence c13 " + op, signature={"op": op, "kind": kind},
                      note="implementation and Coq model disagree on this input; the geometric oracle on implementation outputs did not flag it")
    phase["coq_eval"] = round(time.time() - t0, 1)
    t0 = time.time()
    # ---------------- full pipeline: two-geom worlds
    wcs = world_cases(ctx)
    inp = "".join("WORLD %d %s %d %s %s\n" % (c[0], " ".join(hx(x) for x in c[1] + c[2] + c[3]), c[4], " ".join(hx(x) for x in c[5] + c[6] + c[7]),
                                               " ".join(hx(x) for x in c[8])) for c in wcs)
    rc, out, err = ctx.run(exe, inp)
    lines = out.strip("\n").split("\n") if out.strip() else []
    nworld_con = 0
    pairstat = {}
    if rc != 0 or len(lines) != len(wcs):
        ctx.broken.append(("correspondence", "driver c13_prim failed (WORLD)", "rc=%s lines=%d/%d %s" % (rc, len(lines), len(wcs), err[-800:])))
    else:
        for c, line in zip(wcs, lines):
            t = line.split()
            case = {"world": [c[0], c[1], c[2], c[3], c[4], c[5], c[6], c[7], c[8]], "kind": c[9]}
            if t[0] == "ERR":
                ctx.violation("impl_violation", case, expected="contacts", observed=line[:300], theorem="C13 oracle: mj_collision runs", signature={"site": "mj_collision", "class": "error"})
                continue
            ncon = int(t[0])
            v = [unhx(x) for x in t[1:16]]
            detect, gd12, ft12, gd21, ft21 = v[0], v[1], v[2:8], v[8], v[9:15]
            rest = t[16:]
            t1, t2 = c[0], c[4]
            # contacts are reported with the geom of lower type first: order the descriptors the same way
            (gs1, gp1, gq1), (gs2, gp2, gq2) = (c[1], c[2], c[3]), (c[5], c[6], c[7])
            if t1 > t2:
                t1, t2 = t2, t1
                (gs1, gp1, gq1), (gs2, gp2, gq2) = (gs2, gp2, gq2), (gs1, gp1, gq1)
            dists = [unhx(rest[16 * i]) for i in range(ncon)]
            for i in range(ncon):
                r = rest[16 * i:16 * i + 16]
                vals = [unhx(x) for x in r[:14]]
                dist, pos, frame, inc = vals[0], vals[1:4], vals[4:13], vals[13]
                nworld_con += 1
                check_full_contact(ctx, "WORLD", case, t1, t2, dist, pos, frame, inc, detect, c[8][0] + c[8][2])
                if (t1, t2) in ANALYTIC_TYPES:
                    m1, m2 = quat2mat(gq1), quat2mat(gq2)
                    onaxis = t1 == SPHERE and t2 == 5 and norm(cross(sub(gp1, gp2), zax(m2))) < 1e-9
                    fl = check_contact_geometry(t1, gp1, m1, gs1, t2, gp2, m2, gs2, dist, pos, frame[:3], onaxis, nearest=dist <= min(dists) + 1e-12)
                    for s in fl[:1]:
                        ctx.violation("impl_violation", dict(case, what=s), expected="see text", observed=s, theorem="C13 oracle: " + s.split(" (")[0],
                                      signature={"site": "mj_collision", "pair": "%s-%s" % (GEOMNAME[t1], GEOMNAME[t2]), "class": "geometry"})
            key = "%s-%s" % (GEOMNAME[t1], GEOMNAME[t2])
            pairstat[key] = pairstat.get(key, 0) + ncon
            check_geomdist(ctx, "WORLD", case, t1, t2, dists, gd12, ft12, gd21, ft21, c[8][4])
            if (t1, t2) in ANALYTIC_TYPES:
                td = true_dist(t1, gp1, quat2mat(gq1), gs1, t2, gp2, quat2mat(gq2), gs2)
                if td < detect - 1e-9 and not dists:
                    ctx.violation("impl_violation", case, expected="a contact (true distance %.17g < margin+gap %.17g)" % (td, detect), observed="ncon=0", theorem="C13 oracle: contact emitted iff distance <= margin",
                                  signature={"site": "mj_collision", "pair": key, "class": "emit"})
                if dists and abs(min(dists) - td) > 1e-9 + (5e-8 * gs2[0] if (t1, t2) == (PLANE, 5) else 0.0):
                    ctx.violation("impl_violation", case, expected=td, observed=min(dists), theorem="C13 oracle: smallest contact dist = true signed distance",
                                  signature={"site": "mj_collision", "pair": key, "class": "dist"})
    # ---------------- full pipeline: structured degenerate alignments, canonical frame vs common rigid motion, both geom orders
    acs = aligned_cases(ctx)
    astats = {"worlds": 0, "contacts": 0, "with_true_distance": 0, "covariance_pairs": 0}
    rc, out, err = ctx.run(exe, "".join(aligned_line(c) for c in acs))
    lines = out.strip("\n").split("\n") if out.strip() else []
    if rc != 0 or len(lines) != len(acs):
        ctx.broken.append(("correspondence", "driver c13_prim failed (ALIGNED)", "rc=%s lines=%d/%d %s" % (rc, len(lines), len(acs), err[-800:])))
    else:
        aligned_oracle(ctx, acs, [parse_world_line(l) for l in lines], astats)
    ctx.cov["support"]["aligned_stream"] = astats
    phase["aligned_stream"] = round(time.time() - t0, 1)
    # ---------------- full pipeline: mjgen scenes
    nscene = 60 if ctx.tier == "quick" else 1200
    seeds = [rng.randrange(1, 10 ** 6) for _ in range(nscene)]
    feats = [(8 | 1 | 2 | 4 | (1 << 15)) if k % 3 else (0x7FFFF) for k in range(nscene)]
    inp = "".join("SCENE %d %d %d %s\n" % (s, f, 2 + (s % 9), hx(0.5)) for s, f in zip(seeds, feats))
    rc, out, err = ctx.run(exe, inp)
    nscene_con = 0
    if rc != 0 or out.count("END\n") != nscene:
        ctx.broken.append(("correspondence", "driver c13_prim failed (SCENE)", "rc=%s ends=%d/%d %s" % (rc, out.count("END\n"), nscene, err[-800:])))
    else:
        blocks = out.split("END\n")[:nscene]
        for (s, f), blk in zip(zip(seeds, feats), blocks):
            ls = blk.strip("\n").split("\n")
            case0 = {"scene": {"seed": s, "feat": f, "nbody": 2 + (s % 9)}}
            hd = ls[0].split()
            if int(hd[1]) < 0:
                if int(hd[1]) == -2:
                    ctx.violation("impl_violation", case0, expected="contacts", observed=ls[0][:300], theorem="C13 oracle: mj_collision runs", signature={"site": "mj_collision", "class": "error"})
                continue
            bypair = {}
            for l in ls[1:]:
                t = l.split()
                if t[0] != "C":
                    continue
                t1, t2, g1, g2 = int(t[1]), int(t[2]), int(t[3]), int(t[4])
                v = [unhx(x) for x in t[5:]]
                dist, pos, frame, inc, detect = v[0], v[1:4], v[4:13], v[13], v[14]
                gd12, ft12, gd21, ft21 = v[15], v[16:22], v[22], v[23:29]
                geo = v[29:]
                case = dict(case0, geoms=[g1, g2])
                nscene_con += 1
                key = "%s-%s" % (GEOMNAME[t1], GEOMNAME[t2])
                pairstat[key] = pairstat.get(key, 0) + 1
                check_full_contact(ctx, "SCENE", case, t1, t2, dist, pos, frame, inc, detect, None)
                rec = bypair.setdefault((g1, g2), dict(t=(t1, t2), dists=[], cons=[], gd=(gd12, ft12, gd21, ft21), geo=geo))
                rec["dists"].append(dist)
                rec["cons"].append((dist, pos, frame[:3]))
            for (g1, g2), r in bypair.items():
                case = dict(case0, geoms=[g1, g2])
                t1, t2 = r["t"]
                check_geomdist(ctx, "SCENE", case, t1, t2, r["dists"], r["gd"][0], r["gd"][1], r["gd"][2], r["gd"][3], 0.5)
                if (t1, t2) in ANALYTIC_TYPES:
                    geo = r["geo"]
                    for (dist, pos, nrm) in r["cons"]:
                        fl = check_contact_geometry(t1, geo[0:3], geo[3:12], geo[12:15], t2, geo[15:18], geo[18:27], geo[27:30], dist, pos, nrm, False,
                                                    nearest=dist <= min(r["dists"]) + 1e-12)
                        for sfl in fl[:1]:
                            ctx.violation("impl_violation", dict(case, what=sfl), expected="see text", observed=sfl, theorem="C13 oracle: " + sfl.split(" (")[0],
                                          signature={"site": "mj_collision", "pair": "%s-%s" % (GEOMNAME[t1], GEOMNAME[t2]), "class": "geometry"})
                    td = true_dist(t1, geo[0:3], geo[3:12], geo[12:15], t2, geo[15:18], geo[18:27], geo[27:30])
                    if abs(min(r["dists"]) - td) > 1e-9:
                        ctx.violation("impl_violation", case, expected=td, observed=min(r["dists"]), theorem="C13 oracle: smallest contact dist = true signed distance",
                                      signature={"site": "mj_collision", "pair": "%s-%s" % (GEOMNAME[t1], GEOMNAME[t2]), "class": "dist"})
    phase["pipeline_oracle"] = round(time.time() - t0, 1)
    # ---------------- coverage
    nontriv = sum(1 for d in descr if len(set(abs(v) for v in d[1])) > 4)
    ctx.cov["evaluations"] = len(coq_cases) + nworld_con + nscene_con
    ctx.cov["distinct_nontrivial"] = nontriv
    ctx.cov["rule"] = ("every direct collider call (5 analytic pairs: random poses/sizes/margins, near-contact placements by bisection on the reference distance, coincident centres, parallel / anti-parallel / nearly parallel capsules, "
                       "upright and lying capsules on tilted planes, exactly-touching and exactly-at-margin dyadic configurations) and every mju_makeFrame call (random, threshold, error, tangent parallel to the normal, and the normal/tangent of every pre-contact returned) "
                       "is evaluated in the Coq model at binary64 and compared with tolerance 2^-30 scaled; non-trivial = case whose arguments take more than four distinct absolute values; "
                       "plus every contact of mj_collision on two-geom worlds and mjgen scenes checked by the oracle")
    ctx.cov["samples"] = [{"op": d[0], "kind": d[2], "args": d[1]} for d in (descr[:1] + descr[len(descr) // 2:len(descr) // 2 + 1] + descr[-1:])]
    ctx.cov["correspondence_disagreements"] = len(fails)
    ctx.cov["support"]["cases_per_kind"] = kinds
    ctx.cov["support"]["direct_calls_emitting"] = stats
    ctx.cov["support"]["world_contacts"] = nworld_con
    ctx.cov["support"]["scene_contacts"] = nscene_con
    ctx.cov["support"]["pipeline_contacts_per_pair"] = pairstat
    ctx.cov["support"]["makeFrame_errors"] = nframe_err
    ctx.cov["explanation"] = ("theorems of Props/C13.v proved over R for all inputs; model tied to the five mjc_* colliders, mju_makeFrame and mj_geomDistance on %d calls; "
                              "oracle on %d contacts of mj_collision (two-geom worlds and mjgen scenes)" % (len(coq_cases), nworld_con + nscene_con))


def check_geomdist(ctx, where, case, t1, t2, dists, gd12, ft12, gd21, ft21, distmax):
    """mj_geomDistance symmetric and agreeing with the smallest contact distance of the pair"""
    key = "%s-%s" % (GEOMNAME.get(t1, t1), GEOMNAME.get(t2, t2))
    direct = (t1, t2) in ANALYTIC_TYPES or (t1 == PLANE) or (t1, t2) in ((SPHERE, 5), (SPHERE, 6), (CAPSULE, 6))
    tol = 1e-10 if direct else 2e-5
    sig = {"site": "mj_geomDistance", "pair": key}
    if abs(gd12 - gd21) > tol:
        ctx.violation("impl_violation", dict(case, where=where), expected="mj_geomDistance(g1,g2) = mj_geomDistance(g2,g1) (tolerance %g)" % tol, observed=[gd12, gd21],
                      theorem="C13 oracle: mj_geomDistance symmetric", signature=dict(sig, **{"class": "geomdist-sym"}))
    elif gd12 < distmax and max(abs(x - y) for x, y in zip(ft12, ft21[3:] + ft21[:3])) > (1e-9 if direct else 1e-3):
        ctx.violation("impl_violation", dict(case, where=where), expected="fromto swapped", observed=[ft12, ft21],
                      theorem="C13 oracle: mj_geomDistance symmetric", signature=dict(sig, **{"class": "geomdist-sym"}))
    if dists and direct:
        exp = min(dists + [distmax])
        if abs(gd12 - exp) > tol:
            ctx.violation("impl_violation", dict(case, where=where), expected=exp, observed=gd12,
                          theorem="C13 oracle: mj_geomDistance agrees with the contact distance", signature=dict(sig, **{"class": "geomdist"}))
    elif dists and t1 != t2 or (dists and len(dists) == 1):
        # GJK/EPA pairs: the single contact of mjc_Convex reports the same distance (box-box reports per-corner depths: skipped)
        # (deep penetrations are iteration-limited EPA estimates obtained from different start simplices: compared from -0.02 upwards)
        if not (t1 == 6 and t2 == 6) and len(dists) == 1 and dists[0] > -0.02 and abs(gd12 - min(dists[0], distmax)) > 1e-4:
            ctx.violation("impl_violation", dict(case, where=where), expected=dists[0], observed=gd12,
                          theorem="C13 oracle: mj_geomDistance agrees with the contact distance", signature=dict(sig, **{"class": "geomdist"}))
