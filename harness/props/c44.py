"""C44 — MJX batching, compilation and data transfer are transparent (state API proved; the rest oracle-only)."""
import importlib.util, json, os, subprocess, sys, time
from concurrent.futures import ThreadPoolExecutor
import framework as F

META = {
    "id": "C44", "category": "proof", "design_ref": "DESIGN.md section 4, C44",
    "technique": "Coq proof that a table-generic model of mjx.state_size/get_state/set_state agrees with the C26 model of the C state API "
                 "on valid signatures, hence inherits its round-trip theorems; fail-closed python-ast translator regenerating MJX's element "
                 "table from mjx/_src/io.py on every run, proved equal by computation to the table regenerated from the C sources; exact "
                 "correspondence of the repo's MJX functions with the model over all 2^14 signatures (thorough) or a sample (quick); "
                 "support oracles for jit/vmap, put_data/get_data, make_data",
    "text": "PARTIAL (state API only, as designed).  PROVED for every table of state elements living in pairwise distinct fields, every value "
            "type, every signature 0 <= sig < 2^n and every well-formed Data: mjx.state_size / get_state / set_state (model Model/MjxState.v: "
            "whole-field flatten, dictionary of updates applied at the end, reshape to the original shape, size check of the vector, no lower "
            "bound check of the signature) compute exactly what mj_stateSize / mj_getState / mj_setState compute (C44_agrees_with_C), so: "
            "length(get_state) = state_size (C44_size_get); set_state(get_state d) restores exactly the components of the signature and leaves "
            "every other field (C44_set_get); get_state after set_state returns the vector, entries of eq_active passed through x != 0 "
            "(C44_get_set, C44_get_set_bool).  PROVED BY COMPUTATION on the two regenerated tables: MJX's (component, field, symbolic size, "
            "stored-through-bool) table, read bit by bit with the enumerator values of THIS tree's mjtype.h, equals the C table restricted to "
            "the components MJX supports, MJX supports all mjNSTATE components, loops and upper-bound checks use mjNSTATE "
            "(C44_table_ok/_restricted/_supported_all/_table_eq), hence the round trips hold on MJX's own table for every model "
            "(C44_generated_table, C44_mjx_round_trip).  DIFFERENCES from the C API kept in the model and stated (C44_errors): state_size "
            "ignores bits >= mjNSTATE and all three functions accept negative python ints as sig mod 2^n where the C functions take the error "
            "outcome; set_state raises on a vector of the wrong length.  TIED: translator (template match of the three functions, symbolic "
            "evaluation of _state_elem_size) + exact run of the working tree's MJX functions against the model evaluated inside Coq, round-trip "
            "laws checked on the implementation outputs.  CAVEAT: MJX takes the mjtState enum (names, values, mjNSTATE) from the installed "
            "mujoco wheel (3.13.0), not from this tree's header; the run compares the wheel's enum with the table regenerated from the header "
            "and reports a broken tie when they differ.  NOT PROVED (support oracles on implementation output only): jax.jit / jax.vmap "
            "transparency (a property of JAX tracing, not of MuJoCo code a Gallina model can express), put_data -> get_data field mapping, "
            "make_data vs put_data of a fresh MjData (same treedef, shapes, dtypes up to jax's int width for contact.geom, equal values on every leaf except the padding of "
            "INACTIVE contact slots, and forward() of both is identical; OBSERVATION recorded in the evidence: make_data pads contact.dist with 0 and contact.geom with -1 "
            "where put_data pads with 1e10 and 0; only active contacts are compared); put_data -> get_data on MjData with active contacts of condim 1/3/4/6 under both cones, a limit, a friction-loss dof "
            "and an equality returns counts, every efc_* field and the contact fields unchanged; put_data / get_data / put_model / make_data return snapshots (stepping, writing or resetting the source MjData / MjModel afterwards, or writing the "
            "MjData returned by get_data, leaves the mjx object unchanged: no aliasing of host memory under x64 on the CPU); KNOWN findings C44-F1 (rows with an all-zero Jacobian dropped) and "
            "C44-F2 (contacts with dist > 0 inside the margin dropped) and C44-F3 (static instead of active ne / nf / nl written by get_data) are replayed in both tiers and reported under their signatures only when the loss is exactly "
            "of that class.  NOT COVERED: plugin state (no plugin model can be built), warp / C++ back ends.",
    "note": "Trusted: Coq kernel; translate/mjxstate2v.py and translate/state2v.py (fail-closed readers); hand-written loop models "
            "Model/MjxState.v and Model/StateAPI.v; python driver c44_mjx.py with its own list of the 14 state fields; jax/numpy and the "
            "mujoco wheel 3.13.0 as the library MJX imports (MjModel container, XML parser, mjtState enum). Theorems closed under the global context.",
    "assumptions": ["values are integer-valued doubles in the correspondence runs (exact)",
                    "models are parsed from MJCF by the installed wheel (MJX only needs an MjModel); the C engine of this tree is not involved in C44",
                    "the exhaustive sweep passes numpy vectors to set_state (duck-typed) to avoid one XLA compilation per slice; a sample uses jax arrays"],
}

FIELDS = ["time", "qpos", "qvel", "act", "history", "qacc_warmstart", "ctrl", "qfrc_applied", "xfrc_applied",
          "eq_active", "mocap_pos", "mocap_quat", "userdata", "plugin_state"]
DIMNAMES = ["nq", "nv", "na", "nhistory", "nu", "nbody", "neq", "nmocap", "nuserdata", "npluginstate"]
PY = "/venv/bin/python"

MODELS = [
    # 0: every component except plugin state is non-empty
    """<mujoco><option timestep="0.01"/><size nuserdata="5"/>
  <worldbody>
    <body name="mc" mocap="true" pos="1 2 3"><geom size="0.1" contype="0" conaffinity="0"/></body>
    <body name="a" pos="0 0 1"><freejoint/><geom size="0.1"/>
      <body pos="0.3 0 0"><joint name="h" type="hinge" axis="0 1 0"/><geom type="capsule" size="0.05 0.1"/></body>
    </body>
    <body pos="1 0 1"><joint name="s" type="slide"/><geom size="0.1"/></body>
  </worldbody>
  <actuator><motor joint="s" nsample="3" delay="0.02"/><general joint="h" dyntype="integrator" gainprm="1"/>
            <general joint="h" dyntype="filter" dynprm="0.1" gainprm="1"/></actuator>
  <equality><weld body1="mc" body2="a"/><joint joint1="h" active="false"/></equality>
</mujoco>""",
    # 1: minimal: most components are empty
    """<mujoco><worldbody><body><joint type="hinge"/><geom size="0.1"/></body></worldbody></mujoco>""",
    # 2: two mocap bodies, three equalities, ball joint
    """<mujoco><size nuserdata="2"/>
  <worldbody>
    <body name="m1" mocap="true"><geom size="0.1" contype="0" conaffinity="0"/></body>
    <body name="m2" mocap="true" pos="0 1 0"><geom size="0.1" contype="0" conaffinity="0"/></body>
    <body name="b" pos="0 0 1"><joint name="bj" type="ball"/><geom size="0.1"/>
      <body name="c" pos="0.2 0 0"><joint name="cj" type="hinge"/><geom size="0.05"/></body></body>
  </worldbody>
  <actuator><general joint="cj" dyntype="integrator" gainprm="1"/></actuator>
  <equality><weld body1="m1" body2="b" active="false"/><connect body1="c" body2="m2" anchor="0 0 0"/><joint joint1="cj"/></equality>
</mujoco>""",
]

ORACLE_MODELS = [
    {"name": "pendulum2", "fns": ["forward", "step"], "batch": 3, "eager": "plain", "tier": "quick", "xml":
     """<mujoco><option timestep="0.005"/><worldbody><body pos="0 0 1"><joint name="a" type="hinge" axis="0 1 0" damping="0.1"/>
     <geom type="capsule" fromto="0 0 0 0.3 0 0" size="0.03"/><body pos="0.3 0 0"><joint name="b" type="hinge" axis="0 1 0" stiffness="2"/>
     <geom type="capsule" fromto="0 0 0 0.3 0 0" size="0.03"/></body></body></worldbody>
     <actuator><motor joint="a"/><position joint="b" kp="3"/></actuator></mujoco>"""},
    {"name": "free_contact", "fns": ["forward", "step"], "batch": 3, "eager": "disable_jit", "contact": True, "tier": "thorough", "xml":
     """<mujoco><option timestep="0.005"/><worldbody><geom type="plane" size="5 5 .1"/>
     <body pos="0 0 0.09"><freejoint/><geom size="0.1"/>
       <body pos="0.3 0 0"><joint name="h" type="hinge" axis="0 1 0"/><geom type="capsule" size="0.05 0.1"/></body></body>
     <body pos="1 0 1"><joint name="s" type="slide"/><geom size="0.1"/></body></worldbody>
     <actuator><motor joint="s"/><position joint="h" kp="3"/></actuator></mujoco>"""},
    {"name": "ball_tendon_rk4", "fns": ["step"], "batch": 2, "eager": "plain", "tier": "thorough", "xml":
     """<mujoco><option timestep="0.004" integrator="RK4"/><worldbody><body pos="0 0 1"><joint name="bj" type="ball" damping="0.05"/>
     <geom type="capsule" fromto="0 0 0 0.3 0 0" size="0.03"/><site name="s1" pos="0.3 0 0"/></body><site name="s0" pos="0 0 1.5"/></worldbody>
     <tendon><spatial stiffness="5"><site site="s0"/><site site="s1"/></spatial></tendon></mujoco>"""},
]

COQ_IMPORTS = ("From Coq Require Import String Ascii List ZArith Bool.\n"
               "From MJV Require Import Lib.Eqb Model.StateAPI Gen.StateTable Proof.StateAPIProof Model.MjxState Gen.MjxStateTable Proof.MjxStateProof.\n"
               "Open Scope Z_scope.")

COQ_PRE = r'''
Open Scope string_scope.
Definition fields : list string := [%(fields)s].
Definition isbool (f : string) : bool := String.eqb f "eq_active".
Definition envs : list (list (string * Z)) := [%(envs)s].
Definition lens : list (list Z) := [%(lens)s].
Definition envf (mid : Z) (k : string) : Z := match assoc k (nth (Z.to_nat mid) envs []) with Some v => v | None => 0%%Z end.
Definition N := mjx_nstate.
Definition MST := Eval vm_compute in mjx_static_gen.
Definition E (mid : Z) := elems_of_static MST (envf mid).
Fixpoint index (f : string) (l : list string) (k : nat) : option nat :=
  match l with [] => None | g :: r => if String.eqb f g then Some k else index f r (S k) end.
Definition fillD (mid tag : Z) : data Z string := fun f =>
  match index f fields 0 with
  | None => []
  | Some k => map (fun j => if isbool f then (if Z.eqb tag 0 then (Z.of_nat k + Z.of_nat j) mod 2 else 1 - (Z.of_nat k + Z.of_nat j) mod 2)%%Z
                           else ((tag + 1) * 100000 + Z.of_nat k * 1000 + Z.of_nat j + 1)%%Z)
                  (seq 0 (Z.to_nat (nth k (nth (Z.to_nat mid) lens []) 0%%Z)))
  end.
Definition dumpD (d : data Z string) : list Z := flat_map d fields.
Definition vecval (seed : Z) (pos : nat) : Z := ((seed + Z.of_nat pos * (Z.of_nat pos + 3)) mod 7 - 3)%%Z.
Definition wvec (seed : Z) (size : nat) : list Z := map (vecval seed) (seq 0 size).
Definition gS := mjx_getState Z string N.
Definition sS := mjx_setState Z toBoolZ string String.eqb N.
Definition zS := mjx_stateSize string N.
Definition outputs (mid sig seed : Z) : option (Z * list (list Z)) :=
  let e := E mid in
  let d0 := fillD mid 0 in let d1 := fillD mid 1 in
  match zS e sig with
  | Some size =>
    match gS e d0 sig, sS e d1 (wvec seed size) sig with
    | Some v, Some d1' =>
        match gS e d1' sig, sS e d1 v sig with
        | Some g, Some d1'' => Some (Z.of_nat size, [v; dumpD d1'; g; dumpD d1''])
        | _, _ => None
        end
    | _, _ => None
    end
  | None => None
  end.
Definition flat (ls : list (list Z)) : list Z := flat_map (fun l => Z.of_nat (length l) :: l) ls.
(* hashed case: [0; mid; sig; seed; size; hash] *)
Definition chk_hash (c : list Z) : bool :=
  match c with
  | [mid; sig; seed; size; h] =>
      match outputs mid sig seed with Some (s, ls) => Z.eqb s size && Z.eqb (hall s ls) h | None => false end
  | _ => false
  end.
(* full case: [1; mid; sig; seed; size; flat outputs] *)
Definition chk_full (c : list Z) : bool :=
  match c with
  | mid :: sig :: seed :: size :: outs =>
      match outputs mid sig seed with Some (s, o) => Z.eqb s size && zlist_eqb (flat o) outs | None => false end
  | _ => false
  end.
Definition isNone {A} (o : option A) : Z := match o with None => 1%%Z | Some _ => 0%%Z end.
Definition hl (l : list Z) : Z := Uint63.to_Z (hacc (Uint63.of_Z 0) l).
(* arbitrary python int: [2; mid; sig; extra; r0..r5] *)
Definition chk_err (c : list Z) : bool :=
  match c with
  | mid :: sig :: extra :: outs =>
    let e := E mid in let d0 := fillD mid 0 in let d1 := fillD mid 1 in
    let sz := zS e sig in
    let size := match sz with Some s => Z.of_nat s | None => 0%%Z end in
    let g := gS e d0 sig in
    let s := sS e d1 (wvec 5 (Z.to_nat (Z.max 0 (size + extra)))) sig in
    zlist_eqb outs [isNone sz; size; isNone g; match g with Some v => hl v | None => 0%%Z end;
                    isNone s; match s with Some d => hl (dumpD d) | None => 0%%Z end]
  | _ => false
  end.
Definition chk_any (c : list Z) : bool :=
  match c with
  | 0%%Z :: r => chk_hash r
  | 1%%Z :: r => chk_full r
  | 2%%Z :: r => chk_err r
  | _ => false
  end.
'''


def load_mod(name):
    p = os.path.join(F.VERIF, "translate", name + ".py")
    spec = importlib.util.spec_from_file_location(name, p)
    mod = importlib.util.module_from_spec(spec)
    spec.loader.exec_module(mod)
    return mod


def run_py(ctx, mode, req, timeout):
    drv = os.path.join(F.VERIF, "harness", "drivers", "c44_mjx.py")
    env = dict(os.environ, JAX_PLATFORMS="cpu")
    import time as _time
    for attempt in range(3):
        try:
            r = subprocess.run([PY, drv, ctx.repo, mode], input=json.dumps(req), capture_output=True, text=True, timeout=timeout, env=env)
        except subprocess.TimeoutExpired:
            return None, "timeout after %ds" % timeout
        # XLA/LLVM aborts when the machine is momentarily out of memory for its JIT sections: environment, not an answer
        if r.returncode != 0 and "Cannot allocate memory" in r.stderr and attempt < 2:
            _time.sleep(30 * (attempt + 1))
            continue
        break
    if r.returncode != 0:
        return None, "rc=%d %s" % (r.returncode, r.stderr[-1500:])
    try:
        return json.loads(r.stdout), ""
    except ValueError:
        return None, "unparsable output: " + r.stdout[-300:] + r.stderr[-500:]


LAWS = {1: "length returned by get_state == state_size",
        2: "set_state(get_state(d)) restores exactly the components of the signature and leaves every other field",
        4: "get_state after set_state returns the vector (entries of bool components as x != 0)",
        64: "get_state returns the components of the signature in bit order",
        32: "get_state / set_state leave the source Data untouched",
        128: "no function of the state API raises on a valid signature"}
THM = {1: "C44_size_get", 2: "C44_set_get", 4: "C44_get_set", 32: "C44_set_get", 64: "C44_agrees_with_C", 128: "C44_mjx_round_trip"}


def run(ctx):
    rng = ctx.rng
    tm = ctx.cov["support"].setdefault("timing_s", {})
    t_last = [time.time()]

    def lap(label):
        now = time.time()
        tm[label] = round(now - t_last[0], 1)
        t_last[0] = now

    tr_c, tr_x = load_mod("state2v"), load_mod("mjxstate2v")

    def gen():
        try:
            return {"Gen/StateTable.v": tr_c.generate(ctx.repo), "Gen/MjxStateTable.v": tr_x.generate(ctx.repo)}
        except (tr_c.TranslatorError, tr_x.TranslatorError) as e:
            raise F.TranslatorError(str(e))

    targets = ["Lib/Eqb.vo", "Model/StateAPI.vo", "Gen/StateTable.vo", "Proof/StateAPIProof.vo", "Model/MjxState.vo",
               "Gen/MjxStateTable.vo", "Proof/MjxStateProof.vo"]
    # the two implementation runs start first and overlap with the Coq build
    nstate = len(FIELDS)
    nsig = 1 << nstate
    thorough = ctx.tier == "thorough"
    cases = []      # dicts: mid, sig, seed, full, jaxvec
    if thorough:
        for sig in range(nsig):
            cases.append({"mid": 0, "sig": sig, "seed": rng.randrange(1, 1000)})
        for mid in (1, 2):
            for _ in range(1500):
                cases.append({"mid": mid, "sig": rng.randrange(nsig), "seed": rng.randrange(1, 1000)})
        nfull, njax = 60, 60
    else:
        for mid in range(len(MODELS)):
            base = [0, nsig - 1] + [1 << i for i in range(nstate)] + [(nsig - 1) ^ (1 << i) for i in range(nstate)]
            sigs = base + [rng.randrange(nsig) for _ in range(30 if mid == 0 else 6)]
            for s in sigs:
                cases.append({"mid": mid, "sig": s, "seed": rng.randrange(1, 1000)})
        nfull, njax = 8, 8
    for _ in range(nfull):
        cases.append({"mid": rng.randrange(len(MODELS)), "sig": rng.randrange(nsig), "seed": rng.randrange(1, 1000), "full": True})
    for _ in range(njax):
        cases.append({"mid": 0 if rng.random() < 0.5 else rng.randrange(len(MODELS)), "sig": rng.randrange(nsig),
                      "seed": rng.randrange(1, 1000), "jaxvec": True})
    ecases = []     # (mid, sig, extra)
    for mid in (0, 1):
        for sig in (-1, -2, -5, -nsig, -nsig - 1, -(1 << 31), -(1 << 40) + 3, nsig, nsig + 3, 1 << 20, (1 << 31) - 1, nsig - 1, 0, 6):
            ecases.append((mid, sig, 0))
        for sig in (3, 514, nsig - 1, 0, -1, 64):
            ecases.append((mid, sig, 1))
            ecases.append((mid, sig, -1))
        for _ in range(6):
            ecases.append((mid, rng.randrange(-nsig, 2 * nsig), rng.choice([0, 0, 1])))
    nwork = 4 if thorough else 1
    parts = [cases[i::nwork] for i in range(nwork)]
    reqs = [{"models": MODELS, "cases": p, "err": ecases if k == 0 else []} for k, p in enumerate(parts)]
    oracle_req = {"seed": ctx.seed, "quick": not thorough, "models": [m for m in ORACLE_MODELS if thorough or m["tier"] == "quick"]}
    pool = ThreadPoolExecutor(max_workers=nwork + 1)
    futs = [pool.submit(run_py, ctx, "state", rq, 1500 if thorough else 400) for rq in reqs]
    fut_or = pool.submit(run_py, ctx, "oracle", oracle_req, 1700 if thorough else 400)

    props_ok = ctx.coq_props(allowed_axioms=(), gen=gen, extra_targets=targets)
    if not props_ok:
        F.coq_make(targets)       # evaluate the model with the last tables that translated, so that the failing-input search still runs
    lap("coq_props")
    results = [f.result() for f in futs]
    lap("mjx_state_runs")
    if any(r[0] is None for r in results):
        bad = [r[1] for r in results if r[0] is None][0]
        ctx.broken.append(("correspondence", "driver c44_mjx.py (state) failed", bad))
        fut_or.cancel()
        return
    res0 = results[0][0]
    dims = res0["dims"]
    outs = [None] * len(cases)
    for k, (r, _) in enumerate(results):
        for j, o in enumerate(r["cases"]):
            outs[j * nwork + k] = o
    errs = res0["err"]

    # ---------------------------------------------------------------- the enum MJX uses (wheel) vs this tree's header
    try:
        _, entries, nstate_hdr = tr_c.read_enum(ctx.repo)
        hdr = sorted([[n, v] for n, v, kind, ln in entries], key=lambda p: (p[1], p[0]))
    except tr_c.TranslatorError as e:
        hdr, nstate_hdr = None, None
    wheel = res0["wheel_enum"]
    ctx.cov["support"]["mjtState_enum"] = {
        "note": "MJX takes mujoco.mjtState from the installed wheel, not from this tree's include/mujoco/mjtype.h",
        "wheel_version": res0["wheel_version"], "wheel": wheel, "tree_header": hdr, "equal": wheel == hdr,
        "mjx_imported_from": res0["mjx_file"]}
    if hdr is not None and wheel != hdr:
        ctx.broken.append(("correspondence", "mjtState of the installed wheel differs from this tree's header",
                           "the MJX run below uses the wheel's bit assignment; wheel=%s header=%s" % (wheel[:20], hdr[:20])))
    if nstate_hdr is not None and nstate_hdr != len(FIELDS):
        ctx.broken.append(("correspondence", "harness component list out of date",
                           "header has mjNSTATE=%d, harness knows %d state fields" % (nstate_hdr, len(FIELDS))))

    # ---------------------------------------------------------------- laws on implementation output (evaluated by the driver)
    viols = []
    nontriv = set()
    for c, o in zip(cases, outs):
        if o["laws"]:
            viols.append((bin(c["sig"]).count("1"), c, o))
        if bin(c["sig"]).count("1") >= 2 and c["mid"] != 1:
            nontriv.add((c["mid"], c["sig"]))
    seen = {}
    for _, c, o in sorted(viols, key=lambda t: (t[0], t[1]["sig"])):
        for bit, txt in LAWS.items():
            if o["laws"] & bit and seen.get(bit, 0) < 2:
                seen[bit] = seen.get(bit, 0) + 1
                ctx.violation("impl_violation", {"model": c["mid"], "mjcf": MODELS[c["mid"]], "dims": dims[c["mid"]], "sig": c["sig"],
                                                 "vector_seed": c["seed"], "vector_type": "jax" if c.get("jaxvec") else "numpy"},
                              expected=txt, observed="fails on the output of the working tree's mjx functions (driver c44_mjx.py)" + ((": " + o["exc"]) if o.get("exc") else ""),
                              theorem=THM[bit], signature={"site": "mjx state API", "law": bit})

    # ---------------------------------------------------------------- model evaluation in Coq
    def lens_of(d):
        return [1, d["nq"], d["nv"], d["na"], d["nhistory"], d["nv"], d["nu"], d["nv"], 6 * d["nbody"], d["neq"], 3 * d["nmocap"],
                4 * d["nmocap"], d["nuserdata"], d["npluginstate"]]
    lens = [lens_of(d) for d in dims]
    pre = COQ_PRE % {
        "fields": "; ".join('"%s"' % f for f in FIELDS),
        "envs": "; ".join("[" + "; ".join('("%s", %d%%Z)' % (k, d[k]) for k in DIMNAMES) + "]" for d in dims),
        "lens": "; ".join(F.zlist(l) for l in lens),
    }
    lits, back = [], []
    for i, (c, o) in enumerate(zip(cases, outs)):
        if c.get("full"):
            flat = []
            for v in o["vecs"]:
                flat += [len(v)] + v
            lits.append(F.zlist([1, c["mid"], c["sig"], c["seed"], o["size"]] + flat))
        else:
            lits.append(F.zlist([0, c["mid"], c["sig"], c["seed"], o["size"], o["hash"]]))
        back.append(("case", i))
    for j, ((mid, sig, extra), o) in enumerate(zip(ecases, errs)):
        lits.append(F.zlist([2, mid, sig, extra] + o["r"]))
        back.append(("err", j))
    nshard = 8
    order = [k for sh in range(nshard) for k in range(sh, len(lits), nshard)]
    fails = ctx.coq_eval("c44_state", COQ_IMPORTS, [lits[k] for k in order], "chk_any", pre=pre,
                         shard=max(1, (len(lits) + nshard - 1) // nshard), timeout=1500)
    lap("coq_eval")
    nf = 0
    for i in sorted(fails, key=lambda i: (back[order[i]][0] != "err", order[i])):
        kind, j = back[order[i]]
        if nf >= 6:
            break
        nf += 1
        if kind == "case":
            c, o = cases[j], outs[j]
            ctx.violation("correspondence", {"model": c["mid"], "mjcf": MODELS[c["mid"]], "dims": dims[c["mid"]], "sig": c["sig"], "vector_seed": c["seed"]},
                          expected="outputs of Model/MjxState.v on Gen/MjxStateTable.v (size, get, set, get after set, set after get)",
                          observed={"size": o["size"], "hash": o["hash"], "vecs": o.get("vecs")}, found_input=bool(o["laws"]),
                          theorem="correspondence c44_mjx state", signature={"site": "mjx state API", "law": "model"},
                          note="the working tree's mjx.state_size/get_state/set_state and the Coq model disagree on this signature")
        else:
            mid, sig, extra = ecases[j]
            ctx.violation("correspondence", {"model": mid, "sig": sig, "vector_length_offset": extra},
                          expected="outcome of Model/MjxState.v (raise / size / checksums)", observed=errs[j], found_input=False,
                          theorem="correspondence c44_mjx error outcomes (C44_errors)", signature={"site": "mjx state API", "law": "errors"})
    # independent expectation for the outcomes on arbitrary ints (own reading of io.py, not the Coq model)
    for (mid, sig, extra), o in zip(ecases, errs):
        r = o["r"]
        exp_raise_get = sig >= nsig
        exp_size = sum(l for k, l in enumerate(lens[mid]) if (sig >> k) & 1)
        exp = [0, exp_size, int(exp_raise_get), int(exp_raise_get or max(0, exp_size + extra) != exp_size)]
        obs = [r[0], r[1], r[2], r[4]]
        if exp != obs:
            ctx.violation("correspondence", {"model": mid, "sig": sig, "vector_length_offset": extra}, expected=exp, observed=obs, found_input=False,
                          theorem="C44_errors", signature={"site": "mjx state API", "law": "errors-py"},
                          note="[state_size raises, size, get_state raises, set_state raises] differs from the harness' expectation")

    # ---------------------------------------------------------------- support oracles
    orc, oerr = fut_or.result()
    lap("mjx_oracle_run")
    sup = ctx.cov["support"]
    if orc is None:
        ctx.broken.append(("oracle", "driver c44_mjx.py (oracle) failed", oerr))
    else:
        sup["oracle_checks"] = orc["checks"]
        sup["oracle_notes"] = orc["notes"]
        sup["known_finding_replays"] = orc.get("findings", [])
        if "findings" not in orc:
            ctx.broken.append(("oracle", "fixed replays of C44-F1 / C44-F2 / C44-F3 did not run", "; ".join(orc["notes"])[:400]))
        for fd in orc.get("findings", []):
            if fd["lost"]:
                # the narrow class goes under the KNOWN-finding signature; any other loss on these inputs is an ordinary violation
                ctx.violation("impl_violation", {"oracle": "put_get_roundtrip", "mjcf": fd["mjcf"], "state": fd["state"]},
                              expected="get_data(put_data(d)) returns the counts and constraint arrays of d", observed=fd["what"], theorem=None,
                              signature={"site": "mjx get_data", "class": fd["cls"] if fd["exactly_this_class"] else "other-loss:" + fd["cls"]},
                              note="fixed replay; exactly_this_class=%s" % fd["exactly_this_class"])
        for ch in orc["checks"]:
            if not ch["ok"]:
                ctx.violation("impl_violation", {"oracle": ch["kind"], "model": ch["model"], "what": ch["what"],
                                                 "mjcf": ch.get("mjcf") or [m["xml"] for m in ORACLE_MODELS if m["name"] == ch["model"]][0],
                                                 "state": ch.get("state"), "seed": ctx.seed},
                              expected="difference <= %g" % ch["tol"], observed="difference %s at %s" % (ch["diff"], ch["where"]),
                              theorem=None, signature={"site": "mjx " + ch["kind"]},
                              note="support oracle on implementation output (no theorem covers this clause)")
    ctx.cov["evaluations"] = len(cases) + len(ecases)
    ctx.cov["distinct_nontrivial"] = len(nontriv)
    ctx.cov["rule"] = ("thorough: all 2^14 signatures on model 0 (every component but plugin state non-empty) + 1500 random signatures on each of "
                       "models 1, 2; quick: empty, full, every single bit, every complement of a bit and random signatures on 3 models; plus cases "
                       "with full vectors compared element-wise, cases with jax-array vectors, and arbitrary python ints (negative, >= 2^14, "
                       "wrong vector length); non-trivial = distinct (model, signature) with >= 2 components on a model with non-empty components")
    ctx.cov["exhaustive"] = thorough
    ctx.cov["samples"] = [dict(c, dims=dims[c["mid"]], size=o["size"]) for c, o in list(zip(cases, outs))[:: max(1, len(cases) // 3)]][:3]
    ctx.cov["correspondence_disagreements"] = len(fails)
    sup["models"] = [{"dims": d} for d in dims]
    sup["not_covered"] = "npluginstate = 0 in every model (no plugin can be loaded)"
    ctx.cov["explanation"] = ("12 theorems: MJX state API = C state API on valid signatures (generic), round trips, table equality by computation on the "
                              "regenerated tables; model tied to the working tree's io.py by translator + %d exact runs; jit/vmap/put/get/make: %d "
                              "oracle checks (support)" % (len(cases) + len(ecases), len(orc["checks"]) if orc else 0))
