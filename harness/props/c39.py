"""C39 — virtual file system operations have set semantics."""
import os, re
import framework as F

META = {
    "id": "C39", "category": "proof", "design_ref": "DESIGN.md section 4, C39; section 7 item 6",
    "technique": "Coq proof (induction over arbitrary operation sequences) of a hand-written model of VFS mounts and of the "
                 "FilePath key functions, tied to the working tree by exact correspondence through the public C API "
                 "(mj_addBufferVFS/addFileVFS/deleteFileVFS/containsBufferVFS/containsFileVFS + mju_openResource/readResource) "
                 "on random sequences over a name space with case and separator variants, with a probe of every name after every "
                 "operation compared inside Coq",
    "text": "Proved in Coq for ALL operation sequences from an empty VFS: the mounts form a finite map (keys unique); a key is "
            "present with contents b exactly when the last event on that key was a successful add of b (present <=> added and not "
            "deleted since, stated on NORMALISED keys with the event log of the run); adding to a present key returns 2 and leaves "
            "the whole state unchanged; deleting when neither the normalised name nor its stripped-lowered form is mounted returns "
            "-1 and changes nothing, otherwise removes exactly that one key; opening a name whose normalised path is mounted reads "
            "exactly the bytes of the last successful add of that key (exact match wins over any legacy candidate); FindMount's "
            "loop terminates. The legacy case-insensitive file-name lookup is proved deterministic ONLY under the hypothesis that "
            "at most one mount has that stripped-lowered name (the code iterates an unordered_map: DESIGN section 7 item 6 "
            "confirmed on the implementation and recorded in coverage.support; outside the property text because the opened name "
            "was never added). mj_containsBufferVFS: proved (C39_contains_after_add, C39_contains_iff) that a successfully added "
            "name is reported present under that name and under every name with the same normalisation; this was FALSE of the "
            "original tree (ContainsBuffer looked up the raw string: add('a\\b.txt') = 0 then contains('a\\b.txt') = 0), found by this "
            "check, repaired in /repo (commit e198e4b1a) and guarded by the oracle, the correspondence and mutant c39_contains_raw. "
            "Path normalisation (PathReduce/AbsPrefix/Combine/StripPath/Lower) is modelled and tied by correspondence only; no "
            "algebraic theorem (e.g. idempotence) is claimed for it. Adjacent observation outside the text, recorded in "
            "coverage.support: mj_addFileVFS on a missing file returns 0 and mounts an empty buffer (header documents -1). Not "
            "covered: registered resource providers, NULL names, concurrency.",
    "note": "Trusted: Coq kernel; hand-written model Model/VFS.v (mounts as association list, BufferProvider as key->bytes, "
            "default provider as a fixed disk function, no registered providers); correspondence harness (gcc, driver c39_vfs.c "
            "using only the public API; files created under build/scratch). Theorems closed under the global context.",
    "assumptions": ["no resource provider registered through mjp_registerResourceProvider", "names are non-NULL C strings",
                    "the files on disk do not change during a sequence", "tie is differential testing on the sequences of this run"],
}

# on-disk files (relative to the driver's cwd) reached by mj_addFileVFS and by the default provider
DISK = {"d1/F.bin": b"ONE", "d1/f.bin": b"two!", "d2/f.bin": b"x\0y", "d1/g.bin": b""}
# probe universe: closed under normalisation and strip+lower of everything the generator uses
U = ["a", "A", "b.txt", "B.TXT", "a/b.txt", "a\\b.txt", "A/b.txt", "a/B.TXT", "./a", "a/./b.txt", "a/../b.txt",
     "c/../a/b.txt", "a//b.txt", "a/b.txt/c", "x/A", "d1/F.bin", "d1\\f.bin", "d1/f.bin", "d2/f.bin", "f.bin", "F.bin", "g.bin",
     "d1/g.bin", "d1/missing.bin", "missing.bin"]
FILES = [("d1", "F.bin"), ("d1", "f.bin"), ("d2", "f.bin"), (None, "d1/F.bin"), ("d1/", "g.bin"), ("d1", "missing.bin"),
         ("", "d2\\f.bin"), ("d1\\", "F.bin"), ("", "a/b.txt"), ("d1/../d2", "f.bin")]
# (directory, file name) splits for mju_openResource / mj_containsFileVFS: directories with a trailing separator of
# either kind, without one, with ./ components; most concatenations are names of U, several share a lower-cased base name
SPLITS = [("a/", "b.txt"), ("a\\", "b.txt"), ("a", "b.txt"), ("a/", "B.TXT"), ("a\\", "B.TXT"), ("A/", "b.txt"), ("A\\", "b.txt"),
          ("x/", "A"), ("x\\", "A"), ("./", "a"), ("a/./", "b.txt"), ("c/../a/", "b.txt"), ("a/b.txt/", "c"), ("a/b.txt", "c"),
          ("d1/", "F.bin"), ("d1\\", "f.bin"), ("d1/", "f.bin"), ("d2/", "f.bin"), ("d2\\", "f.bin"), ("d1/", "g.bin"), ("zz/", "b.txt")]
BYTES = [b"", b"A", b"hi", b"\0", b"\xff\0\n", b"zz", b"1", b"2"]


def hx(s):
    if s is None:
        return "~"
    b = s if isinstance(s, bytes) else s.encode("latin-1")
    return b.hex() if b else "-"


def gen_op(rng):
    r = rng.random()
    if r < 0.30:
        return ("B", rng.choice(U), rng.choice(BYTES))
    if r < 0.42:
        return ("F",) + rng.choice(FILES)
    if r < 0.64:
        return ("D", rng.choice(U))
    if r < 0.72:
        return ("C", rng.choice(U))
    if r < 0.80:
        q = rng.random()
        return ("E",) + (rng.choice(FILES) if q < 0.4 else rng.choice(SPLITS) if q < 0.7 else (rng.choice(["", "zz", None]), rng.choice(U)))
    if r < 0.98:
        if rng.random() < 0.5:
            return ("O",) + rng.choice(SPLITS)
        return ("O", rng.choice(["", "", "zz", None, "a", "d1"]), rng.choice(U))
    return ("Z",)


def op_txt(o):
    return o[0] + "".join(" " + hx(x) for x in o[1:])


def cstr(s):
    return 'p "%s"' % s.replace('"', '""') if s else "[]"


def cbytes(b):
    return "[" + "; ".join(str(x) for x in b) + "]"


def op_coq(o):
    c = o[0]
    d = lambda x: cstr(x or "")
    if c == "B":
        return "OAddBuffer (%s) %s" % (cstr(o[1]), cbytes(o[2]))
    if c == "F":
        return "OAddFile (%s) (%s)" % (d(o[1]), cstr(o[2]))
    if c == "D":
        return "ODelete (%s)" % cstr(o[1])
    if c == "C":
        return "OContainsBuffer (%s)" % cstr(o[1])
    if c == "E":
        return "OContainsFile (%s) (%s)" % (d(o[1]), cstr(o[2]))
    if c == "O":
        return "OOpen (%s) (%s)" % (d(o[1]), cstr(o[2]))
    return "OReinit"


def parse_line(line, ops):
    """-> [(result, probes)]; result = int code or ('open', None|bytes[, name]); probes = [(contains, None|bytes)]"""
    t = line.split()
    i = 0
    out = []

    def opened():
        nonlocal i
        if t[i] == "0":
            i += 1
            return None
        n = int(t[i + 1])
        b = bytes.fromhex(t[i + 2]) if t[i + 2] != "-" else b""
        i += 3
        return b if n >= 0 else ("readerr", n)
    for o in ops:
        assert t[i] == "R"
        i += 1
        if o[0] == "O":
            b = opened()
            if b is not None:
                i += 1   # resource name
            res = ("open", b)
        else:
            res = int(t[i])
            i += 1
        assert t[i] == "P"
        i += 1
        pr = []
        for _ in U:
            c = int(t[i])
            i += 1
            pr.append((c, opened()))
        assert t[i] == ";"
        i += 1
        out.append((res, pr))
    return out


def oracle(ops, outs, disk_probe):
    """property-level checks on the implementation's own output, without any path normalisation
    knowledge: only the same literal name is related to itself."""
    errs = []
    B = disk_probe
    for k, (o, (r, A)) in enumerate(zip(ops, outs)):
        c = o[0]
        ui = U.index(o[1]) if c in "BDC" else None
        if c == "B":
            if r not in (0, 2):
                errs.append((k, "ret", "mj_addBufferVFS returned %s" % r))
            elif r == 0:
                if A[ui][1] != o[2]:
                    errs.append((k, "read", "after a successful add of %r reading it back gives %r instead of %r" % (o[1], A[ui][1], o[2])))
                if A[ui][0] != 1:
                    errs.append((k, "contains", "mj_addBufferVFS(%r) returned 0 but mj_containsBufferVFS(%r) = %d right after" % (o[1], o[1], A[ui][0])))
                if B[ui][0] == 1:
                    errs.append((k, "repeat", "name %r was reported present but adding it again succeeded" % o[1]))
            else:
                if A != B:
                    errs.append((k, "repeat", "add returned the repeated-name code but the observable state changed"))
                if B[ui][1] is None:
                    errs.append((k, "repeat", "add of %r returned the repeated-name code although the name could not be opened before" % o[1]))
        elif c == "F":
            if r not in (0, 2):
                errs.append((k, "ret", "mj_addFileVFS returned %s" % r))
            if r == 2 and A != B:
                errs.append((k, "repeat", "add returned the repeated-name code but the observable state changed"))
        elif c == "D":
            if r not in (0, -1):
                errs.append((k, "ret", "mj_deleteFileVFS returned %s" % r))
            if r == -1 and A != B:
                errs.append((k, "delete", "delete reported failure but the observable state changed"))
            if r == -1 and B[ui][0] == 1:
                errs.append((k, "delete", "delete of the present name %r reported failure" % o[1]))
            if r == 0 and B[ui][0] == 0 and B[ui][1] is None:
                errs.append((k, "delete", "delete of the absent name %r reported success" % o[1]))
            if r == 0 and A[ui][0] == 1:
                errs.append((k, "delete", "name %r still reported present after a successful delete" % o[1]))
            if r == 0 and A == B:
                errs.append((k, "delete", "delete reported success but nothing changed"))
        elif c in "CEO":
            if A != B:
                errs.append((k, "observer", "an observer changed the observable state"))
            if c == "C" and r != B[ui][0]:
                errs.append((k, "observer", "containsBuffer not repeatable"))
            if c == "O" and o[1] == "" and r[1] != B[U.index(o[2])][1]:
                errs.append((k, "observer", "open/read not repeatable"))
            if c == "O" and o[1]:
                # the same file spelled as (directory, file name): directory + [separator] + name
                whole = o[1] + o[2] if o[1][-1] in "/\\" else o[1] + "/" + o[2]
                if whole in U and B[U.index(whole)][0] == 1 and r[1] != B[U.index(whole)][1]:
                    errs.append((k, "read_split", "present file %r read as (dir=%r, name=%r) gives %r but read under its whole name gives %r"
                                 % (whole, o[1], o[2], r[1], B[U.index(whole)][1])))
        elif c == "Z":
            if A != disk_probe:
                errs.append((k, "reinit", "a fresh VFS is not empty"))
        B = A
    return errs


def coq_case(ops, outs):
    es = []
    for o, (r, pr) in zip(ops, outs):
        ob = lambda b: "None" if b is None else "(Some %s)" % cbytes(b)
        ir = "IOpen %s" % ob(r[1]) if o[0] == "O" else "ICode (%d)" % r
        es.append("(%s, [%s])" % (ir, "; ".join("(%s, %s)" % ("true" if c else "false", ob(b)) for c, b in pr)))
    return "([%s], [%s])" % ("; ".join(op_coq(o) for o in ops), "; ".join(es))


def pre_text():
    dk = "; ".join("(%s, %s)" % (cstr(k), cbytes(v)) for k, v in DISK.items())
    return ("Definition the_disk := disk_of [%s].\nDefinition the_uni := [%s].\n" % (dk, "; ".join(cstr(u) for u in U)))


CHECKER = "fun c => match c with (h, e) => check_trace the_disk the_uni h e [] end"
IMPORTS = "From Coq Require Import ZArith String.\nFrom MJV Require Import Lib.Eqb Model.VFS.\nOpen Scope Z_scope. Open Scope string_scope."


def make_disk(ctx):
    d = os.path.join(ctx.scratch, "disk")
    for k, v in DISK.items():
        os.makedirs(os.path.dirname(os.path.join(d, k)), exist_ok=True)
        with open(os.path.join(d, k), "wb") as f:
            f.write(v)
    return d


def run_cases(ctx, exe, disk, cases):
    inp = "U %d %s\n" % (len(U), " ".join(hx(u) for u in U))
    inp += "".join("%d %s\n" % (len(ops), " ".join(op_txt(o) for o in ops)) for ops in cases)
    rc, out, err = ctx.run(exe, inp, args=[disk], timeout=300)
    lines = out.split("\n")
    res = []
    for k, ops in enumerate(cases):
        try:
            res.append(parse_line(lines[k], ops))
        except (AssertionError, IndexError, ValueError):
            res.append(None)
    return rc, res, err


def shrink(ctx, exe, disk, ops, fails):
    cur = list(ops)
    for _ in range(12):
        cands = [cur[:k] for k in range(1, len(cur))] + [cur[:k] + cur[k + 1:] for k in range(len(cur))]
        cands = [c for c in cands if c]
        if not cands:
            break
        _, res, _ = run_cases(ctx, exe, disk, cands)
        bad = fails(cands, res)
        if bad is None:
            break
        cur = cands[bad]
    return cur


# the sequence on which the original tree violated C39_contains_after_add (fixed in /repo e198e4b1a)
REFUTED_WITNESS = [("B", "a\\b.txt", b"hi"), ("C", "a\\b.txt"), ("C", "a/b.txt"), ("B", "a\\b.txt", b"zz"), ("O", "", "a\\b.txt")]


def run(ctx):
    rng = ctx.rng
    ctx.coq_props(allowed_axioms=(), extra_targets=["Lib/Eqb.vo", "Model/VFS.vo"])
    exe = ctx.driver("c39_vfs", ["c39_vfs.c"])
    if exe is None:
        return
    disk = make_disk(ctx)
    thorough = ctx.tier == "thorough"
    cases = []
    if getattr(ctx, "replay", None) and ctx.replay.get("case") and "ops" in ctx.replay["case"]:
        cases.append([tuple(bytes.fromhex(x[4:]) if isinstance(x, str) and x.startswith("hex:") else x for x in o) for o in ctx.replay["case"]["ops"]])
    else:
        cases.append(REFUTED_WITNESS)
        cases.append([("F", "d1", "F.bin"), ("F", "d1", "f.bin"), ("E", "d1", "F.BIN"), ("O", "zz", "F.BIN"), ("D", "d1/F.bin"), ("O", "d1", "F.bin"), ("D", "F.bin")])
        cases.append([("B", "x/A", b"1"), ("O", "zz", "a"), ("B", "a", b"2"), ("O", "", "a/b.txt"), ("D", "A"), ("D", "a")])
        for first, second in ((("B", "a/b.txt", b"hi"), ("B", "A/b.txt", b"zz")), (("B", "A/b.txt", b"zz"), ("B", "a/b.txt", b"hi"))):
            cases.append([first, second, ("O", "a/", "b.txt"), ("O", "a\\", "b.txt"), ("O", "A/", "b.txt"), ("O", "a", "b.txt"),
                          ("E", "a/", "b.txt"), ("O", "zz/", "b.txt")])
        cases.append([("F", "d1/", "F.bin"), ("B", "d1/f.bin", b"q"), ("O", "d1/", "f.bin"), ("O", "d1\\", "f.bin"), ("O", "d1/", "F.bin")])
        for n in range(1, 4):
            for _ in range(30 if not thorough else 150):
                cases.append([gen_op(rng) for _ in range(n)])
        for _ in range(260 if not thorough else 1000):
            cases.append([gen_op(rng) for _ in range(rng.randrange(4, 30))])
    rc, res, err = run_cases(ctx, exe, disk, cases)
    _, dres, _ = run_cases(ctx, exe, disk, [[("C", "a")]])
    if dres[0] is None:
        ctx.broken.append(("correspondence", "driver c39_vfs failed", "rc=%s %s" % (rc, err[-300:])))
        return
    disk_probe = dres[0][0][1]
    bad = [k for k, r in enumerate(res) if r is None]
    if bad:
        k = bad[0]
        small = shrink(ctx, exe, disk, cases[k], lambda cands, rs: next((j for j, r in enumerate(rs) if r is None), None))
        ctx.violation("impl_violation", {"ops": jsonable(small)}, expected="every sequence runs to completion",
                      observed="driver crashed / no output (rc=%s %s)" % (rc, err[-300:]), theorem="C39_run_total",
                      signature={"site": "VFS", "kind": "crash"})
        cases = [c for k2, c in enumerate(cases) if res[k2] is not None]
        res = [r for r in res if r is not None]
    # oracle on implementation output, smallest cases first, one report per kind
    reported = set()
    for k in sorted(range(len(cases)), key=lambda k: len(cases[k])):
        for (i, kind, msg) in oracle(cases[k], res[k], disk_probe):
            if kind in reported:
                continue
            reported.add(kind)

            def f_or(cands, rs, kind=kind):
                for j, r in enumerate(rs):
                    if r is not None and any(e[1] == kind for e in oracle(cands[j], r, disk_probe)):
                        return j
                return None
            small = shrink(ctx, exe, disk, cases[k], f_or)
            _, rs, _ = run_cases(ctx, exe, disk, [small])
            e2 = [e for e in oracle(small, rs[0], disk_probe) if e[1] == kind] if rs[0] else [(i, kind, msg)]
            site = "mj_containsBufferVFS" if kind == "contains" else "VFS"
            ctx.violation("impl_violation", {"ops": jsonable(small)}, expected="property C39 on the implementation's own output",
                          observed="; ".join("op %d: %s" % (e[0], e[2]) for e in e2[:3]),
                          theorem="C39_contains_after_add" if kind == "contains" else "C39_read_present" if kind in ("read", "read_split") else "C39_present_iff / C39_repeated_add / C39_delete_absent / C39_read_present",
                          signature={"site": site, "kind": "raw name lookup" if kind == "contains" else kind})
    # correspondence inside Coq
    coq_cases = [coq_case(ops, res[k]) for k, ops in enumerate(cases)]
    fails = ctx.coq_eval("c39", IMPORTS, coq_cases, CHECKER, shard=40, pre=pre_text())
    if fails:
        k = min(fails, key=lambda k: len(cases[k]))

        def f_corr(cands, rs):
            cc = [coq_case(c, rs[j]) if rs[j] is not None else "([OReinit], [])" for j, c in enumerate(cands)]
            fl = ctx.coq_eval("c39_shrink", IMPORTS, cc, CHECKER, shard=40, pre=pre_text())
            return min(fl) if fl else None
        small = shrink(ctx, exe, disk, cases[k], f_corr)
        _, rs, _ = run_cases(ctx, exe, disk, [small])
        ctx.violation("correspondence", {"ops": jsonable(small)}, expected="trace of Model/VFS.v (check_trace)",
                      observed=str([r for (r, _) in (rs[0] or [])])[:600], found_input=False, theorem="correspondence c39_vfs",
                      signature={"site": "VFS"},
                      note="implementation and Coq model disagree on this sequence (%d of %d sequences disagree)" % (len(fails), len(cases)))
    # legacy lookup ambiguity (DESIGN section 7 item 6): recorded, not alarmed (the opened name was never added)
    amb = [[("B", "x/A", b"1"), ("B", "y/a", b"2"), ("O", "zz", "a")], [("B", "y/a", b"2"), ("B", "x/A", b"1"), ("O", "zz", "a")]]
    _, ra, _ = run_cases(ctx, exe, disk, amb)
    if ra[0] and ra[1]:
        ctx.cov["support"]["legacy_lookup_depends_on_hash_order"] = (
            "open('zz','a') with mounts x/A=b'1', y/a=b'2' reads %r when x/A is added first and %r when it is added second"
            % (ra[0][2][0][1], ra[1][2][0][1]))
    _, rm, _ = run_cases(ctx, exe, disk, [[("F", "d1", "missing.bin"), ("O", None, "d1/missing.bin")]])
    if rm[0]:
        ctx.cov["support"]["addFileVFS_missing_file"] = "mj_addFileVFS('d1','missing.bin') (no such file) returned %s; header documents -1: failed to load" % rm[0][0][0]
    nontriv = set()
    nops = 0
    for k, ops in enumerate(cases):
        nops += len(ops)
        rs = [r for (r, _) in res[k]]
        if 2 in [r for o, r in zip(ops, rs) if o[0] in "BF"] and 0 in [r for o, r in zip(ops, rs) if o[0] == "D"] and \
           any(o[0] == "O" and r[1] is not None for o, r in zip(ops, rs)):
            nontriv.add(tuple(ops))
    ctx.cov["evaluations"] = len(cases)
    ctx.cov["operations_compared"] = nops
    ctx.cov["probes_compared"] = nops * len(U)
    ctx.cov["distinct_nontrivial"] = len(nontriv)
    ctx.cov["rule"] = ("random sequences of 1..29 public-API calls over %d names (case variants, / and \\ separators, ., .., //, "
                       "nested and on-disk names), %d (directory, file) pairs for addFile and (directory, name) splits "
                       "for open/containsFile (trailing separators of both kinds, colliding lower-cased base names); after EVERY call the return value and a probe of every "
                       "name (containsBuffer + open/read) are compared with the Coq model inside Coq; non-trivial = distinct sequence with a "
                       "repeated-name add, a successful delete and a successful read" % (len(U), len(FILES)))
    ctx.cov["samples"] = [{"ops": jsonable(c)} for c in (cases[0], cases[min(len(cases) - 1, 100)], cases[-1])]
    ctx.cov["correspondence_disagreements"] = len(fails)
    ctx.cov["explanation"] = ("set-semantics theorems proved for all sequences on normalised keys; model tied to user_vfs.cc/user_util.cc by "
                              "exact comparison of %d calls and %d probes in %d sequences" % (nops, nops * len(U), len(cases)))


def jsonable(ops):
    return [[("hex:" + x.hex()) if isinstance(x, bytes) else x for x in o] for o in ops]
