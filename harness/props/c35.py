"""C35 — compiled mass properties match the geometry."""
import json, math, os
import framework as F

META = {
    "id": "C35", "category": "proof", "design_ref": "DESIGN.md section 4, C35",
    "technique": "Coq proofs over R (Coquelicot integrals, nra/nsatz) of a Gallina model of the compiler's mass-property code (Model/Inertia.v, generic over Lib/Num) + float correspondence of the same model with mj_compile through the mjSpec C API (per-geom mass_/inertia, body mass/ipos, the tensor handed to mjuu_fullInertia) and with mjuu_globalinertia/mjuu_offcenter + independent quadrature / polyhedron oracles on the compiled output",
    "text": "filled in below",
    "note": "filled in below",
    "assumptions": [
        "theorems are about exact real arithmetic; IEEE rounding is outside every theorem (the model is run at binary64 only for the tie)",
        "hand-written model Model/Inertia.v; the tie is differential testing on the cases of this run",
        "mjuu_eig3 (Jacobi iteration) is not modelled: its contract (unit quaternion Q, Q diag(L) Q^T = input) is a hypothesis of the theorems that mention the stored principal axes, and is observed on the implementation by the reconstruction oracle",
        "exp/log/pi of the float runs come from the unverified Lib/FloatFn.v (executable side only)",
    ],
}
META["text"] = (
    "Proved in Coq over the reals about the model Model/Inertia.v of the compiler's mass-property code (mjCGeom::GetVolume/SetInertia, the mass arm of mjCGeom::Compile, "
    "mjCBody::InertiaFromGeom, mjuu_globalinertia, mjuu_offcenter), for all inputs: (FULL) the solid-box volume and moments are the triple integrals of 1, y^2+z^2, x^2+z^2, x^2+y^2 "
    "over the box and the box-shell area and moments are the double integrals over the six faces (Coquelicot RInt; C35_box_integral, C35_box_shell_integral); every primitive formula "
    "(sphere, capsule, cylinder, ellipsoid, box; solid and shell, the ellipsoid shell included) gives non-negative principal moments satisfying A+B>=C for every mass >= 0 and valid size "
    "(C35_triangle); mjuu_globalinertia is R diag R^T and mjuu_offcenter is m(|d|^2 I - d d^T) (C35_globalinertia_matrix, C35_offcenter); for every list of compiled geoms with non-zero "
    "total mass the accumulation loops compute sum m, sum m p and, about c = sum m p / M, the sum of the rotated geom tensors plus point-mass terms, the first moment about c vanishes and the "
    "result equals the tensor about the body origin minus M(|c|^2 I - c c^T) (Steiner; C35_parallel_axis), and the formula applied to one geom returns that geom (C35_single_consistent); "
    "the inferred mass properties of a body are independent of the order of its geoms (C35_order, any permutation); under the contract of the eigen-decomposition (unit quaternion q and "
    "diagonal L with R(q) diag(L) R(q)^T = J exactly, a premise: mjuu_eig3's Jacobi iteration is NOT modelled) the stored (iquat, inertia) reconstruct the full tensor (C35_reconstruct) and, "
    "for every body whose geoms have valid sizes, the stored diagonal inertia is non-negative with A+B>=C (C35_triangle_body; pointwise form without a global eig3 function: "
    "C35_triangle_body_pointwise, proved through positive semi-definiteness of the tensor and of its second-moment form). PARTIAL: for sphere, cylinder, ellipsoid, capsule (solid) and "
    "sphere, cylinder, capsule (shell) the volume/area and moments are proved equal to ONE-dimensional integrals along the axis of slices / bands "
    "(C35_solid_slices_partial, C35_shell_bands_partial); the planar closed forms of a disk, an ellipse and a band (area, second moments) are definitions, not derived from double integrals. "
    "NOT an analytic value in the code: the ellipsoid shell (Thomsen area approximation, layer between the ellipsoid and the one with semi-axes + 1e-6): modelled and tied as written, "
    "triangle inequality proved, no integral theorem; the oracle checks the area against the surface integral to 1.2% and the moments against the thickness-weighted limit layer. "
    "The real mjuu_eig3 meets its contract only approximately: it stops when the Jacobi angle is below ~1.4e-6 rad (designed accuracy), so the reconstruction oracle on body_iquat/body_inertia "
    "uses 5e-6 * trace for bodies with trace >= 1e-6 (measured worst ~4e-7); its second stopping rule (|off-diagonal| < 1e-12, absolute) leaves the axes of small bodies uncomputed "
    "(recorded finding absolute-threshold-small-bodies, reproduced on two fixed mm-sized bodies on every run). "
    "FUSING (round 3): mjCBody::AccumulateInertia is modelled (accumulateInertia) and C35_fuse proves that for unit quaternions it is the two-entry parallel-axis accumulation of the parent's inertial "
    "and of the child's inertial transported into the parent frame (position pos + R(quat) ipos, orientation quat*iquat), and that the composed orientation rotates the child's tensor by the child's body rotation "
    "(R(quat*iquat) D R(quat*iquat)^T = R(quat) (R(iquat) D R(iquat)^T) R(quat)^T); on every run chains of a hinged body with 1-2 jointless rotated children carrying elongated geoms are compiled separately, with "
    "fusestatic and through mjs_bodyToFrame: the receiving body's mass, centre of mass, reconstructed tensor (5e-6*trace) and, where no eig3 result entered the accumulation, the tensor handed to mjuu_fullInertia "
    "(1e-9*trace) must be those of the union of all geoms (quadrature in the parent frame, poses composed in python); the model is run at binary64 on the separately compiled parent/child and compared with the fused output. "
    "TIE (every run, through the mjSpec C API and mj_compile of the tree under test): per-geom mass_ and inertia, body mass, ipos, single-geom iquat/inertia and the private tensor handed to "
    "mjuu_fullInertia are compared in Coq with the model evaluated at binary64 (relative 2^-30), mjuu_globalinertia / mjuu_offcenter are compared directly; independent numpy oracle on the "
    "compiled output: mass, centre of mass and tensor obtained by Gauss quadrature over the geoms (no closed forms, no parallel-axis theorem), reconstruction, triangle inequalities, "
    "order independence is covered by permuted copies. MESHES (oracle only, no model): meshes that tessellate box/sphere/ellipsoid/cylinder/capsule compile with inertia modes exact, legacy "
    "and shell without the convex hull; their mass properties match the polyhedron integrals to 5e-6 and converge to the primitive's values as 1/n^2 (error must at least halve when n doubles); "
    "builtin sphere meshes (mjs_makeMesh) likewise. The default mesh inertia mode CONVEX needs qhull, which is stubbed out in this build (compile error 'qhull error'): not covered. "
    "Not covered: hfield geoms, fromto, boundmass/boundinertia/balanceinertia/settotalmass, explicit inertial elements.")
META["note"] = ("Trusted: Coq kernel + the standard-library real-number axioms listed in trusted_base; Coquelicot; hand-written model Model/Inertia.v "
                "(reuses Spatial.quat2Mat for mjuu_quat2mat); Lib/FloatFn.v (executable side); correspondence harness (g++ -fno-access-control to read the private "
                "mjCBody::fullinertia / mjCGeom::mass_, inertia; driver c35_mass.cc; numpy quadrature oracle).")

TOL = "0x1p-30"
# Reconstruction tolerance (coordinator decision, round 1): mjuu_eig3 stops its Jacobi iteration when the cosine of the
# rotation is within 1e-12 of 1, i.e. when the angle is below ~1.4e-6 rad; that is the routine's designed accuracy, so
# Q diag(L) Q^T is required to match the tensor only to 5e-6 * trace (measured worst ~4e-7) for bodies whose trace is >= 1e-6.
# The second stopping rule (|off-diagonal| < 1e-12, ABSOLUTE) leaves the axes of small bodies uncomputed: recorded defect,
# signature {"site": "mjuu_eig3", "class": "absolute-threshold-small-bodies"} (KNOWN_FINDINGS.json).
RECON_TOL = 5e-6
RECON_MIN_TRACE = 1e-6
SIG_SMALL = {"site": "mjuu_eig3", "class": "absolute-threshold-small-bodies"}


def reconstruct_verdict(err, trace, single, extra=0.0):
    """(is a violation, signature).  single-geom bodies copy the geom frame: no eig3, tight tolerance.
    extra: additional relative tolerance of the reference (ellipsoid shells, see ell_tol)."""
    if single:
        return err > (1e-9 + extra) * trace, {"site": "mj_compile", "class": "mass-properties"}
    if err <= (RECON_TOL + extra) * trace:
        return False, None
    if trace < RECON_MIN_TRACE and err <= 2e-11:
        return True, SIG_SMALL
    return True, {"site": "mjuu_eig3", "class": "reconstruction"}


GT = {"sphere": 2, "capsule": 3, "ellipsoid": 4, "cylinder": 5, "box": 6}
GTN = {v: k for k, v in GT.items()}
EPS = 1e-14


# ------------------------------------------------------------------------------------- small helpers (pure python)
def hx(x):
    return float(x).hex()


def unhx(t):
    t = t.strip()
    if t in ("nan", "-nan", "+nan"):
        return math.nan
    if t in ("inf", "+inf"):
        return math.inf
    if t == "-inf":
        return -math.inf
    return float.fromhex(t)


def q2m(q):
    w, x, y, z = q
    return [[w * w + x * x - y * y - z * z, 2 * (x * y - w * z), 2 * (x * z + w * y)],
            [2 * (x * y + w * z), w * w - x * x + y * y - z * z, 2 * (y * z - w * x)],
            [2 * (x * z - w * y), 2 * (y * z + w * x), w * w - x * x - y * y + z * z]]


def mm(A, B):
    return [[sum(A[i][k] * B[k][j] for k in range(3)) for j in range(3)] for i in range(3)]


def mT(A):
    return [[A[j][i] for j in range(3)] for i in range(3)]


def mv(A, v):
    return [sum(A[i][k] * v[k] for k in range(3)) for i in range(3)]


def rdrt(R, d):
    """R diag(d) R^T"""
    return mm([[R[i][k] * d[k] for k in range(3)] for i in range(3)], mT(R))


def sym(f):
    return [[f[0], f[3], f[4]], [f[3], f[1], f[5]], [f[4], f[5], f[2]]]


def unsym(J):
    return [J[0][0], J[1][1], J[2][2], J[0][1], J[0][2], J[1][2]]


def maxdiff(A, B):
    return max(abs(A[i][j] - B[i][j]) for i in range(3) for j in range(3))


def trace(A):
    return A[0][0] + A[1][1] + A[2][2]


def unit(q):
    n = math.sqrt(sum(x * x for x in q))
    return [x / n for x in q]


def ell_tol(glo, ghi, geoms):
    """the compiler's ellipsoid shell is the layer between the ellipsoid and the one with semi-axes + 1e-6; the oracle integrates
    the limit layer (offset -> 0), which differs to first order in 1e-6 / semi-axis"""
    t = 0.0
    for g in geoms:
        if g["type"] == GT["ellipsoid"] and g["shell"] and glo <= g["group"] <= ghi:
            t = max(t, 4e-6 / min(g["size"]))
    return t


def ask_oracle(ctx, reqs):
    """run harness/drivers/c35_oracle.py (numpy, /venv/bin/python) on a list of requests"""
    if not reqs:
        return []
    py = os.path.join(F.VERIF, "harness", "drivers", "c35_oracle.py")
    rc, out, err = ctx.run("/venv/bin/python", json.dumps(reqs), args=[py])
    try:
        res = json.loads(out)
        assert len(res) == len(reqs)
        return res
    except Exception:
        ctx.broken.append(("harness", "oracle script c35_oracle.py failed", "rc=%s %s" % (rc, err[-800:])))
        return None


# ------------------------------------------------------------------------------------- case generation
def rand_quat(rng):
    r = rng.random()
    if r < 0.15:
        return [1.0, 0.0, 0.0, 0.0]
    if r < 0.3:
        return rng.choice([[0.0, 1.0, 0, 0], [math.sqrt(0.5), 0, math.sqrt(0.5), 0], [0.5, 0.5, 0.5, 0.5], [0.0, 0, 0, -1.0], [math.sqrt(0.5), 0, 0, -math.sqrt(0.5)]])
    q = [rng.gauss(0, 1) for _ in range(4)]
    n = math.sqrt(sum(x * x for x in q))
    s = rng.choice([1.0, 1.0, 2.0, 0.3, 1 + 1e-13, 1 + 1e-15])      # unnormalised and inside/outside the mjEPS window
    return [x / n * s for x in q]


def rand_geom(rng, ty=None, shell=None, plain=False):
    ty = ty if ty is not None else rng.choice(sorted(GT.values()))
    shell = shell if shell is not None else (rng.random() < 0.4)
    size = [10 ** rng.uniform(-1.3, 0.3) for _ in range(3)]
    if rng.random() < 0.15:
        size = [rng.choice([0.1, 0.25, 1.0])] * 3
    pos = [0.0, 0.0, 0.0] if rng.random() < 0.15 else [rng.gauss(0, 0.5) for _ in range(3)]
    g = {"type": ty, "shell": shell, "group": 0, "mass": None, "density": 1000.0, "size": size, "pos": pos, "quat": rand_quat(rng)}
    if not plain:
        r = rng.random()
        if r < 0.2:
            g["mass"] = rng.choice([0.0, rng.uniform(0.1, 5.0), rng.uniform(0.1, 5.0)])
        elif r < 0.5:
            g["density"] = rng.choice([0.0, rng.uniform(1.0, 5000.0), rng.uniform(1.0, 5000.0), 1e-13])
        g["group"] = rng.choice([0, 0, 0, 0, 1, 2, 3, 5])
    return g


def body_cases(ctx):
    rng = ctx.rng
    big = ctx.tier != "quick"
    cs = []
    # every type x solid/shell alone (single-geom arm) and in pairs with a box (multi-geom arm)
    for ty in sorted(GT.values()):
        for shell in (False, True):
            for rep in range(2 if not big else 10):
                cs.append((0, 0, 5, [rand_geom(rng, ty, shell, plain=True)]))
                cs.append((rng.randrange(2), 0, 5, [rand_geom(rng, ty, shell, plain=True), rand_geom(rng, GT["box"], False, plain=True)]))
    for rep in range(70 if not big else 1500):
        n = rng.choice([1, 2, 2, 3, 3, 4, 6])
        geoms = [rand_geom(rng) for _ in range(n)]
        glo, ghi = rng.choice([(0, 5), (0, 5), (0, 5), (0, 1), (1, 3), (2, 2)])
        cs.append((0, glo, ghi, geoms))
    # same geoms, permuted order (order independence on the implementation)
    for rep in range(12 if not big else 150):
        geoms = [rand_geom(rng, plain=True) for _ in range(rng.choice([2, 3, 4]))]
        cs.append((0, 0, 5, geoms))
        g2 = geoms[:]
        rng.shuffle(g2)
        cs.append((0, 0, 5, g2))
    # fixed corpus: small bodies (absolute 1e-12 off-diagonal threshold of mjuu_eig3; recorded finding)
    for sc in (0.01, 0.004):
        cs.append((0, 0, 5, [
            {"type": 6, "shell": False, "group": 0, "mass": None, "density": 1000.0, "size": [0.1 * sc, 0.2 * sc, 0.3 * sc], "pos": [0.0, 0.0, 0.0], "quat": [1.0, 0.0, 0.0, 0.0]},
            {"type": 6, "shell": False, "group": 0, "mass": None, "density": 1000.0, "size": [0.3 * sc, 0.1 * sc, 0.2 * sc], "pos": [0.2 * sc, 0.1 * sc, -0.1 * sc], "quat": [0.8, 0.2, 0.4, 0.4]}]))
    # rejected input: negative density
    g = rand_geom(rng, plain=True)
    g["density"] = -5.0
    cs.append((0, 0, 5, [g]))
    return cs


def body_line(c):
    hinge, glo, ghi, geoms = c
    parts = ["B %d %d %d %d" % (hinge, glo, ghi, len(geoms))]
    for g in geoms:
        parts.append("%d %d %d %d %s %s %s %s %s" % (g["type"], int(g["shell"]), g["group"], 0 if g["mass"] is None else 1,
                                                      hx(g["mass"] or 0.0), hx(g["density"]), " ".join(hx(x) for x in g["size"]),
                                                      " ".join(hx(x) for x in g["pos"]), " ".join(hx(x) for x in g["quat"])))
    return " ".join(parts)


def tup(xs):
    return "(" + ", ".join(F.fhex(x) for x in xs) + ")%float"


def geom_lit(g):
    return "(mkGeom (gtype_ofZ %d) %s %d%%Z %s %s %s %s %s)" % (
        g["type"], "true" if g["shell"] else "false", g["group"],
        "None" if g["mass"] is None else "(Some %s)" % F.fhex(g["mass"]), F.fhex(g["density"]), tup(g["size"]), tup(g["pos"]), tup(g["quat"]))


COQ_PRE = r"""
Definition fabs := PrimFloat.abs.
Definition isnan (x : float) : bool := negb (PrimFloat.eqb x x).
(* |a - b| <= tol * sc + floor *)
Definition rcl (tol sc floor a b : float) : bool :=
  PrimFloat.leb (fabs (PrimFloat.sub a b)) (PrimFloat.add (PrimFloat.mul tol sc) floor) || (isnan a && isnan b).
Fixpoint all2 (f : float -> float -> bool) (l1 l2 : list float) : bool :=
  match l1, l2 with nil, nil => true | a :: r1, b :: r2 => f a b && all2 f r1 r2 | _, _ => false end.
Definition tol : float := 0x1p-30.
Definition trace6 (l : list float) : float := match l with a :: b :: c :: _ => PrimFloat.add (fabs a) (PrimFloat.add (fabs b) (fabs c)) | _ => 0 end.
(* per-geom (mass_, inertia) of the geoms inside the group range *)
Fixpoint geomsOK (cs : list (cgeom float)) (out : list float) : bool :=
  match cs, out with
  | nil, nil => true
  | (m, _, _, (i0, i1, i2)) :: r, m' :: a :: b :: c :: out' =>
      rcl tol (fabs m) 0 m m' && all2 (rcl tol (PrimFloat.add (fabs i0) (PrimFloat.add (fabs i1) (fabs i2))) 0) [i0; i1; i2] [a; b; c] && geomsOK r out'
  | _, _ => false
  end.
(* case: (glo, ghi, geoms, body output [mass; ipos3; iquat4; inertia3; full6] or [], per-geom output of the in-range geoms) *)
Definition chkB (c : Z * Z * list (geom float) * list float * list float) : bool :=
  let '(glo, ghi, gs, out, gout) := c in
  match bodyInertial glo ghi gs, out with
  | None, nil => true
  (* mjuu_fullInertia rejects a tensor whose smallest eigenvalue is below mjEPS = 1e-14 (not modelled: eig3 is abstract); such a
     rejection is accepted only for tensors of trace below 1e-12 *)
  | Some (Some (IFull _ _ f)), nil => PrimFloat.ltb (trace6 (s2l f)) 0x1.19799812dea11p-40
  | Some None, m :: _ => PrimFloat.eqb m 0
  | Some (Some i), [m; p0; p1; p2; q0; q1; q2; q3; d0; d1; d2; f0; f1; f2; f3; f4; f5] =>
      let J := s2l (inertialFull i) in
      rcl tol (fabs m) 0 (inertialMass i) m && fclose_list tol (v2l (inertialPos i)) [p0; p1; p2] &&
      match i with
      | IDiag _ _ q (i0, i1, i2) =>
          fclose_list tol (q2l q) [q0; q1; q2; q3] && all2 (rcl tol (trace6 [i0; i1; i2]) 0) [i0; i1; i2] [d0; d1; d2] && isnan f0
      | IFull _ _ _ => all2 (rcl tol (trace6 J) 0) J [f0; f1; f2; f3; f4; f5]
      end &&
      match compileGeoms (filter (inGroup glo ghi) gs) with Some cs => geomsOK cs gout | None => false end
  | _, _ => false
  end.
(* fusing: (parent [mass; ipos3; iquat4; inertia3], child [mass; ipos3; iquat4; inertia3; body_pos3; body_quat4], fused [mass; ipos3; full6]) *)
Definition chkS (c : list float * list float * list float) : bool :=
  let '(p, ch, out) := c in
  let gg := fun (l : list float) (i : nat) => nth i l 0%float in
  let res : cgeom float := (gg p 0, (gg p 1, gg p 2, gg p 3), (gg p 4, gg p 5, gg p 6, gg p 7), (gg p 8, gg p 9, gg p 10))%nat in
  let oth : cgeom float := (gg ch 0, (gg ch 1, gg ch 2, gg ch 3), (gg ch 4, gg ch 5, gg ch 6, gg ch 7), (gg ch 8, gg ch 9, gg ch 10))%nat in
  let opose : pose float := ((gg ch 11, gg ch 12, gg ch 13), (gg ch 14, gg ch 15, gg ch 16, gg ch 17))%nat in
  match accumulateInertia res opose oth, out with
  | IFull m ip f, [m'; p0; p1; p2; f0; f1; f2; f3; f4; f5] =>
      rcl tol (fabs m) 0 m m' && fclose_list tol (v2l ip) [p0; p1; p2] && all2 (rcl tol (trace6 (s2l f)) 0) (s2l f) [f0; f1; f2; f3; f4; f5]
  | _, _ => false
  end.
Definition bcase : Type := (Z * Z * list (geom float) * list float * list float)%type.
Definition dcase : Type := (list float * list float)%type.
Definition scase : Type := (list float * list float * list float)%type.
Definition IB (x : bcase) : bcase + (dcase + scase) := inl x.
Definition ID (x : dcase) : bcase + (dcase + scase) := inr (inl x).
Definition IS (x : scase) : bcase + (dcase + scase) := inr (inr x).
Definition chkG (c : list float * list float) : bool :=
  let '(a, out) := c in
  match a with
  | [l0; l1; l2; q0; q1; q2; q3] =>
      all2 (rcl tol (PrimFloat.mul (trace6 [l0; l1; l2]) (PrimFloat.add 1 (PrimFloat.mul (PrimFloat.add (PrimFloat.mul q0 q0) (PrimFloat.add (PrimFloat.mul q1 q1) (PrimFloat.add (PrimFloat.mul q2 q2) (PrimFloat.mul q3 q3)))) (PrimFloat.add (PrimFloat.mul q0 q0) (PrimFloat.add (PrimFloat.mul q1 q1) (PrimFloat.add (PrimFloat.mul q2 q2) (PrimFloat.mul q3 q3))))))) 0)
           (s2l (globalinertia (l0, l1, l2) (q0, q1, q2, q3))) out
  | [m; v0; v1; v2] =>
      all2 (rcl tol (PrimFloat.mul (fabs m) (PrimFloat.add (PrimFloat.mul v0 v0) (PrimFloat.add (PrimFloat.mul v1 v1) (PrimFloat.mul v2 v2)))) 0) (s2l (offcenter m (v0, v1, v2))) out
  | _ => false
  end.
"""


# ------------------------------------------------------------------------------------- run
def parse_ok(line):
    t = line.split()
    if not t or t[0] != "ok":
        return None
    return [unhx(x) for x in t[1:]]


def run(ctx):
    rng = ctx.rng
    big = ctx.tier != "quick"
    ctx.coq_props(allowed_axioms=F.STD_AXIOMS,
                  extra_targets=["Lib/Num.vo", "Lib/NumF.vo", "Lib/FloatFn.vo", "Model/Spatial.vo", "Model/Inertia.vo"])
    exe = ctx.driver("c35_mass", ["c35_mass.cc"], extra=("-fno-access-control",))
    if exe is None:
        return
    sup = ctx.cov["support"]
    imports = "From Coq Require Import ZArith PrimFloat Bool.\nFrom MJV Require Import Lib.Num Lib.NumF Lib.FloatFn Model.Spatial Model.Inertia.\n"

    # ------------------------------------------------------------ bodies of primitive geoms
    cases = body_cases(ctx)
    if getattr(ctx, "replay", None) and (ctx.replay.get("case") or {}).get("geoms"):
        rc = ctx.replay["case"]
        cases = [(rc.get("hinge", 0), rc.get("glo", 0), rc.get("ghi", 5), rc["geoms"])] + cases[:20]
    rcode, out, err = ctx.run(exe, "".join(body_line(c) + "\n" for c in cases))
    lines = out.strip("\n").split("\n")
    if rcode != 0 or len(lines) != len(cases):
        ctx.broken.append(("correspondence", "driver c35_mass failed", "rc=%s lines=%d/%d %s" % (rcode, len(lines), len(cases), err[-500:])))
        return
    oreqs = [{"op": "body", "glo": c[1], "ghi": c[2], "geoms": c[3]} for c in cases]
    thom = []
    for c in cases:
        for g in c[3]:
            if g["type"] == GT["ellipsoid"] and g["shell"] and len(thom) < (20 if not big else 60):
                thom.append(g["size"])
    ores = ask_oracle(ctx, oreqs + [{"op": "thomsen", "size": sz} for sz in thom])
    if ores is None:
        return
    lits, kinds = [], []
    nontriv = set()
    worst = {"mass": 0.0, "com": 0.0, "full_vs_quadrature": 0.0, "reconstruct_trace_ge_1e-6": 0.0, "thomsen_area_vs_surface_integral": 0.0}
    for sz, r in zip(thom, ores[len(cases):]):
        worst["thomsen_area_vs_surface_integral"] = max(worst["thomsen_area_vs_surface_integral"], abs(r - 1))
        if abs(r - 1) > 0.012:
            ctx.violation("impl_violation", {"ellipsoid": sz}, expected="Thomsen area within 1.2% of the surface integral", observed=r, theorem="C35 oracle (ellipsoid shell area)",
                          signature={"site": "mjCGeom::GetVolume", "class": "ellipsoid-shell-area"})
    percls = {}
    ntri = 0
    nsmall = 0
    perm_prev = None
    for ci, (c, line, exp) in enumerate(zip(cases, lines, ores)):
        hinge, glo, ghi, geoms = c
        o = parse_ok(line)
        case_js = {"hinge": hinge, "glo": glo, "ghi": ghi, "geoms": geoms}
        for g in geoms:
            if glo <= g["group"] <= ghi:
                k = "%s/%s" % (GTN[g["type"]], "shell" if g["shell"] else "solid")
                percls[k] = percls.get(k, 0) + 1
        body_out, gout = [], []
        if o is not None:
            body_out = o[:17]
            ng = int(o[17])
            allg = o[18:18 + 4 * ng]
            for k, g in enumerate(geoms):
                if glo <= g["group"] <= ghi:
                    gout += allg[4 * k:4 * k + 4]
        lits.append("(%d%%Z, %d%%Z, [%s], %s, %s)" % (glo, ghi, "; ".join(geom_lit(g) for g in geoms),
                                                      F.flist(body_out) if body_out else "[]%float", F.flist(gout) if gout else "[]%float"))
        kinds.append(case_js)
        # ---- independent oracle on the implementation output
        sig = {"site": "mj_compile", "class": "mass-properties"}
        if exp == "err":
            if o is not None:
                ctx.violation("impl_violation", case_js, expected="compile error (negative mass/density)", observed=line[:200], theorem="C35 oracle", signature=sig)
            continue
        if o is None:
            tiny = isinstance(exp, dict) and trace(exp["J"]) < 1e-12 and "positive eigenvalues" in line
            if not tiny:        # mjuu_fullInertia documents the rejection of inertias with an eigenvalue below 1e-14
                ctx.violation("impl_violation", case_js, expected="compiles", observed=line[:300], theorem="C35 oracle", signature=sig)
            continue
        if exp is None:
            if o[0] != 0.0:
                ctx.violation("impl_violation", case_js, expected="mass 0 (no geom selected)", observed=o[0], theorem="C35 oracle", signature=sig)
            continue
        M, com, J = exp["M"], exp["com"], exp["J"]
        mass, ipos, iquat, inertia, full = o[0], o[1:4], o[4:8], o[8:11], o[11:17]
        tr = trace(J)
        et = ell_tol(glo, ghi, geoms)
        Jrec = rdrt(q2m(iquat), inertia)
        e_m = abs(mass - M) / M
        e_c = max(abs(x - y) for x, y in zip(ipos, com)) / (1 + max(abs(x) for x in com))
        worst["mass"], worst["com"] = max(worst["mass"], e_m), max(worst["com"], e_c)
        if e_m > 1e-9 or e_c > 1e-9:
            ctx.violation("impl_violation", case_js, expected={"mass": M, "com": com}, observed={"mass": mass, "ipos": ipos},
                          theorem="C35_parallel_axis (quadrature oracle: mass / centre of mass)", signature=sig)
        single = math.isnan(full[0])
        if not single:
            e_f = maxdiff(sym(full), J) / tr
            if et == 0.0:
                worst["full_vs_quadrature"] = max(worst["full_vs_quadrature"], e_f)
            if e_f > 1e-9 + et:
                ctx.violation("impl_violation", case_js, expected={"full": unsym(J)}, observed={"full": full},
                              theorem="C35_parallel_axis (quadrature oracle: tensor about the centre of mass)", signature=sig)
        e_r = maxdiff(Jrec, J)
        if tr >= RECON_MIN_TRACE and et == 0.0:
            worst["reconstruct_trace_ge_1e-6"] = max(worst["reconstruct_trace_ge_1e-6"], e_r / tr)
        bad, sg = reconstruct_verdict(e_r, tr, single, et)
        if bad:
            nsmall += sg == SIG_SMALL
            ctx.violation("impl_violation", case_js, expected={"full tensor about com (quadrature)": unsym(J), "tolerance": "%g * trace" % (1e-9 if single else RECON_TOL)},
                          observed={"Q diag(body_inertia) Q^T": unsym(Jrec), "body_iquat": iquat, "body_inertia": inertia, "relative error": e_r / tr},
                          theorem="C35_reconstruct (stored principal axes and diagonal inertia reconstruct the tensor)", signature=sg)
        # triangle inequalities of the compiled inertia
        a, b, cc = inertia
        ntri += 1
        if min(a + b - cc, a + cc - b, b + cc - a) < -1e-12 * (a + b + cc) or min(a, b, cc) < 0:
            ctx.violation("impl_violation", case_js, expected="A + B >= C", observed=inertia, theorem="C35_triangle_body", signature=sig)
        nontriv.add(line)
    # ---- direct ties: mjuu_globalinertia, mjuu_offcenter (evaluated in the same Coq run)
    dcases = []
    for rep in range(40 if not big else 600):
        l = [10 ** rng.uniform(-3, 2) for _ in range(3)]
        dcases.append(("G", l + rand_quat(rng)))
        dcases.append(("O", [10 ** rng.uniform(-3, 3)] + [rng.gauss(0, 1) for _ in range(3)]))
    dcases.append(("G", [1.0, 2.0, 3.0, 1.0, 0.0, 0.0, 0.0]))
    dcases.append(("O", [2.0, 0.0, 0.0, 0.0]))
    rcode, out, err = ctx.run(exe, "".join("%s %s\n" % (op, " ".join(hx(x) for x in a)) for op, a in dcases))
    dl = out.strip("\n").split("\n")
    dlits = []
    if rcode != 0 or len(dl) != len(dcases):
        ctx.broken.append(("correspondence", "driver c35_mass failed (G/O)", err[-500:]))
    else:
        dlits = ["(%s, %s)" % (F.flist(a), F.flist([unhx(t) for t in l.split()])) for (op, a), l in zip(dcases, dl)]
    slits, skinds, fuse_stat = run_fuse(ctx, exe)
    allfails = ctx.coq_eval("c35", imports, ["(IB %s)" % x for x in lits] + ["(ID %s)" % x for x in dlits] + ["(IS %s)" % x for x in slits],
                            "(fun c => match c with inl b => chkB b | inr (inl d) => chkG d | inr (inr f) => chkS f end)", pre=COQ_PRE, shard=60)
    fails = [i for i in allfails if i < len(lits)]
    dfails = [i - len(lits) for i in allfails if len(lits) <= i < len(lits) + len(dlits)]
    for i in [i - len(lits) - len(dlits) for i in allfails if i >= len(lits) + len(dlits)][:2]:
        ctx.violation("correspondence", skinds[i], expected="accumulateInertia (Model/Inertia.v at binary64) on the separately compiled parent and child", observed="fused mass / ipos / full tensor, see case",
                      found_input=False, theorem="correspondence c35 AccumulateInertia", signature={"site": "mjCBody::AccumulateInertia", "class": "model"})
    sup["fuse"] = fuse_stat
    for i in fails[:3]:
        ctx.violation("correspondence", kinds[i], expected="model output (Model/Inertia.v at binary64, relative tolerance 2^-30)", observed=lines[i][:600], found_input=False,
                      theorem="correspondence c35 bodyInertial", signature={"site": "mj_compile", "class": "model"},
                      note="implementation and Coq model disagree on this body; the quadrature oracle did not flag it")

    if dlits:
        for i in dfails[:2]:
            ctx.violation("correspondence", {"op": dcases[i][0], "args": dcases[i][1]}, expected="model output", observed=dl[i], found_input=False,
                          theorem="correspondence c35 %s" % ("globalinertia" if dcases[i][0] == "G" else "offcenter"), signature={"site": "mjuu_" + dcases[i][0]})
        # oracle: the 6-vector is R diag R^T / m(|v|^2 I - v v^T)
        for (op, a), l in zip(dcases, dl):
            v = [unhx(t) for t in l.split()]
            if op == "G":
                E = rdrt(q2m(a[3:7]), a[:3])
            else:
                vv = a[1:4]
                n2 = sum(x * x for x in vv)
                E = [[a[0] * ((n2 if i == j else 0.0) - vv[i] * vv[j]) for j in range(3)] for i in range(3)]
            if len(v) != 6 or maxdiff(sym(v), E) > 1e-12 * (1 + max(abs(x) for r in E for x in r)):
                ctx.violation("impl_violation", {"op": op, "args": a}, expected=unsym(E), observed=v, theorem="C35_globalinertia_matrix" if op == "G" else "C35_offcenter",
                              signature={"site": "mjuu_" + op})

    # ------------------------------------------------------------ eig3 contract observed on mjuu_fullInertia
    fcases = []
    for rep in range(50 if not big else 800):
        lam = sorted([10 ** rng.uniform(-2, 2) for _ in range(3)], reverse=True)
        lam[2] = max(lam[2], (lam[0] - lam[1]) * 1.01)
        r = rng.random()
        if r < 0.15:
            lam[1] = lam[0]
        elif r < 0.25:
            lam = [lam[0]] * 3
        fcases.append(unsym(rdrt(q2m(unit(rand_quat(rng))), lam)))
    fcases.append([1.0, 2.0, 2.5, 0.0, 0.0, 0.0])
    fcases.append([1.0, 1.0, -0.5, 0.0, 0.0, 0.0])       # not positive: error expected
    rcode, out, err = ctx.run(exe, "".join("F %s\n" % " ".join(hx(x) for x in a) for a in fcases))
    fl = out.strip("\n").split("\n")
    evs = ask_oracle(ctx, [{"op": "eigmin", "full": a} for a in fcases])
    worst_f = 0.0
    if rcode != 0 or len(fl) != len(fcases) or evs is None:
        ctx.broken.append(("correspondence", "driver c35_mass failed (F)", err[-500:]))
    else:
        for a, l, ev in zip(fcases, fl, evs):
            J = sym(a)
            o = parse_ok(l)
            if ev < EPS:
                if o is not None:
                    ctx.violation("impl_violation", {"op": "mjuu_fullInertia", "full": a}, expected="error: eigenvalue not positive", observed=l, theorem="eig3 contract", signature={"site": "mjuu_fullInertia"})
                continue
            if o is None:
                ctx.violation("impl_violation", {"op": "mjuu_fullInertia", "full": a}, expected="decomposition", observed=l, theorem="eig3 contract", signature={"site": "mjuu_fullInertia"})
                continue
            q, d = o[:4], o[4:7]
            Jr = rdrt(q2m(q), d)
            e = maxdiff(Jr, J)
            worst_f = max(worst_f, e / trace(J))
            if abs(sum(x * x for x in q) - 1) > 1e-12 or not (d[0] >= d[1] - 1e-9 and d[1] >= d[2] - 1e-9):
                ctx.violation("impl_violation", {"op": "mjuu_fullInertia", "full": a}, expected="unit quaternion, eigenvalues in decreasing order", observed=o, theorem="eig3 contract", signature={"site": "mjuu_fullInertia"})
            bad, sg = reconstruct_verdict(e, trace(J), False)
            if bad:
                ctx.violation("impl_violation", {"op": "mjuu_fullInertia", "full": a}, expected={"Q diag(L) Q^T": a, "tolerance": "%g * trace" % RECON_TOL},
                              observed={"quat": q, "eig": d, "Q diag(L) Q^T": unsym(Jr)},
                              theorem="eig3 contract (hypothesis of C35_reconstruct / C35_triangle_body)", signature=sg)

    # ------------------------------------------------------------ meshes that tessellate a primitive
    mesh_stat = run_meshes(ctx, exe)

    ctx.cov["evaluations"] = len(cases) + len(dcases) + len(fcases) + mesh_stat.get("n", 0) + fuse_stat.get("compiles", 0)
    ctx.cov["distinct_nontrivial"] = len(nontriv)
    ctx.cov["rule"] = ("bodies built through the mjSpec C API: every primitive type x solid/shell alone and paired with a box, random bodies of 1..6 geoms (random sizes 0.05..2, poses, "
                       "unnormalised quaternions around the mjEPS window, density / explicit mass / zero mass / tiny density, geom groups against several inertiagrouprange values), permuted copies, "
                       "two fixed mm-sized bodies, a negative density; chains of a hinged body and 1-2 jointless, rotated child bodies carrying elongated (anisotropic) geoms, compiled separately, with "
                       "compiler.fusestatic and through mjs_bodyToFrame (the receiving body must have the mass properties of the union of all geoms; AccumulateInertia is also compared with the Coq model); each compiled body is compared in Coq with Model/Inertia.v at binary64 (per-geom mass_ and inertia, body mass, ipos, single-geom "
                       "iquat/inertia or the private full tensor handed to mjuu_fullInertia; relative tolerance 2^-30) and with the numpy quadrature oracle; non-trivial = distinct successful compile outputs")
    ctx.cov["samples"] = [kinds[0], kinds[len(kinds) // 2], kinds[-2]]
    ctx.cov["correspondence_disagreements"] = len(fails)
    sup["geoms_per_class"] = percls
    sup["worst_relative_errors_vs_quadrature"] = worst
    sup["worst_relative_reconstruction_error_mjuu_fullInertia"] = worst_f
    sup["reconstruction_tolerance"] = ("Q diag(body_inertia) Q^T must match the quadrature tensor to %g * trace for multi-geom bodies with trace >= %g (designed accuracy of mjuu_eig3: the Jacobi loop "
                                       "stops when the rotation angle is below ~1.4e-6 rad), to 1e-9 * trace for single-geom bodies (no eig3); smaller bodies that exceed it within 2e-11 absolute "
                                       "are the recorded finding absolute-threshold-small-bodies (%d cases in this run)" % (RECON_TOL, RECON_MIN_TRACE, nsmall))
    sup["triangle_checks"] = ntri
    sup["meshes"] = mesh_stat
    sup["not_modelled"] = "hfield geoms (box arm), mesh geoms (oracle only), fromto, boundmass/boundinertia/balanceinertia/settotalmass, explicit inertial elements (C47)"
    ctx.cov["explanation"] = ("theorems of Props/C35.v proved over R; model tied to mj_compile on %d bodies (%d Coq disagreements) and to mjuu_globalinertia/offcenter on %d calls; "
                              "eig3 contract observed on %d tensors; %d mesh compilations" % (len(cases), len(fails), len(dcases), len(fcases), mesh_stat.get("n", 0)))


def qmul(a, b):
    return [a[0] * b[0] - a[1] * b[1] - a[2] * b[2] - a[3] * b[3], a[0] * b[1] + a[1] * b[0] + a[2] * b[3] - a[3] * b[2],
            a[0] * b[2] - a[1] * b[3] + a[2] * b[0] + a[3] * b[1], a[0] * b[3] + a[1] * b[2] - a[2] * b[1] + a[3] * b[0]]


def geom_tokens(g):
    return "%d %d %d %d %s %s %s %s %s" % (g["type"], int(g["shell"]), g["group"], 0 if g["mass"] is None else 1, hx(g["mass"] or 0.0), hx(g["density"]),
                                          " ".join(hx(x) for x in g["size"]), " ".join(hx(x) for x in g["pos"]), " ".join(hx(x) for x in g["quat"]))


def run_fuse(ctx, exe):
    """static (jointless) bodies fused into their parent: compiler.fusestatic and mjs_bodyToFrame.  The receiving body must get the
    mass properties of the UNION of all geoms (quadrature in the parent frame, poses composed in python)."""
    rng = ctx.rng
    big = ctx.tier != "quick"
    ncase = 30 if not big else 150
    special_q = [[1.0, 0, 0, 0], [math.sqrt(0.5), 0, 0, math.sqrt(0.5)], [math.sqrt(0.5), math.sqrt(0.5), 0, 0], [0.0, 0, 1.0, 0], [0.5, 0.5, 0.5, 0.5]]

    def aniso_geom():
        g = rand_geom(rng, rng.choice([GT["box"], GT["capsule"], GT["cylinder"], GT["ellipsoid"], GT["box"]]), rng.random() < 0.25, plain=True)
        if g["type"] == GT["ellipsoid"]:
            g["shell"] = False
        k = rng.randrange(3)
        g["size"] = [rng.uniform(0.05, 0.12) for _ in range(3)]
        g["size"][k if g["type"] in (GT["box"], GT["ellipsoid"]) else 1] = rng.uniform(0.3, 0.6)      # elongated: anisotropic inertia
        g["quat"] = unit(g["quat"])
        if rng.random() < 0.3:
            g["density"] = rng.uniform(200.0, 3000.0)
        return g

    cases = []
    for k in range(ncase):
        L = rng.choice([2, 2, 2, 3])
        levels = []
        for lv in range(L):
            ng = 1 if rng.random() < 0.55 else 2
            pose = None
            if lv > 0:
                r = rng.random()
                q = rng.choice(special_q) if r < 0.3 else unit([rng.gauss(0, 1) for _ in range(4)])
                pose = ([rng.uniform(-0.4, 0.4) for _ in range(3)], q)
            levels.append({"pose": pose, "geoms": [aniso_geom() for _ in range(ng)]})
        cases.append(levels)
    reqs, meta, oreq = [], [], []
    for ci, levels in enumerate(cases):
        body = " ".join((("%s %s " % (" ".join(hx(x) for x in lv["pose"][0]), " ".join(hx(x) for x in lv["pose"][1]))) if lv["pose"] else "")
                        + "%d %s" % (len(lv["geoms"]), " ".join(geom_tokens(g) for g in lv["geoms"])) for lv in levels)
        for mode in (0, 1, 2):
            if mode == 2 and len(levels) != 2:
                continue
            reqs.append("S %d %d %s" % (mode, len(levels), body))
            meta.append((ci, mode))
        # the union of all geoms expressed in the receiving body's frame
        union = []
        cum = None
        for lv in levels:
            if lv["pose"] is not None:
                cum = lv["pose"] if cum is None else ([a + b for a, b in zip(cum[0], mv(q2m(cum[1]), lv["pose"][0]))], unit(qmul(cum[1], lv["pose"][1])))
            for g in lv["geoms"]:
                gg = dict(g)
                if cum is not None:
                    gg["pos"] = [a + b for a, b in zip(cum[0], mv(q2m(cum[1]), g["pos"]))]
                    gg["quat"] = unit(qmul(cum[1], g["quat"]))
                union.append(gg)
        oreq.append({"op": "body", "glo": 0, "ghi": 5, "geoms": union})
    rcode, out, err = ctx.run(exe, "".join(r + "\n" for r in reqs))
    lines = out.strip("\n").split("\n")
    stat = {"cases": len(cases), "compiles": len(reqs), "worst_full_vs_union": 0.0, "worst_reconstruct_vs_union": 0.0, "rotated_anisotropic_children": 0}
    if rcode != 0 or len(lines) != len(reqs):
        ctx.broken.append(("correspondence", "driver c35_mass failed (S)", "rc=%s %s" % (rcode, err[-500:])))
        return [], [], stat
    ores = ask_oracle(ctx, oreq)
    if ores is None:
        return [], [], stat
    slits, skinds = [], []
    sep = {}
    for (ci, mode), req, l in zip(meta, reqs, lines):
        levels = cases[ci]
        case_js = {"mode": {0: "separate", 1: "fusestatic", 2: "mjs_bodyToFrame"}[mode], "levels": levels}
        sig = {"site": "mjCBody::AccumulateInertia", "class": {0: "separate", 1: "fusestatic", 2: "bodyToFrame"}[mode]}
        t = l.split()
        if not t or t[0] != "ok":
            ctx.violation("impl_violation", case_js, expected="compiles", observed=l[:300], theorem="C35_fuse oracle", signature=sig)
            continue
        nb = int(t[1])
        vals = [unhx(x) for x in t[2:2 + 18 * nb]]
        full = [unhx(x) for x in t[3 + 18 * nb:9 + 18 * nb]]
        bodies = [vals[18 * k:18 * k + 18] for k in range(nb)]
        if mode == 0:
            sep[ci] = bodies
            if nb != len(levels):
                ctx.violation("impl_violation", case_js, expected="%d bodies" % len(levels), observed=nb, theorem="C35_fuse oracle", signature=sig)
            continue
        if nb != 1:
            ctx.violation("impl_violation", case_js, expected="the static bodies are merged into their parent", observed="%d bodies" % nb, theorem="C35_fuse oracle", signature=sig)
            continue
        exp = ores[ci]
        M, com, J = exp["M"], exp["com"], exp["J"]
        tr = trace(J)
        b0 = bodies[0]
        mass, ipos, iquat, inertia = b0[0], b0[1:4], b0[4:8], b0[8:11]
        if any(lv["pose"] is not None and lv["pose"][1] != [1.0, 0, 0, 0] for lv in levels):
            stat["rotated_anisotropic_children"] += 1
        e_m = abs(mass - M) / M
        e_c = max(abs(x - y) for x, y in zip(ipos, com)) / (1 + max(abs(x) for x in com))
        if e_m > 1e-9 or e_c > 1e-9:
            ctx.violation("impl_violation", case_js, expected={"mass": M, "com": com}, observed={"mass": mass, "ipos": ipos}, theorem="C35_fuse (mass and centre of mass of the union)", signature=sig)
        Jrec = rdrt(q2m(iquat), inertia)
        e_r = maxdiff(Jrec, J) / tr
        stat["worst_reconstruct_vs_union"] = max(stat["worst_reconstruct_vs_union"], e_r)
        if e_r > RECON_TOL:
            ctx.violation("impl_violation", case_js, expected={"tensor of the union of all geoms about its centre of mass (quadrature)": unsym(J), "tolerance": "%g * trace" % RECON_TOL},
                          observed={"Q diag(body_inertia) Q^T": unsym(Jrec), "body_iquat": iquat, "body_inertia": inertia, "relative error": e_r},
                          theorem="C35_fuse / C35_reconstruct (the fused body has the inertia of the union)", signature=sig)
        if not math.isnan(full[0]):
            # exact when no eig3 result entered the accumulation (one geom per body, one fused level); otherwise eig3 accuracy
            exact = mode == 2 or (len(levels) == 2 and all(len(lv["geoms"]) == 1 for lv in levels))
            e_f = maxdiff(sym(full), J) / tr
            if exact:
                stat["worst_full_vs_union"] = max(stat["worst_full_vs_union"], e_f)
            if e_f > (1e-9 if exact else RECON_TOL):
                ctx.violation("impl_violation", case_js, expected={"tensor of the union (quadrature)": unsym(J)}, observed={"tensor handed to mjuu_fullInertia": full, "relative error": e_f},
                              theorem="C35_fuse (parallel-axis accumulation with the child tensor rotated into the parent frame)", signature=sig)
        if mode == 1 and len(levels) == 2 and ci in sep and len(sep[ci]) == 2 and not math.isnan(full[0]):
            slits.append("(%s, %s, %s)" % (F.flist(sep[ci][0][:11]), F.flist(sep[ci][1]), F.flist([mass] + ipos + full)))
            skinds.append(case_js)
    return slits, skinds, stat


def run_meshes(ctx, exe):
    rng = ctx.rng
    big = ctx.tier != "quick"
    names = ["box", "sphere", "ellipsoid", "cylinder", "capsule"]
    plan = []
    for name in names:
        size = [rng.uniform(0.2, 0.8) for _ in range(3)]
        for n in ((8, 16) if not big else (8, 16, 32)):
            if name == "box" and n != 8:
                continue
            plan.append((name, size, n))
    meshes = ask_oracle(ctx, [{"op": "mesh", "name": nm, "size": sz, "n": n} for nm, sz, n in plan])
    stat = {"n": 0, "exact_polyhedron_worst": 0.0, "primitive_errors": {}, "builtin": {}, "convex_mode": ""}
    if meshes is None:
        return stat
    reqs = []
    for (name, size, n), me in zip(plan, meshes):
        for mode in (1, 2, 3):
            q = rand_quat(rng)
            pos = [rng.gauss(0, 0.3) for _ in range(3)]
            dens = rng.choice([1000.0, 500.0])
            line = "M %d %s %s %s %d %d %s %s" % (mode, hx(dens), " ".join(hx(x) for x in pos), " ".join(hx(x) for x in q), len(me["V"]), len(me["F"]),
                                                  " ".join(hx(x) for v in me["V"] for x in v), " ".join("%d %d %d" % tuple(f) for f in me["F"]))
            reqs.append(({"mesh": name, "size": size, "n": n, "mode": mode, "density": dens, "pos": pos, "quat": q}, line, me))
    for b, p in [(1, [2.0]), (1, [3.0])]:      # builtin sphere, 2 and 3 subdivisions
        reqs.append(({"builtin": b, "params": p, "mode": 1}, "K %d 1 %s %d %s" % (b, hx(1000.0), len(p), " ".join(hx(x) for x in p)), None))
    # the convex mode needs qhull, which is stubbed out here
    reqs.append(({"builtin": 1, "params": [2.0], "mode": 0}, "K 1 0 %s 1 %s" % (hx(1000.0), hx(2.0)), None))
    rcode, out, err = ctx.run(exe, "".join(r[1] + "\n" for r in reqs))
    lines = out.strip("\n").split("\n")
    stat["n"] = len(reqs)
    if rcode != 0 or len(lines) != len(reqs):
        ctx.broken.append(("correspondence", "driver c35_mass failed (meshes)", err[-500:]))
        return stat
    prim = ask_oracle(ctx, [{"op": "body", "glo": 0, "ghi": 5, "geoms": [{"type": GT[d["mesh"]], "shell": d["mode"] == 3, "group": 0, "mass": None, "density": d["density"],
                                                                         "size": d["size"], "pos": d["pos"], "quat": d["quat"]}]} for d, _, me in reqs if me is not None])
    if prim is None:
        return stat
    prim = iter(prim)
    prev = {}
    for (d, line, me), l in zip(reqs, lines):
        o = parse_ok(l)
        sig = {"site": "mj_compile", "class": "mesh-mass-properties"}
        if me is None:
            if d["mode"] == 0:
                stat["convex_mode"] = l[:80]
                continue
            if o is None:
                stat["builtin"][str(d["params"])] = l[:80]
                ctx.violation("impl_violation", d, expected="builtin mesh compiles", observed=l[:200], theorem="C35 mesh oracle", signature=sig)
                continue
            mass, inertia = o[0], o[8:11]
            em = abs(mass - 4000 * math.pi / 3) / (4000 * math.pi / 3)        # unit sphere, density 1000
            ei = max(abs(x - 0.4 * mass) for x in inertia) / (0.4 * mass)
            stat["builtin"]["sphere%s" % d["params"]] = [em, ei]
            if em > 0.1 or ei > 0.1:
                ctx.violation("impl_violation", d, expected="unit sphere mass properties within 10%", observed=o[:11], theorem="C35 mesh oracle", signature=sig)
            continue
        pr = next(prim)
        if o is None:
            ctx.violation("impl_violation", d, expected="mesh compiles", observed=l[:300], theorem="C35 mesh oracle", signature=sig)
            continue
        mass, ipos, iquat, inertia = o[0], o[1:4], o[4:8], o[8:11]
        shell = d["mode"] == 3
        pp = me["shell" if shell else "solid"]
        Rg = q2m(unit(d["quat"]))
        Jimp = rdrt(q2m(iquat), inertia)
        # (1) exact: the polyhedron's own mass properties (same float32 vertices)
        Mexp = d["density"] * pp["vol"]
        cexp = [x + y for x, y in zip(mv(Rg, pp["com"]), d["pos"])]
        Jexp = [[d["density"] * x for x in r] for r in mm(mm(Rg, pp["J"]), mT(Rg))]
        e1 = max(abs(mass - Mexp) / Mexp, max(abs(x - y) for x, y in zip(ipos, cexp)) / (1 + max(abs(x) for x in cexp)), maxdiff(Jimp, Jexp) / trace(Jexp))
        stat["exact_polyhedron_worst"] = max(stat["exact_polyhedron_worst"], e1)
        if e1 > 5e-6:
            ctx.violation("impl_violation", d, expected={"mass": Mexp, "com": cexp, "full": unsym(Jexp)}, observed={"mass": mass, "ipos": ipos, "full": unsym(Jimp)},
                          theorem="C35 mesh oracle (polyhedron integrals)", signature=sig)
        a, b, c = inertia
        if min(a + b - c, a + c - b, b + c - a) < -1e-9 * (a + b + c):
            ctx.violation("impl_violation", d, expected="A + B >= C", observed=inertia, theorem="C35_triangle_body", signature=sig)
        # (2) discretisation: the primitive's mass properties (quadrature oracle of the primitive)
        if d["mesh"] == "ellipsoid" and shell:
            continue                 # the primitive's own shell is an approximation (Thomsen area, offset layer): nothing to converge to
        Mp, cp, Jp = pr["M"], pr["com"], pr["J"]
        e2 = max(abs(mass - Mp) / Mp, max(abs(x - y) for x, y in zip(ipos, cp)), maxdiff(Jimp, Jp) / trace(Jp))
        key = (d["mesh"], d["mode"])
        stat["primitive_errors"].setdefault("%s/%d" % key, []).append([d["n"], e2])
        bound = 1e-5 if d["mesh"] == "box" else 40.0 / (d["n"] ** 2)
        if e2 > bound or (key in prev and prev[key][0] < d["n"] and e2 > 0.5 * prev[key][1] and e2 > 1e-5):
            ctx.violation("impl_violation", d, expected={"primitive": {"mass": Mp, "com": cp, "full": unsym(Jp)}, "bound": bound, "previous": prev.get(key)},
                          observed={"mass": mass, "ipos": ipos, "full": unsym(Jimp), "error": e2}, theorem="C35 mesh oracle (discretisation error decreases)", signature=sig)
        prev[key] = (d["n"], e2)
    return stat
