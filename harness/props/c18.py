"""C18 — sleeping islands are frozen and wake on the documented events."""
import itertools
import framework as F

META = {
    "id": "C18", "category": "proof", "design_ref": "DESIGN.md section 4, C18",
    "technique": "Coq proof (invariant + orbit/pigeonhole argument) about a hand-written model of engine_sleep.c on int arrays, "
                 "exact correspondence with the real functions on raw arrays and inside mj_step, oracle on long perturbed histories of the real pipeline",
    "text": "PROVED of the model for all array lengths and all histories (coq/Props/C18.v): (1) the cycle invariant Inv (every entry >= 0 of tree_asleep "
            "is an in-range index of a sleeping tree and the successor map is injective on the sleeping set, hence a permutation of it made of closed "
            "cycles: C18_inv_cycles shows every sleeping tree returns to itself) holds of the reset state, and is preserved by mj_sleepTrees on a list of "
            "distinct ready trees, by mj_wakeIsland (wakeval < 0), by mj_sleep for every can-sleep vector and every island partition that contains no "
            "sleeping tree, by mj_wake, and by every history of those calls; none of the SHOULD-NOT-OCCUR error exits is reachable under Inv; "
            "(2) mj_wakeIsland on a sleeping tree i sets exactly the trees of the cycle of i to wakeval, leaves everything else unchanged and returns the "
            "cycle length; on an awake tree it only lowers that tree's counter; (3) mj_sleep puts a tree to sleep only if after the countdown it and every tree "
            "of its island is at -1, the new sleep cycle of a tree is exactly its island (or the tree alone when unconstrained), trees already asleep are "
            "untouched; (4) countdown: in any history of mj_sleep/mj_wakeIsland calls starting with tree i fully awake, i falls asleep only at an mj_sleep "
            "call that is at least the mjMINAWAKE-th consecutive one with can-sleep(i) true; (5) mj_updateSleepInit: body_awake_ind / parent_awake_ind / "
            "dof_awake_ind are strictly increasing and contain exactly the bodies not asleep / the non-world bodies whose parent is not asleep / the dofs "
            "of awake moving bodies (parents precede children assumed for parent_awake_ind). "
            "TIED to /repo by exact comparison with mj_sleepCycle, mj_wakeIsland, mj_sleep, mj_wake, mj_updateSleepInit on raw arrays (exhaustive small + random; the mj_updateSleepInit models add mocap bodies with chains of jointless descendants, jointless chains under the world and jointless bodies inside moving trees, so that body id, root id and parent id differ; "
            "error exits included), with mj_island's map_itree2tree/island_ntree/island_itreeadr, and with the mj_sleep call inside every step of the pipeline runs. "
            "PARTIAL (observed on the implementation, not proved): the wake *conditions* (mj_kinematics1 pose mismatch, treeCanSleep, mj_wakeCollision, mj_wakeEquality; "
            "mj_wakeTendon not exercised) and the frozen qpos/qvel: checked by an oracle over long histories of piles of free boxes with random qpos/qvel/xfrc/qfrc edits, "
            "a sphere dropped on or shot at sleeping piles (about two thirds of the sphere-box geom pairs and some box-box pairs are explicit contact pairs with their own parameters), equality toggles, resets, and (in a third of the scenes) a pile standing on a pad that is a jointless child of a mocap body which the history moves, some with every tree at policy never so that the twin comparison (now also xpos, xquat, geom_xpos, geom_xmat) runs on every step: cycle invariant after every forward and every step, sleeping trees keep bit-identical "
            "qpos and zero qvel, a cycle wakes as a whole or not at all, poked / touched / equality-linked sleeping trees are awake after the next mj_forward, "
            "a tree in contact with a mocap-rooted body is awake after mj_forward, sleep transitions obey the island and mjMINAWAKE rules, and the sleep-enabled run equals the sleep-disabled run bit for bit while no tree is asleep. "
            "NOT COVERED: flexes, tendon wake, mocap contact wake, RK4, the numerical content of treeCanSleep beyond the independent re-evaluation in the driver.",
    "note": "Trusted: Coq kernel; hand-written model Model/Sleep.v (treeCanSleep and the island partition are inputs of the model); correspondence harness (gcc, driver c18_sleep.c). "
            "All theorems closed under the global context.",
    "assumptions": ["model abstracts treeCanSleep to a vector of booleans and the island partition to tree_island; tie is differential testing on the cases of this run",
                    "countdown theorem starts from a fully awake tree: a tree woken by contact inherits the counter of the tree that woke it (engine_sleep.c:361)"],
}

IMPORTS = "From Coq Require Import ZArith.\nFrom MJV Require Import Lib.Eqb Model.Sleep Model.SleepTie.\nOpen Scope Z_scope."
KAWAKE = -11


def zl(xs):
    xs = list(xs)
    return F.zlist(xs) if xs else "(@nil Z)"


def case(op, args, arrs, isl=()):
    ll = lambda x: ("[" + "; ".join(zl(a) for a in x) + "]") if x else "(@nil (list Z))"
    return "(%d, %s, %s, %s)" % (op, zl(args), ll(arrs), ll(isl))


# ------------------------------------------------------------------ independent oracles (python)
def inv_ok(ta):
    """cycle invariant: nonnegative entries are in range, point to sleeping trees, injective; every sleeping tree on a closed cycle."""
    n = len(ta)
    seen = set()
    for i, v in enumerate(ta):
        if v >= 0:
            if v >= n or ta[v] < 0 or v in seen:
                return False
            seen.add(v)
    for i, v in enumerate(ta):
        if v >= 0:
            cur, k = v, 1
            while cur != i and k <= n:
                cur = ta[cur]; k += 1
            if cur != i:
                return False
    return True


def cycle_of(ta, i):
    out = [i]
    cur = ta[i]
    while cur != i and len(out) <= len(ta):
        out.append(cur); cur = ta[cur]
    return out


def rand_state(rng, n, p_sleep=0.5):
    """valid tree_asleep: random subset asleep, split into cycles; awake values in -11..-1"""
    ta = [rng.choice([-1, -1, -2, -3, -11, -rng.randrange(1, 12)]) for _ in range(n)]
    sl = [i for i in range(n) if rng.random() < p_sleep]
    rng.shuffle(sl)
    while sl:
        k = rng.randrange(1, min(len(sl), 4) + 1)
        cyc, sl = sl[:k], sl[k:]
        for j, t in enumerate(cyc):
            ta[t] = cyc[(j + 1) % k]
    return ta


def run(ctx):
    rng = ctx.rng
    quick = ctx.tier == "quick"
    ctx.coq_props(allowed_axioms=(), extra_targets=["Lib/Eqb.vo", "Model/Sleep.vo", "Model/SleepTie.vo"])
    exe = ctx.driver("c18_sleep", ["c18_sleep.c"])
    if exe is None:
        return
    cmds, meta = [], []   # meta: (kind, payload)

    def add(cmd, kind, payload):
        cmds.append(cmd); meta.append((kind, payload))

    add("M", "M", None)
    # ---- mj_sleepCycle / mj_wakeIsland: exhaustive small, then random
    nmax = 3 if quick else 4
    nexh = 0
    for n in range(0, nmax + 1):
        vals = [-3, -1] + list(range(n + 1))
        for ta in itertools.product(vals, repeat=n):
            for i in range(-1, n + 1):
                add("C %d %d %d %s" % (n, i, n, " ".join(map(str, ta))), "C", (n, i, list(ta)))
                add("W %d %d %d %d %s" % (n, i, -11 if (i + len(ta)) % 2 else -2, n, " ".join(map(str, ta))), "W", (n, i, -11 if (i + len(ta)) % 2 else -2, list(ta)))
                nexh += 2
    for rep in range(300 if quick else 3000):
        n = rng.randrange(1, 40)
        ta = rand_state(rng, n, rng.choice([0.3, 0.7, 1.0]))
        if rng.random() < 0.35:   # corrupt
            for _ in range(rng.randrange(1, 3)):
                ta[rng.randrange(n)] = rng.randrange(-2, n + 2)
        nt = n if rng.random() < 0.85 else rng.randrange(0, n + 1)
        i = rng.randrange(-1, n + 1)
        wv = rng.choice([KAWAKE, -1, -5])
        add("C %d %d %d %s" % (nt, i, n, " ".join(map(str, ta))), "C", (nt, i, ta))
        add("W %d %d %d %d %s" % (nt, i, wv, n, " ".join(map(str, ta))), "W", (nt, i, wv, ta))
    # ---- mj_sleep / mj_wake on n free boxes
    def sleep_case(n, ta, code, nefc, islands, tail):
        cmd = "S %d %d %d %s %s %s %d %s" % (n, nefc, len(islands), " ".join(map(str, ta)), " ".join(map(str, code)),
                                             " ".join("%d %s" % (len(x), " ".join(map(str, x))) for x in islands), len(tail), " ".join(map(str, tail)))
        add(cmd, "S", (n, ta, code, nefc, islands, tail))

    def partitions(items):
        if not items:
            yield []
            return
        first, rest = items[0], items[1:]
        for p in partitions(rest):
            for k in range(len(p)):
                yield p[:k] + [[first] + p[k]] + p[k + 1:]
            yield [[first]] + p
    nS = 2 if quick else 3
    for n in range(1, nS + 1):
        vals = [-3, -2, -1] + list(range(n))
        for ta in itertools.product(vals, repeat=n):
            for code in itertools.product([0, 1], repeat=n):
                for p in partitions(list(range(n))):
                    for ntail in range(0, len(p) + 1):     # last ntail blocks are unconstrained singletons
                        isl = p[:len(p) - ntail]
                        tail = [t for blk in p[len(p) - ntail:] for t in blk]
                        sleep_case(n, list(ta), list(code), 0 if not isl else 3, isl, tail)
    for rep in range(400 if quick else 4000):
        n = rng.randrange(1, 9)
        ta = rand_state(rng, n, rng.choice([0.0, 0.2, 0.5]))
        code = [rng.choice([0, 0, 0, 6, rng.randrange(0, 7)]) for _ in range(n)]
        awake = [t for t in range(n) if ta[t] < 0]
        rng.shuffle(awake)
        isl = []
        while awake and rng.random() < 0.7:
            k = rng.randrange(1, min(4, len(awake)) + 1)
            isl.append(sorted(awake[:k])); awake = awake[k:]
        tail = sorted(awake + [t for t in range(n) if ta[t] >= 0])
        if rng.random() < 0.1 and isl:     # invalid: sleeping or repeated tree inside an island
            isl[rng.randrange(len(isl))].append(rng.randrange(n))
        nefc = 0 if (not isl and rng.random() < 0.7) else rng.randrange(1, 9)
        sleep_case(n, ta, code, nefc, isl, tail)
    for rep in range(400 if quick else 4000):
        n = rng.randrange(1, 9)
        ta = rand_state(rng, n, rng.choice([0.3, 0.6, 1.0]))
        if rng.random() < 0.05:
            ta[rng.randrange(n)] = rng.randrange(0, n)
        flags = [1 if rng.random() < 0.15 else 0 for _ in range(n)]
        code = [rng.choice([0, 0, 0, 0, rng.randrange(0, 7)]) for _ in range(n)]
        en = 0 if rng.random() < 0.1 else 1
        add("K %d %d %s %s %s" % (n, en, " ".join(map(str, ta)), " ".join(map(str, flags)), " ".join(map(str, code))), "K", (n, en, ta, flags, code))
    # ---- mj_updateSleepInit on generated models
    FEATS = [1 | 1 << 15, 1 | 2 | 4 | 1 << 15 | 1 << 9, 1 << 15, 1 | 1 << 15 | 1 << 9 | 1 << 4, 0]
    for rep in range(100 if quick else 1500):
        add("U %d %d %d %d %d" % (rng.randrange(1, 10 ** 6), rng.choice(FEATS), rng.randrange(1, 12), rng.randrange(2), rng.randrange(10 ** 6)), "U", None)
    # ---- pipeline scenarios
    nscen = 7 if quick else 60
    for rep in range(nscen):
        variant = rng.choice([0, 0, 1, 2, 3, 8, 4, 5, 32, 33, 96, 98, 104]) if rep >= 5 else [0, 4, 1, 96, 32][rep]
        add("P %d %d %d %d" % (rng.randrange(1, 10 ** 6), rng.randrange(2, 11), 1200 if quick else 3000, variant), "P", None)
    rc, out, err = ctx.run(exe, "\n".join(cmds) + "\n", timeout=900)
    lines = out.split("\n")
    if rc != 0:
        ctx.broken.append(("correspondence", "driver c18_sleep failed", "rc=%s %s" % (rc, err[-800:])))
        return
    # ---- parse
    coq_cases, coq_src = [], []
    pos = 0
    stats = {"steps": 0, "sleep_events": 0, "wake_events": 0, "poke_wakes": 0, "contact_wakes": 0, "touch_wakes": 0, "mocap_contacts": 0, "twin_compared": 0, "multi_tree_cycles": 0, "resyncs": 0}
    distinct = set()

    def emit(c, src):
        if c not in distinct:
            distinct.add(c); coq_cases.append(c); coq_src.append(src)

    def viol(kind_case, expected, observed, site, theorem):
        ctx.violation("impl_violation", kind_case, expected=expected, observed=observed, signature={"site": site}, theorem=theorem)

    for (cmd, (kind, pl)) in zip(cmds, meta):
        if pos >= len(lines):
            ctx.broken.append(("correspondence", "driver output truncated", cmd)); return
        if kind == "M":
            emit(case(0, list(map(int, lines[pos].split())), []), cmd); pos += 1
        elif kind == "C":
            nt, i, ta = pl
            res = int(lines[pos]); pos += 1
            emit(case(1, [nt, i, res], [ta]), cmd)
            # oracle: on a valid state and valid sleeping i the result is the smallest tree of its cycle
            if nt == len(ta) and inv_ok(ta) and 0 <= i < nt and ta[i] >= 0 and res != min(cycle_of(ta, i)):
                viol({"op": "mj_sleepCycle", "ta": ta, "i": i}, min(cycle_of(ta, i)), res, "mj_sleepCycle", "C18_wake_whole")
        elif kind == "W":
            nt, i, wv, ta = pl
            t = list(map(int, lines[pos].split())); pos += 1
            e, nw, ta2 = t[0], t[1], t[2:]
            emit(case(2, [nt, i, wv, e, nw], [ta, ta2]), cmd)
            if nt == len(ta) and inv_ok(ta) and 0 <= i < nt and ta[i] >= 0:
                cyc = cycle_of(ta, i)
                exp = [wv if k in cyc else v for k, v in enumerate(ta)]
                if e != 0 or nw != len(cyc) or ta2 != exp:
                    viol({"op": "mj_wakeIsland", "ta": ta, "i": i, "wakeval": wv}, {"nwoke": len(cyc), "ta": exp}, {"err": e, "nwoke": nw, "ta": ta2}, "mj_wakeIsland", "C18_wake_whole")
        elif kind == "S":
            n, ta, code, nefc, isl, tail = pl
            t = list(map(int, lines[pos].split())); pos += 1
            e, ns, ta2, qz = t[0], t[1], t[2:2 + n], t[2 + n]
            can = [1 if c in (0, 6) else 0 for c in code]
            tail = tail[:max(0, n - sum(len(b) for b in isl))]     # the C loop visits map_itree2tree[start..ntree)
            emit(case(3, [nefc, e, ns], [ta, can, tail, ta2], isl), cmd)
            flat = [x for b in isl for x in b]
            valid = inv_ok(ta) and all(ta[x] < 0 for x in flat) and len(set(flat)) == len(flat) and \
                sorted(flat + tail) == list(range(n)) and (isl or nefc == 0)
            if valid:
                bad = None
                if e != 0 or not inv_ok(ta2) or not qz:
                    bad = "error / invariant broken / velocity of a slept tree not zero"
                blocks = isl + [[x] for x in tail]
                for blk in blocks:
                    ready = all(ta[x] < 0 and can[x] and ta[x] >= -2 for x in blk)
                    for x in blk:
                        if ta[x] >= 0:
                            if ta2[x] != ta[x]:
                                bad = "sleeping tree modified"
                        elif ready:
                            if ta2[x] < 0 or sorted(cycle_of(ta2, x)) != sorted(blk):
                                bad = "ready island not asleep as one cycle"
                        elif ta2[x] >= 0:
                            bad = "tree put to sleep although its island is not ready"
                if bad:
                    viol({"op": "mj_sleep", "ta": ta, "can": can, "islands": isl, "tail": tail, "nefc": nefc}, bad, {"err": e, "ta": ta2, "qz": qz}, "mj_sleep", "C18_sleep_island_atomic")
        elif kind == "K":
            n, en, ta, flags, code = pl
            t = list(map(int, lines[pos].split())); pos += 1
            e, nw, ta2 = t[0], t[1], t[2:]
            can0 = [1 if c == 0 else 0 for c in code]
            emit(case(4, [en, sum(1 for v in ta if v < 0), e, nw], [ta, flags, can0, ta2]), cmd)
            if inv_ok(ta):
                woke = set()
                for i2 in range(n):
                    if ta[i2] >= 0 and (not en or flags[i2] or not can0[i2]):
                        woke |= set(cycle_of(ta, i2))
                exp = [KAWAKE if k in woke else v for k, v in enumerate(ta)]
                if not en and not woke:
                    exp = ta
                elif not en:
                    exp = [KAWAKE] * n
                if e != 0 or ta2 != exp or nw != len(woke):
                    viol({"op": "mj_wake", "ta": ta, "flags": flags, "can0": can0, "enabled": en}, {"ta": exp, "nwoke": len(woke)}, {"err": e, "nwoke": nw, "ta": ta2}, "mj_wake", "C18_wake_whole")
        elif kind == "U":
            ln = lines[pos]; pos += 1
            if ln.startswith("X"):
                continue
            parts = [p.split() for p in ln.split("|")]
            head = parts[0]
            A = [list(map(int, p)) for p in parts[1:]]
            flg = int(cmd.split()[4])
            ta, treeid, parentid, rootid, mocapid, dofbody, ba0, tw, counts, ba, bind, pind, dind = A
            emit(case(5, [flg] + counts, [ta, treeid, parentid, rootid, mocapid, dofbody, ba0, tw, ba, bind, pind, dind]), cmd)
            # oracle: index arrays are exactly the awake (and static) items in increasing order
            nb = len(treeid)
            st = []
            for b in range(nb):
                if treeid[b] < 0:
                    st.append(1 if (mocapid[rootid[b]] >= 0 or flg) else -1)
                else:
                    st.append(1 if ta[treeid[b]] < 0 else 0)
            exp_b = [b for b in range(nb) if st[b] != 0]
            exp_p = [b for b in range(1, nb) if st[parentid[b]] != 0]
            exp_d = [k for k, b in enumerate(dofbody) if treeid[b] >= 0 and st[b] == 1]
            if ba != st or bind != exp_b or pind != exp_p or dind != exp_d or counts != [sum(1 for v in ta if v < 0), len(exp_b), len(exp_p), len(exp_d)]:
                viol({"op": "mj_updateSleepInit", "cmd": cmd}, {"body_awake": st, "body_awake_ind": exp_b, "parent_awake_ind": exp_p, "dof_awake_ind": exp_d},
                     {"body_awake": ba, "body_awake_ind": bind, "parent_awake_ind": pind, "dof_awake_ind": dind, "counts": counts}, "mj_updateSleepInit", "C18_indices")
        elif kind == "P":
            pos = scenario(ctx, cmd, lines, pos, emit, viol, stats)
            if pos < 0:
                return
    fails = ctx.coq_eval("c18", IMPORTS, coq_cases, "sleep_check", shard=max(400, (len(coq_cases) + 7) // 8))
    for i in fails[:5]:
        ctx.violation("correspondence", {"driver_command": coq_src[i][:600], "coq_case": coq_cases[i][:1500]}, expected="model output (Model/Sleep.v)",
                      observed="implementation output inside the case", found_input=False, theorem="correspondence c18_sleep",
                      note="implementation and Coq model disagree on this input, but the implementation output still satisfies the oracle")
    ctx.cov["evaluations"] = len(coq_cases)
    ctx.cov["distinct_nontrivial"] = stats["sleep_events"] + stats["wake_events"]
    ctx.cov["exhaustive_part"] = "mj_sleepCycle/mj_wakeIsland on all arrays of length <= %d over {-3,-1,0..n} and every i in -1..n (%d cases); mj_sleep on all states over {-3,-2,-1,0..n-1}, can vectors and set partitions for n <= %d" % (nmax, nexh, nS)
    ctx.cov["rule"] = ("raw arrays: exhaustive small, random valid cycle structures with 35% corrupted entries; pipeline: piles of free boxes + sphere, 1200/3000 steps, ~1.2% of steps poked; "
                       "non-trivial = number of observed awake->asleep and asleep->awake tree transitions in the pipeline runs")
    ctx.cov["samples"] = [coq_src[k][:300] for k in (1, len(coq_src) // 2, len(coq_src) - 1)]
    ctx.cov["support"]["pipeline"] = stats
    ctx.cov["correspondence_disagreements"] = len(fails)
    ctx.cov["explanation"] = ("cycle/wake/sleep/countdown/index theorems proved for all inputs of the model; model tied to engine_sleep.c by exact comparison on %d distinct cases; "
                              "wake conditions and frozen state observed on %d pipeline steps (partial)" % (len(coq_cases), stats["steps"]))


def scenario(ctx, cmd, lines, pos, emit, viol, stats):
    """parse one pipeline trace, run the oracles, emit tie cases; returns new position"""
    def fail(what, k, exp, obs, site, thm):
        viol({"scenario": cmd, "step": k, "what": what}, exp, obs, site, thm)
    hdr = lines[pos]; pos += 1
    if hdr.startswith("X") or hdr.startswith("E makeData"):
        ctx.broken.append(("correspondence", "pipeline scenario could not be built", cmd + ": " + hdr)); return pos
    h = hdr.split("|")[0].split()
    nt = int(h[2]); minawake = int(h[8])
    bullet = nt - 1
    awake_run = [0] * nt   # consecutive steps awake at the end of forward
    can_run = [0] * nt
    reported = set()
    while True:
        ln = lines[pos]; pos += 1
        if ln.startswith("Z"):
            break
        if ln.startswith("E"):
            if "E" not in reported:
                reported.add("E")
                viol({"scenario": cmd, "what": "mju_error raised in a legitimate history"}, "no error", ln[:400], "pipeline_error", "C18_history_inv")
            # trace ends after an error
            while not lines[pos].startswith("Z") and pos < len(lines) - 1:
                pos += 1
            pos += 1
            break
        f = {}
        parts = ln.split("|")
        hd = parts[0].split(); k, poke, ptree = int(hd[1]), int(hd[2]), int(hd[3])
        for p in parts[1:]:
            t = p.split()
            f[t[0]] = t[1:]
        s, fw, can, e = (list(map(int, f[x])) for x in ("s", "f", "can", "e"))
        isl = f["isl"]
        nefc, nisland = int(isl[0]), int(isl[1])
        ti, mp, inn, iadr = [], [], [], []
        if nisland > 0:
            rest = isl[2:]
            def grab(tag, nxt):
                a = rest.index(tag) + 1
                b = rest.index(nxt) if nxt else len(rest)
                return list(map(int, rest[a:b]))
            ti, mp, inn, iadr = grab("ti", "map"), grab("map", "n"), grab("n", "adr"), grab("adr", None)
            emit(case(6, [nisland], [ti, mp, inn, iadr]), cmd + " step %d" % k)
        emit(case(7, [nefc, nisland], [fw, can, ti, e]), cmd + " step %d" % k)
        stats["steps"] += 1
        same, vz = list(map(int, f["same"])), list(map(int, f["vz"]))
        # 1. cycle invariant
        for nm, arr in (("start", s), ("after forward", fw), ("after step", e)):
            if not inv_ok(arr) and "inv" not in reported:
                reported.add("inv"); fail("cycle invariant broken " + nm, k, "closed cycles", arr, "cycle_invariant", "C18_history_inv")
        if not (inv_ok(s) and inv_ok(fw) and inv_ok(e)):
            continue
        # 2. frozen
        for t in range(nt):
            if s[t] >= 0 and fw[t] >= 0 and e[t] >= 0 and not (same[t] and vz[t]) and "frozen" not in reported:
                reported.add("frozen"); fail("sleeping tree %d moved" % t, k, "qpos bit-identical, qvel zero", {"same": same[t], "vz": vz[t]}, "frozen", "oracle frozen")
            if e[t] >= 0 and not vz[t] and "vz" not in reported:
                reported.add("vz"); fail("tree %d asleep with nonzero qvel" % t, k, "qvel zero", vz, "frozen", "oracle frozen")
        # 3. wake: whole cycle or nothing; pokes; contacts; equalities; touches
        done = set()
        for t in range(nt):
            if s[t] >= 0 and t not in done:
                cyc = cycle_of(s, t); done |= set(cyc)
                if len(cyc) > 1:
                    stats["multi_tree_cycles"] += 1
                aw = [fw[x] < 0 for x in cyc]
                if any(aw) and not all(aw) and "atomic" not in reported:
                    reported.add("atomic"); fail("cycle woke partially", k, "all of %s awake" % cyc, fw, "wake_whole", "C18_wake_whole")
                if all(aw):
                    stats["wake_events"] += len(cyc)
                elif not any(aw) and [fw[x] for x in cyc] != [s[x] for x in cyc] and "atomic" not in reported:
                    reported.add("atomic"); fail("sleeping cycle rewritten", k, s, fw, "wake_whole", "C18_wake_whole")
        if poke in (1, 2, 3, 4, 5, 6) and 0 <= ptree < nt and s[ptree] >= 0:
            stats["poke_wakes"] += 1
            if fw[ptree] >= 0 and "poke" not in reported:
                reported.add("poke"); fail("poke kind %d on sleeping tree %d did not wake it" % (poke, ptree), k, "awake after mj_forward", fw, "wake_poke_%d" % min(poke, 5), "oracle wake events")
        for tag in ("con", "eq"):
            for pr_ in f.get(tag, []):
                a, b = map(int, pr_.split(":"))
                if a >= 0 and b >= 0 and a != b and (fw[a] < 0) != (fw[b] < 0) and tag not in reported:
                    reported.add(tag); fail("%s between awake and sleeping trees %d %d after mj_forward" % (tag, a, b), k, "both awake", fw, "wake_" + tag, "oracle wake events")
                if tag == "con" and a >= 0 and b >= 0 and a != b and (s[a] >= 0) != (s[b] >= 0):
                    stats["contact_wakes"] += 1
                # a body rooted at a mocap body (the mocap body or a jointless descendant) is always awake:
                # a tree in contact with it cannot be asleep after mj_forward
                if tag == "con" and min(a, b) == -2 and max(a, b) >= 0:
                    stats["mocap_contacts"] += 1
                    if fw[max(a, b)] >= 0 and "mocap" not in reported:
                        reported.add("mocap"); fail("contact between a mocap-rooted body and sleeping tree %d after mj_forward" % max(a, b), k, "tree awake", fw, "wake_mocap_contact", "oracle wake events")
        for x in f.get("touch", []):
            t = int(x)
            if (s[bullet] >= 0) != (s[t] >= 0):
                stats["touch_wakes"] += 1
            if (fw[bullet] < 0) != (fw[t] < 0) and "touch" not in reported:
                reported.add("touch"); fail("sphere penetrates box tree %d but only one of them is awake" % t, k, "both awake", fw, "wake_touch", "oracle wake events")
        # 4. sleep transitions
        for t in range(nt):
            if fw[t] < 0:
                awake_run[t] += 1
                can_run[t] = can_run[t] + 1 if can[t] else 0
            else:
                awake_run[t] = 0; can_run[t] = 0
            if fw[t] < 0 and e[t] >= 0:
                stats["sleep_events"] += 1
                blk = [u for u in range(nt) if nisland > 0 and ti[t] >= 0 and ti[u] == ti[t]] or [t]
                ok = all(fw[u] < 0 and can[u] and fw[u] >= -2 and e[u] >= 0 for u in blk) and sorted(cycle_of(e, t)) == sorted(blk) and not (nefc and not nisland)
                if not ok and "sleep" not in reported:
                    reported.add("sleep"); fail("tree %d put to sleep against the island rule" % t, k, {"island": blk}, {"f": fw, "can": can, "e": e, "ti": ti}, "sleep_island", "C18_sleep_island_atomic")
                if awake_run[t] >= minawake and can_run[t] < minawake and "count" not in reported:
                    reported.add("count"); fail("tree %d slept after %d consecutive can-sleep steps" % (t, can_run[t]), k, ">= %d" % minawake, can_run[t], "countdown", "C18_countdown")
            if fw[t] >= 0 and e[t] != fw[t] and "sleep" not in reported:
                reported.add("sleep"); fail("sleeping tree %d modified by the integrator stage" % t, k, fw, e, "sleep_island", "C18_sleep_island_atomic")
        # 5. derived arrays, sleep-disabled twin
        if f["der"] != ["1"] and "der" not in reported:
            reported.add("der"); fail("tree_awake / ntree_awake inconsistent with tree_asleep", k, "consistent", f["der"], "derived", "C18_indices")
        tw = int(f["twin"][0])
        if tw >= 0:
            stats["twin_compared"] += 1
        if tw == -2:
            stats["resyncs"] += 1
        if tw == 0 and "twin" not in reported:
            reported.add("twin"); fail("sleep-enabled and sleep-disabled runs differ while no tree is asleep", k, "bit-identical qpos qvel qacc time ncon nefc qfrc_constraint xpos xquat geom_xpos geom_xmat", "different", "twin", "oracle sleep on/off")
    return pos
