"""C45 — MJX dynamics have correct gradients (the mujoco-owned derivative code proved; pipeline gradients oracle-only)."""
import json, math, os, subprocess, time
from concurrent.futures import ThreadPoolExecutor
import framework as F

META = {
    "id": "C45", "category": "proof", "design_ref": "DESIGN.md section 4, C45",
    "technique": "Coq/Coquelicot proofs over R about Gallina models of the only places where MJX defines a derivative or guards a NaN-prone point "
                 "(custom_jvp of collision_sdf._cylinder; math.safe_div / norm / normalize_with_norm); float correspondence of the same models with the "
                 "working tree's functions (values, custom gradient, jax.grad of the guarded functions); finite-difference oracle on the custom rule and "
                 "on jax gradients of mjx.forward / mjx.step (support)",
    "text": "PARTIAL (mujoco-owned derivative code, as designed).  JAX differentiates the traced program, so a gradient can disagree with finite differences only "
            "where MJX defines a derivative or creates a non-differentiable / NaN-prone point; grep finds exactly one custom rule (jax.custom_jvp on "
            "collision_sdf._cylinder) and the guarded patterns safe_div / norm / normalize_with_norm of math.py.  PROVED over R (Coquelicot): "
            "C45_cylinder_jvp: in each of the five regions where the cylinder SDF is classically differentiable (inside near the wall / near a cap, outside "
            "beside the wall / above a cap / at the rim) and none of the rule's allclose guards fires (distances above 1e-8), the custom tangent "
            "dot(_cylinder_grad(x, size), x_dot) is the derivative of the primal along x + t x_dot (local equality with the smooth branch by continuity, then the "
            "chain rule).  C45_cylinder_size_tangent_refuted: the same rule discards the tangent of `size`: at x = (1,0,0), r = 1/2, h = 1 the primal has "
            "derivative -1 in r and the rule returns 0 (KNOWN finding C45-F1: gradients with respect to the cylinder's geom_size are silently zero; the witness "
            "and a fixed replay are run on the implementation in both tiers).  C45_safe_div: for den != 0 safe_div = num/den with the usual derivatives; at den = 0 "
            "the branch JAX differentiates, num/(den + mjMINVAL), has finite value and derivatives.  C45_safe_norm: when a coordinate exceeds the allclose threshold "
            "the guarded norm is the euclidean norm around x and its directional derivative is the dot product with the gradient JAX returns (x/|x|); "
            "C45_safe_norm_zero: at is_zero the value is 0, the returned gradient is exactly (0,0,0), linalg.norm is evaluated at (1,1,1) where it is differentiable, "
            "and strictly inside the threshold box 0 is the derivative in every direction; C45_naive_norm_singular: the unguarded sqrt(t t) has no derivative at 0 "
            "(what the inner where protects).  KNOWN finding C45-F2 (consequence of the proved (0,0,0) gradient): where an argument of math.norm is exactly zero in a smooth "
            "state (angular velocity of a free/ball joint, ball joint at its spring reference) the term of the gradient through the norm is dropped; two fixed replays "
            "run in both tiers under that signature, their off-zero neighbours must agree with finite differences like every other state.  TIED: the Gallina definitions are evaluated at binary64 inside Coq and compared (2^-30) with the working tree's "
            "_cylinder, _cylinder_grad, math.norm and its jax.grad, normalize_with_norm, safe_div and its jax.grad on points of every region, guard thresholds and "
            "zeros.  ORACLE on implementation output (support, no theorem): the custom rule's tangent and jax.grad of the cylinder SDF against central finite "
            "differences of the primal; all guarded gradients finite; jax reverse- and forward-mode Jacobians of random linear probes of mjx.forward (qacc) and "
            "mjx.step (next qpos, qvel) with respect to qpos, qvel, ctrl AND every real-valued model parameter array present (body_mass, body_inertia, body_pos/quat/ipos/iquat, "
            "gravcomp, jnt_pos/axis/stiffness, qpos_spring, dof_damping/armature, actuator gain/bias/gear, tendon and site fields, opt.gravity/density/viscosity/wind/timestep) "
            "against central finite differences (entries with body_mass / body_inertia exactly 0 are kinks of the code: finiteness only); models with the fluid model, wind "
            "and gravity compensation; on smooth, contact-free states of small models "
            "(hinge/slide/ball/free joints, springs, dampers, actuators; massless welded leaf bodies carrying only a site / camera, static and below joints, "
            "whose subtree mass is 0: the guarded division of smooth.com_pos; Euler, RK4, implicitfast), 1e-3 relative, and finite everywhere.  NOT COVERED: states with contacts; geom sizes other than the cylinder size witness; the allclose bands (0 < c <= 1e-8) where the rule divides by "
            "c + 1e-12; JAX's own differentiation rules.",
    "note": "Trusted: Coq kernel + standard-library real-number axioms (Coquelicot); hand-written model Model/MjxGrad.v; Lib/FloatFn-free float run (only + - * / sqrt abs "
            "comparisons); python driver c45_mjx.py; jax/numpy and the mujoco wheel 3.13.0 as the library MJX imports.",
    "assumptions": ["theorems are over the real numbers; IEEE rounding is outside every theorem",
                    "the derivative JAX computes for a mask/where-guarded expression is the derivative of the selected branch with the mask held constant "
                    "(this is how jax.numpy.where / boolean multiplication are differentiated); the *_sel / *_grad definitions model that",
                    "float64 on the CPU (jax_enable_x64)"],
}

PY = "/venv/bin/python"
TOL = "0x1p-30"

PIPE_MODELS = [
    {"name": "pendulum_act", "tier": "quick", "xml":
     """<mujoco><option timestep="0.005" density="1.2" viscosity="0.02" wind="0.5 0.1 0"/><worldbody><body pos="0 0 1"><joint name="a" type="hinge" axis="0 1 0" damping="0.1"/>
     <geom type="capsule" fromto="0 0 0 0.3 0 0" size="0.03"/><body pos="0.3 0 0"><joint name="b" type="hinge" axis="0 1 0" stiffness="2" springref="0.2"/>
     <geom type="capsule" fromto="0 0 0 0.3 0 0" size="0.03"/>
     <body name="tool" pos="0.3 0 0" quat="0.9 0.1 0.3 0.2"><site name="tip" pos="0.02 0 0"/></body></body></body>
     <body name="fixture" pos="1 0 0"><site name="mark"/></body></worldbody>
     <actuator><motor joint="a" gear="2"/><position joint="b" kp="3"/></actuator></mujoco>""", "nq": 2, "nv": 2, "nu": 2, "quat": []},
    # parameters AT their boundary value: every dof_damping, jnt_stiffness, dof_armature, gravcomp entry exactly 0 (Euler with implicit joint damping:
    # the derivative with respect to dof_damping has an explicit part through qfrc_passive and an implicit part through M + h diag(damping))
    {"name": "undamped_euler", "tier": "quick", "fns": ["step"], "xml":
     """<mujoco><option timestep="0.01"/><worldbody><body pos="0 0 1"><joint name="a" type="hinge" axis="0 1 0"/>
     <geom type="capsule" fromto="0 0 0 0.3 0 0" size="0.03" contype="0" conaffinity="0"/><body pos="0.3 0 0"><joint name="b" type="slide" axis="1 0 0"/>
     <geom size="0.05" contype="0" conaffinity="0"/><body pos="0.1 0 0"><joint name="c" type="hinge" axis="0 0 1"/><geom type="capsule" fromto="0 0 0 0 0.2 0" size="0.02" contype="0" conaffinity="0"/></body></body></body></worldbody>
     <actuator><motor joint="b"/></actuator></mujoco>""", "nq": 3, "nv": 3, "nu": 1, "quat": []},
    {"name": "ball_slide_rk4", "tier": "thorough", "xml":
     """<mujoco><option timestep="0.004" integrator="RK4" density="1000" viscosity="0.001"/><worldbody><body pos="0 0 1" gravcomp="0.5"><joint name="bj" type="ball" damping="0.05"/>
     <geom type="capsule" fromto="0 0 0 0.3 0 0" size="0.03"/><body pos="0.3 0 0"><joint name="s" type="slide" axis="1 0 0" stiffness="30" damping="0.5"/>
     <geom size="0.05"/></body></body></worldbody><actuator><motor joint="s"/></actuator></mujoco>""", "nq": 5, "nv": 4, "nu": 1, "quat": [0]},
    {"name": "free_hinge_implicitfast", "tier": "thorough", "xml":
     """<mujoco><option timestep="0.004" integrator="implicitfast"/><worldbody><body pos="0 0 2"><freejoint/><geom type="capsule" size="0.05 0.15"/>
     <body pos="0.2 0 0"><joint name="h" type="hinge" axis="0 1 0" damping="0.2" armature="0.01"/><geom size="0.06" pos="0.1 0 0"/>
       <body name="camframe" pos="0.1 0 0.05"><camera name="eye"/><body name="tip2" pos="0 0 0.1"><site name="s2"/></body></body></body></body></worldbody>
     <actuator><motor joint="h" gear="0.5"/></actuator></mujoco>""", "nq": 8, "nv": 7, "nu": 1, "quat": [3]},
]

# fixed replays of KNOWN finding C45-F2 (both tiers): states in which an argument of math.norm is EXACTLY zero (angular velocity of a free body at
# rest in zero gravity; ball joint at its spring reference).  The second state of each job is the same configuration moved off the zero: there AD
# must agree with finite differences like everywhere else.
KNOWN_F2 = [
    {"name": "free_body_at_rest", "fn": "step", "xml": "<mujoco><option timestep='0.01' gravity='0 0 0'/><worldbody><body pos='0 0 1'><freejoint/>"
     "<geom type='capsule' size='0.05 0.15'/></body></worldbody></mujoco>",
     "states": [{"qpos": [0, 0, 1, 1, 0, 0, 0], "qvel": [0, 0, 0, 0, 0, 0], "ctrl": []}, {"qpos": [0, 0, 1, 1, 0, 0, 0], "qvel": [0, 0, 0, 1e-3, 0, 0], "ctrl": []}]},
    {"name": "ball_spring_at_reference", "fn": "forward", "xml": "<mujoco><option timestep='0.01' gravity='0 0 -9.81'/><worldbody><body pos='0 0 1'>"
     "<joint name='b' type='ball' stiffness='5' damping='0.1'/><geom type='capsule' fromto='0 0 0 0.3 0 0' size='0.03'/></body></worldbody></mujoco>",
     "states": [{"qpos": [1, 0, 0, 0], "qvel": [0.0, 0.0, 0.0], "ctrl": []}, {"qpos": [0.9999875, 0.005, 0, 0], "qvel": [0.0, 0.0, 0.0], "ctrl": []}]},
]

COQ_PRE = ("Definition g (l : list float) (i : nat) : float := nth i l 0%%float.\n"
           "Definition tol : float := %s%%float.\n"
           "Definition t3 (p : float * float * float) : list float := let '(a, b, c) := p in [a; b; c].\n"
           "Definition t4 (p : float * float * float * float) : list float := let '(a, b, c, d) := p in [a; b; c; d].\n"
           "(* cylinder: a = x0 x1 x2 r h v0 v1 v2; out = primal, grad0..2, jvp_x *)\n"
           "Definition chk_cyl (a out : list float) : bool :=\n"
           "  fclose_list tol (cyl (g a 0) (g a 1) (g a 2) (g a 3) (g a 4) :: t3 (cyl_grad (g a 0) (g a 1) (g a 2) (g a 3) (g a 4)) ++\n"
           "                   [cyl_jvp (g a 0) (g a 1) (g a 2) (g a 3) (g a 4) (g a 5) (g a 6) (g a 7) 0 0]) out.\n"
           "(* guards: a = x0 x1 x2; out = norm, dnorm 3, normalized 3, norm2, safe_div(x0, x1), d/dnum, d/dden *)\n"
           "Definition chk_guard (a out : list float) : bool :=\n"
           "  let x0 := g a 0 in let x1 := g a 1 in let x2 := g a 2 in\n"
           "  let m := neqb x1 0%%float in\n"
           "  let dd := (x1 + ndec 1%%Z (-15)%%Z * (if m then 1 else 0))%%float in\n"
           "  fclose_list tol ([safe_norm3 x0 x1 x2] ++ t3 (safe_norm3_grad x0 x1 x2) ++ t4 (normalize3_with_norm x0 x1 x2) ++\n"
           "                   [safe_div x0 x1; (1 / dd)%%float; (- x0 / (dd * dd))%%float]) out.\n"
           "Definition chk (c : Z * list float * list float) : bool := let '(k, a, out) := c in if (k =? 0)%%Z then chk_cyl a out else chk_guard a out.\n" % TOL)
COQ_IMPORTS = ("From Coq Require Import ZArith List Bool PrimFloat.\nImport ListNotations.\nFrom MJV Require Import Lib.Num Lib.NumF Model.MjxGrad.\n"
               "Open Scope float_scope.")

# fixed corpus (both tiers): the replay of KNOWN finding C45-F1 first, then one point per region, the axis, guard thresholds
FIXED_CYL = [[0.7, 0.1, 0.1, 0.5, 0.2, 1.0, 0.5, -0.3],       # outside beside the wall: d/d radius = -1, rule returns 0 (C45-F1)
             [1.0, 0.0, 0.0, 0.5, 1.0, 0.3, 0.2, 0.1],        # the Coq witness of C45_cylinder_size_tangent_refuted
             [0.45, 0.0, 0.01, 0.5, 0.2, 1.0, 0.5, -0.3],     # inside near the wall
             [0.3, 0.1, 0.05, 0.5, 0.2, 1.0, 0.5, -0.3],      # inside near a cap
             [0.1, 0.1, 0.4, 0.5, 0.2, 1.0, 0.5, -0.3],       # outside above a cap
             [0.6, 0.2, -0.4, 0.5, 0.2, 1.0, 0.5, -0.3],      # rim
             [0.0, 0.0, 0.05, 0.5, 0.2, 1.0, 0.5, -0.3],      # on the axis (guard c ~ 0 fires; branch does not use it)
             [0.0, 0.0, 0.0, 0.5, 0.2, 1.0, 0.5, -0.3],       # centre (both guards)
             [0.5, 0.0, 0.2, 0.5, 0.2, 0.0, 0.0, 1.0]]        # exactly on the rim: bnorm = 0 guard
FIXED_GUARD = [[0.3, -0.4, 1.2], [0.0, 0.0, 0.0], [1e-9, 0.0, 0.0], [2.0, 0.0, 1.0], [1e-7, 2e-7, 0.0], [5e-9, -5e-9, 9e-9], [-3.0, 1e-140, 0.0], [0.0, 1.0, 0.0]]


def scan_custom_rules(repo):
    """every place under mjx/_src (tests excluded) that defines or suppresses a derivative: {(file, kind, name)}"""
    import ast, glob
    found = set()
    for path in sorted(glob.glob(os.path.join(repo, "mjx", "mujoco", "mjx", "_src", "*.py"))):
        base = os.path.basename(path)
        if base.endswith("_test.py") or base == "test_util.py":
            continue
        try:
            tree = ast.parse(open(path).read())
        except SyntaxError:
            found.add((base, "unparsable", ""))
            continue
        for node in ast.walk(tree):
            if isinstance(node, ast.Attribute) and node.attr in ("custom_jvp", "custom_vjp", "defjvp", "defvjp", "defjvps", "stop_gradient", "custom_gradient"):
                owner = ast.unparse(node.value)
                found.add((base, node.attr, owner))
            if isinstance(node, ast.Name) and node.id in ("custom_jvp", "custom_vjp", "stop_gradient"):
                found.add((base, node.id, ""))
    return found


EXPECTED_RULES = {("collision_sdf.py", "custom_jvp", "jax"), ("collision_sdf.py", "defjvp", "_cylinder")}


def run_mjx(ctx, jobs, timeout):
    drv = os.path.join(F.VERIF, "harness", "drivers", "c45_mjx.py")
    env = dict(os.environ, JAX_PLATFORMS="cpu")
    import time as _time
    for attempt in range(3):
        try:
            r = subprocess.run([PY, drv, ctx.repo], input=json.dumps({"jobs": jobs}), capture_output=True, text=True, timeout=timeout, env=env)
        except subprocess.TimeoutExpired:
            return None, "timeout after %ds" % timeout
        # XLA/LLVM aborts when the machine is momentarily out of memory for its JIT sections: environment, not an answer
        if r.returncode != 0 and "Cannot allocate memory" in r.stderr and attempt < 2:
            _time.sleep(30 * (attempt + 1))
            continue
        break
    if r.returncode != 0:
        return None, "rc=%d %s" % (r.returncode, r.stderr[-1500:])
    try:
        return json.loads(r.stdout)["jobs"], ""
    except (ValueError, KeyError):
        return None, "unparsable output: " + r.stdout[-300:] + r.stderr[-500:]


def num(x):
    if isinstance(x, str):
        return {"nan": math.nan, "inf": math.inf, "-inf": -math.inf}[x]
    return float(x)


def region(a):
    x0, x1, x2, r, h = a[:5]
    c, e = math.hypot(x0, x1), abs(x2)
    a0, a1 = c - r, e - h
    m = 1e-3          # stay away from the non-differentiable boundaries and from the guards for the FD oracle
    if abs(a0) < m or abs(a1) < m or abs(a0 - a1) < m and max(a0, a1) < 0:
        return "boundary"
    if max(a0, a1) < 0:
        return "in_radial" if a0 > a1 else "in_axial"
    if a0 > 0 and a1 > 0:
        return "rim"
    return "out_radial" if a0 > 0 else "out_axial"


def smooth_for_fd(a):
    x0, x1, x2, r, h = a[:5]
    c, e = math.hypot(x0, x1), abs(x2)
    reg = region(a)
    if reg == "boundary":
        return False
    if reg in ("in_radial", "out_radial", "rim") and c < 1e-3:
        return False
    if reg in ("in_axial", "out_axial", "rim") and e < 1e-3:
        return False
    return True


def rand_state(rng, model, k):
    q = [rng.uniform(-0.6, 0.6) for _ in range(model["nq"])]
    for a in model["quat"]:
        w = [rng.gauss(0, 1) for _ in range(4)]
        n = math.sqrt(sum(x * x for x in w))
        q[a:a + 4] = [x / n for x in w]
    if model["name"].startswith("free"):
        q[2] += 2.0
    return {"qpos": q, "qvel": [rng.uniform(-1, 1) for _ in range(model["nv"])], "ctrl": [rng.uniform(-1, 1) for _ in range(model["nu"])]}


def run(ctx):
    rng = ctx.rng
    quick = ctx.tier == "quick"
    tm = ctx.cov["support"].setdefault("timing_s", {})
    t_last = [time.time()]

    def lap(label):
        now = time.time()
        tm[label] = round(now - t_last[0], 1)
        t_last[0] = now

    rules = scan_custom_rules(ctx.repo)
    ctx.cov["support"]["derivative_rules_in_mjx_src"] = sorted("%s:%s(%s)" % r for r in rules)
    if rules != EXPECTED_RULES:
        ctx.broken.append(("correspondence", "the set of custom derivative rules under mjx/_src changed",
                           "modelled: %s; found: %s" % (sorted(EXPECTED_RULES), sorted(rules))))
    targets = ["Lib/Num.vo", "Lib/NumF.vo", "Lib/NumR.vo", "Model/MjxGrad.vo"]
    pool = ThreadPoolExecutor(max_workers=6)
    fut_props = pool.submit(ctx.coq_props, F.STD_AXIOMS, None, targets)

    # ------------------------------------------------------------------ inputs
    cyl = [list(a) for a in FIXED_CYL]
    for _ in range(60 if quick else 1500):
        r, h = rng.uniform(0.1, 0.8), rng.uniform(0.1, 0.8)
        kind = rng.randrange(6)
        if kind == 0:       # anywhere
            x = [rng.uniform(-1.5, 1.5) for _ in range(3)]
        elif kind == 1:     # near the axis
            x = [rng.uniform(-1e-4, 1e-4), rng.uniform(-1e-4, 1e-4), rng.uniform(-1.2, 1.2)]
        elif kind == 2:     # near the mid plane
            x = [rng.uniform(-1.2, 1.2), rng.uniform(-1.2, 1.2), rng.uniform(-1e-4, 1e-4)]
        elif kind == 3:     # near the surface
            t = rng.uniform(0, 6.283)
            x = [(r + rng.uniform(-0.02, 0.02)) * math.cos(t), (r + rng.uniform(-0.02, 0.02)) * math.sin(t), rng.uniform(-1.2, 1.2) * h]
        elif kind == 4:     # near a cap
            x = [rng.uniform(-1, 1) * r, rng.uniform(-1, 1) * r, rng.choice([-1, 1]) * (h + rng.uniform(-0.02, 0.02))]
        else:               # near the rim
            t = rng.uniform(0, 6.283)
            x = [(r + rng.uniform(-0.05, 0.1)) * math.cos(t), (r + rng.uniform(-0.05, 0.1)) * math.sin(t), rng.choice([-1, 1]) * (h + rng.uniform(-0.05, 0.1))]
        cyl.append(x + [r, h] + [rng.uniform(-1, 1) for _ in range(3)])
    guards = [list(a) for a in FIXED_GUARD]
    for _ in range(40 if quick else 800):
        s = rng.choice([1.0, 1e-3, 1e-7, 1e-8, 3e-9, 1e-12, 0.0])
        v = [rng.uniform(-1, 1) * s * rng.choice([0, 1, 1]) for _ in range(3)]
        if rng.random() < 0.2:
            v[1] = 0.0
        guards.append(v)
    pjobs = []
    pmeta = []
    for mo in PIPE_MODELS:
        if quick and mo["tier"] != "quick":
            continue
        for fn in mo.get("fns", ("forward", "step")):
            states = [rand_state(rng, mo, k) for k in range(2 if quick else 3)]
            pjobs.append({"op": "pipeline", "xml": mo["xml"], "fn": fn, "nprobe": 2 if quick else 3, "seed": rng.randrange(1 << 30), "states": states, "params": True})
            pmeta.append((mo, fn, states))
    for kf in KNOWN_F2:
        pjobs.append({"op": "pipeline", "xml": kf["xml"], "fn": kf["fn"], "nprobe": 3, "seed": 3, "states": kf["states"]})
        pmeta.append(({"name": kf["name"], "xml": kf["xml"], "zero_norm_state": 0}, kf["fn"], kf["states"]))
    fk = pool.submit(run_mjx, ctx, [{"op": "cyl", "cases": cyl}, {"op": "guards", "cases": guards}], 900)
    nhalf = (len(pjobs) + 1) // 2
    fps = [pool.submit(run_mjx, ctx, pjobs[:nhalf], 3000), pool.submit(run_mjx, ctx, pjobs[nhalf:], 3000)] if len(pjobs) > 2 else \
          [pool.submit(run_mjx, ctx, pjobs, 1500)]
    kres, kerr = fk.result()
    lap("mjx_kernels")
    props_ok = fut_props.result()
    if not props_ok:
        F.coq_make(targets)
    lap("coq_props_wait")
    if kres is None or any("error" in r for r in kres):
        ctx.broken.append(("correspondence", "driver c45_mjx.py (kernels) failed", kerr or json.dumps(kres)[:1200]))
        return
    co = [[num(x) for x in row] for row in kres[0]["out"]]
    go = [[num(x) for x in row] for row in kres[1]["out"]]

    # ------------------------------------------------------------------ oracle on implementation output: custom rule vs finite differences
    stats = {"cyl_fd_x": 0, "cyl_fd_size": 0, "cyl_jaxgrad_eq_rule": 0, "guards_finite": 0, "regions": {}}
    nfin = 0
    for a, o in zip(cyl, co):
        primal, grad, jvpx, jr, jh, jg, fdx, fdr, fdh = o[0], o[1:4], o[4], o[5], o[6], o[7:10], o[10], o[11], o[12]
        reg = region(a)
        stats["regions"][reg] = stats["regions"].get(reg, 0) + 1
        if any(x != x or abs(x) == math.inf for x in o[:10]):
            ctx.violation("impl_violation", {"op": "_cylinder / _cylinder_grad", "x_size_v": a}, expected="finite primal, gradient and tangents", observed=o[:10],
                          theorem="C45_cylinder_jvp", signature={"site": "mjx collision_sdf._cylinder", "class": "non-finite"})
            nfin += 1
            continue
        if max(abs(p - q) for p, q in zip(grad, jg)) > 1e-12 * (1 + max(abs(x) for x in grad)):
            ctx.violation("impl_violation", {"op": "jax.grad(_cylinder)", "x_size_v": a}, expected="jax.grad uses the custom rule: " + str(grad), observed=jg,
                          theorem="C45_cylinder_jvp", signature={"site": "mjx collision_sdf._cylinder", "class": "rule-not-used"})
        stats["cyl_jaxgrad_eq_rule"] += 1
        if smooth_for_fd(a):
            stats["cyl_fd_x"] += 1
            if abs(jvpx - fdx) > 1e-5 * (1 + abs(fdx)):
                ctx.violation("impl_violation", {"op": "cylinder_jvp (tangent of pos)", "x_size_v": a, "region": reg},
                              expected="central finite difference of the primal along v: %r" % fdx, observed=jvpx, theorem="C45_cylinder_jvp",
                              signature={"site": "mjx collision_sdf._cylinder", "class": "pos-tangent"})
            # size tangent: the primal depends on the size (fd = -1 beside the wall / above a cap), the rule returns 0 -> KNOWN finding C45-F1
            stats["cyl_fd_size"] += 1
            if abs(jr - fdr) > 1e-5 * (1 + abs(fdr)) or abs(jh - fdh) > 1e-5 * (1 + abs(fdh)):
                ctx.violation("impl_violation", {"op": "cylinder_jvp (tangent of size)", "x_size_v": a, "region": reg},
                              expected="central finite differences of the primal in radius / half-length: %r, %r" % (fdr, fdh),
                              observed={"jvp_radius": jr, "jvp_halflength": jh}, theorem="C45_cylinder_size_tangent_refuted",
                              signature={"site": "mjx collision_sdf._cylinder", "class": "size-tangent-dropped"})
    for a, o in zip(guards, go):
        stats["guards_finite"] += 1
        if any(x != x or abs(x) == math.inf for x in o):
            ctx.violation("impl_violation", {"op": "math.norm / normalize_with_norm / safe_div and their jax gradients", "x": a},
                          expected="finite values and gradients (guarded patterns)", observed=["%r" % x for x in o], theorem="C45_safe_norm_zero",
                          signature={"site": "mjx math guards", "class": "non-finite"})
    lap("oracle_kernels")

    # ------------------------------------------------------------------ correspondence with the Gallina model (float run)
    lits, back = [], []
    for a, o in zip(cyl, co):
        if any(x != x or abs(x) == math.inf for x in o[:5]):
            continue
        lits.append("(0%%Z, %s, %s)" % (F.flist(a), F.flist(o[:5])))
        back.append(("cyl", a, o[:5]))
    for a, o in zip(guards, go):
        sel = o[0:8] + o[17:20]
        if any(x != x or abs(x) == math.inf for x in sel):
            continue
        lits.append("(1%%Z, %s, %s)" % (F.flist(a), F.flist(sel)))
        back.append(("guards", a, sel))
    fails = ctx.coq_eval("c45", COQ_IMPORTS, lits, "chk", pre=COQ_PRE, shard=250, timeout=900)
    seen = set()
    for i in fails:
        kind, a, o = back[i]
        key = (kind, region(a) if kind == "cyl" else "")
        if key in seen:
            continue
        seen.add(key)
        ctx.violation("correspondence", {"op": kind, "args": a}, expected="Model/MjxGrad.v at binary64 (2^-30 scaled)", observed=o, found_input=False,
                      theorem="correspondence c45 " + kind, signature={"site": "mjx " + kind, "class": "model"},
                      note="the working tree's function and the Gallina model disagree on this input; the finite-difference oracle did not flag it")
    lap("coq_eval")

    # ------------------------------------------------------------------ pipeline gradients (support)
    pres = []
    perr = ""
    for f in fps:
        r, e = f.result()
        if r is None:
            perr = e
            pres = None
            break
        pres += r
    lap("mjx_pipeline_wait")
    pfields = set()
    pstats = {"jacobians": 0, "entries": 0, "worst_rev_vs_fd": 0.0, "worst_fwd_vs_rev": 0.0, "skipped": []}
    if pres is None:
        ctx.broken.append(("oracle", "driver c45_mjx.py (pipeline) failed", perr))
    else:
        for (mo, fn, states), r in zip(pmeta, pres):
            if "notimpl" in r or "error" in r:
                pstats["skipped"].append("%s %s: %s" % (mo["name"], fn, (r.get("notimpl") or r.get("error"))[:80]))
                if "error" in r:
                    ctx.broken.append(("oracle", "gradient of mjx.%s could not be computed on %s" % (fn, mo["name"]), r["error"] + r.get("trace", "")[-600:]))
                continue
            for si, (s, rs) in enumerate(zip(states, r["states"])):
                for ai, arg in enumerate(("qpos", "qvel", "ctrl")):
                    rev = [[num(x) for x in row] for row in rs["rev"][ai]]
                    fwd = [[num(x) for x in row] for row in rs["fwd"][ai]]
                    fd = [[num(x) for x in row] for row in rs["fd"][ai]]
                    flat = [x for row in rev for x in row]
                    if not flat:
                        continue
                    pstats["jacobians"] += 1
                    pstats["entries"] += len(flat)
                    scale = 1 + max(abs(x) for row in fd for x in row)
                    bad = None
                    if any(x != x or abs(x) == math.inf for x in flat + [x for row in fwd for x in row]):
                        bad = ("non-finite gradient entries", "finite", "nan/inf present")
                    else:
                        d1 = max(abs(a - b) for ra, rb in zip(rev, fd) for a, b in zip(ra, rb)) / scale
                        d2 = max(abs(a - b) for ra, rb in zip(rev, fwd) for a, b in zip(ra, rb)) / scale
                        pstats["worst_fwd_vs_rev"] = max(pstats["worst_fwd_vs_rev"], d2)
                        if mo.get("zero_norm_state") != si:
                            pstats["worst_rev_vs_fd"] = max(pstats["worst_rev_vs_fd"], d1)
                        if mo.get("zero_norm_state") == si:
                            # exactly-zero norm argument: KNOWN finding C45-F2 when (and only when) the finite gradient disagrees with FD
                            pstats["known_f2_replays"] = pstats.get("known_f2_replays", 0) + 1
                            if d1 > 1e-5:
                                ctx.violation("impl_violation", {"model": mo["name"], "mjcf": mo["xml"], "fn": "mjx." + fn, "wrt": arg, "state": s},
                                              expected="jax.jacrev equals central finite differences (relative 1e-5)", observed="relative difference %.3g" % d1,
                                              theorem="C45_safe_norm_zero", signature={"site": "mjx math.norm", "class": "zero-argument-gradient-dropped"},
                                              note="fixed replay: an argument of math.norm is exactly zero in this state; the gradient is finite but the term through the norm is dropped")
                            continue
                        if d1 > 1e-3:
                            bad = ("jax.jacrev vs central finite differences", "relative difference <= 1e-3", d1)
                        elif d2 > 1e-7:
                            bad = ("jax.jacfwd vs jax.jacrev", "relative difference <= 1e-7", d2)
                    if bad:
                        ctx.violation("impl_violation", {"model": mo["name"], "mjcf": mo["xml"], "fn": "mjx." + fn, "wrt": arg, "state": s},
                                      expected=bad[1], observed="%s: %s" % (bad[0], bad[2]), theorem=None,
                                      signature={"site": "mjx." + fn + " gradient", "wrt": arg},
                                      note="support oracle: jax gradient of a random linear probe of the outputs on a smooth contact-free state")
                # real-valued model parameters: every entry finite; AD = FD at every entry that is not on a kink of the code
                # (body_mass / body_inertia exactly 0: masks `mass > 0`, maximum(mass, eps) and clip(.., min) switch there)
                for pname, pv in (rs.get("params") or {}).items():
                    pfields.add(pname)
                    vals = pv["value"]
                    rev = [[num(x) for x in row] for row in pv["rev"]]
                    fwd = [[num(x) for x in row] for row in pv["fwd"]]
                    fd = [[num(x) for x in row] for row in pv["fd"]]
                    pstats["jacobians"] += 1
                    pstats["entries"] += len(vals) * len(rev)
                    pstats["param_entries"] = pstats.get("param_entries", 0) + len(vals) * len(rev)
                    kink = [pname in ("body_mass", "body_inertia") and vals[k] == 0.0 for k in range(len(vals))]
                    bad = None
                    nf = [(r_, k) for r_ in range(len(rev)) for k in range(len(vals))
                          if rev[r_][k] != rev[r_][k] or abs(rev[r_][k]) == math.inf or fwd[r_][k] != fwd[r_][k] or abs(fwd[r_][k]) == math.inf]
                    if nf:
                        bad = ("non-finite gradient entries at indices %s" % [k for _, k in nf][:8], "finite", "nan/inf present")
                    else:
                        scale = 1 + max(abs(x) for row in fd for x in row)
                        d1 = max([abs(rev[r_][k] - fd[r_][k]) for r_ in range(len(rev)) for k in range(len(vals)) if not kink[k]] + [0.0]) / scale
                        d2 = max(abs(a - b) for ra, rb in zip(rev, fwd) for a, b in zip(ra, rb)) / scale
                        pstats["worst_param_rev_vs_fd"] = max(pstats.get("worst_param_rev_vs_fd", 0.0), d1)
                        if d1 > 1e-3:
                            bad = ("jax.jacrev vs central finite differences", "relative difference <= 1e-3", d1)
                        elif d2 > 1e-7:
                            bad = ("jax.jacfwd vs jax.jacrev", "relative difference <= 1e-7", d2)
                    if bad:
                        ctx.violation("impl_violation", {"model": mo["name"], "mjcf": mo["xml"], "fn": "mjx." + fn, "wrt": "model." + pname, "state": s,
                                                         "parameter_values": vals},
                                      expected=bad[1], observed="%s: %s" % (bad[0], bad[2]), theorem=None,
                                      signature={"site": "mjx." + fn + " gradient", "wrt": "model." + pname},
                                      note="support oracle: jax gradient with respect to a real-valued model parameter on a smooth contact-free state")
    pstats["param_fields"] = sorted(pfields)
    pstats["worst_rev_vs_fd"] = float("%.3g" % pstats["worst_rev_vs_fd"])
    pstats["worst_fwd_vs_rev"] = float("%.3g" % pstats["worst_fwd_vs_rev"])
    sup = ctx.cov["support"]
    sup["kernel_oracle"] = stats
    sup["pipeline_gradient_oracle"] = pstats
    ctx.cov["evaluations"] = len(cyl) + len(guards) + pstats["jacobians"]
    ctx.cov["distinct_nontrivial"] = sum(v for k, v in stats["regions"].items() if k != "boundary") + pstats["jacobians"]
    ctx.cov["rule"] = ("cylinder SDF: fixed corpus (finding replay, one point per region, axis, centre, rim) + random points anywhere / near the axis / mid plane / "
                       "surface / caps / rim with random tangents; guards: fixed corpus + random vectors at scales 1 .. 1e-12 and exact zeros; pipeline: random smooth "
                       "contact-free states, random linear probes; non-trivial = cylinder cases away from region boundaries + Jacobians compared")
    ctx.cov["samples"] = [{"cyl": cyl[0]}, {"guard": guards[2]}, {"pipeline": pmeta[0][0]["name"] if pmeta else None}]
    ctx.cov["correspondence_disagreements"] = len(fails)
    ctx.cov["explanation"] = ("6 theorems on the custom jvp and the guarded patterns; model tied to the working tree's functions on %d cylinder and %d guard cases; "
                              "finite-difference oracle: %d cylinder tangents, %d pipeline Jacobians (%d entries), worst rev-vs-FD %.2g" %
                              (len(cyl), len(guards), stats["cyl_fd_x"], pstats["jacobians"], pstats["entries"], pstats["worst_rev_vs_fd"]))
