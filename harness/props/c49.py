"""C49 — Python introspection metadata matches the C headers."""
import json, os, re, subprocess
import framework as F

META = {
    "id": "C49", "category": "proof", "design_ref": "DESIGN.md section 4, C49",
    "technique": "Coq proof (induction over the type AST, parser run on the printed string) of a hand-written model of "
                 "ast_nodes.py/type_parsing.py + exact correspondence Python vs model in both directions + "
                 "compiler-checked translation validation of the whole metadata against include/mujoco",
    "text": "Clause 'parsing a declared C type string and printing it back yields an equivalent declaration': PROVED of the Coq model "
            "Model/CType.v (type AST with qualifiers, printer decl, parser parse_type with paren peeling, right-to-left pointer "
            "parsing, array extents, ValueType name validation) for ALL ASTs of the printable fragment, of any depth: C49_parse_decl "
            "(parse_type (decl t) = Some t whenever wf t: no nullable flag, array element not an array, extents non-empty, value names "
            "valid for ValueType and in the normal form the parser returns) and C49_decl_parse_image (for every string s in the image of "
            "decl on the fragment, parsing succeeds and decl (parse_type s) = s exactly, hence whitespace-equivalent); C49_special for the "
            "one special-cased function-pointer spelling; Examples show real metadata types are in the fragment and that each wf "
            "condition is needed. NOT proved: that every string the parser accepts (e.g. clang spellings with other spacing) yields an AST "
            "of the fragment - this is observed only (python and gcc oracles below). The model is tied to the working tree's Python code by "
            "exact comparison (inside Coq, vm_compute) on every type node of structs.py/functions.py, on exhaustive small and random ASTs "
            "inside and outside the fragment (printer, decl with a name, ValueType validity, parser on the printed string) and on clang's "
            "spellings of every declared type plus whitespace/garbage mutations of them (parser incl. error/None behaviour); ASCII only. "
            "Clause 'metadata agrees with the headers as the compiler sees them': NOT a theorem - a complete finite comparison "
            "(translation-validation style support): a C file of _Static_asserts generated from the working tree's structs.py / "
            "enums.py / functions.py with the implementation's own printers (typedef/tag identity, type of every field via "
            "__builtin_types_compatible_p on pointers to the field, sizeof, offsetof against a mirror struct printed from the metadata, "
            "every enum constant value, every function type + prototype re-declaration) is compiled with gcc against "
            "<tree>/include; field/enum-constant completeness and order are compared with an independent walk of clang's JSON AST. "
            "The ellipsis of the 3 variadic functions (mju_error, mju_warning, mju_info) is not representable in FunctionDecl; they "
            "are compared modulo the ellipsis and listed in the evidence. Parameter names and doc strings are not compared. gcc also "
            "serves as independent oracle for printer and parser: decl(t) must denote the type built structurally by a typedef chain, and "
            "s, the type built from parse_type(s) and decl(parse_type(s)) must be compatible types.",
    "note": "Trusted: Coq kernel; hand-written model Model/CType.v (Python str -> list of ASCII chars, exceptions -> None, regexes "
            "replaced by equivalent deterministic scanners, int() restricted to ASCII digits); correspondence harness; gcc 12 and "
            "clang 14 as 'the C compiler'; x86-64 layout for sizeof/offsetof.",
    "assumptions": ["ASCII type strings", "tie of model to python code is differential testing on the cases of this run",
                    "header agreement is a finite complete comparison for this tree and this target ABI, not a theorem"],
}

HERE = os.path.dirname(os.path.abspath(__file__))
DRIVER = os.path.join(os.path.dirname(HERE), "drivers", "c49_introspect.py")
PY = "/venv/bin/python"
SPECIAL = "void *(*)(void *)"
C_INVALID = {'auto', 'break', 'case', 'const', 'continue', 'default', 'do', 'else', 'enum', 'extern', 'for', 'goto', 'if',
             'inline', 'register', 'restrict', 'return', 'sizeof', 'static', 'struct', 'switch', 'typedef', 'union', 'volatile',
             'while', '_Alignas', '_Atomic', '_Generic', '_Imaginary', '_Noreturn', '_Static_assert', '_Thread_local',
             '__attribute__', '_Pragma'}


# ------------------------------------------------------------------ AST helpers (harness side, independent of the repo code)
def V(name, c=False, v=False, n=False):
    return {"k": "V", "name": name, "c": c, "v": v, "n": n}


def P(inner, c=False, v=False, r=False, n=False):
    return {"k": "P", "inner": inner, "n": n, "c": c, "v": v, "r": r}


def A(inner, ext):
    return {"k": "A", "inner": inner, "ext": list(ext)}


def h_wf_name(n):
    """harness's own statement of the value names that survive a round trip"""
    words = n.split(" ")
    if not all(re.fullmatch(r"[A-Za-z_][A-Za-z0-9_]*", w) for w in words):
        return False
    if any(w in ("const", "volatile") for w in words) or n in C_INVALID:
        return False
    if len(words) == 1 or (len(words) == 2 and words[0] == "struct"):
        return True
    kw = ('signed', 'unsigned', 'short', 'long', 'int', 'char')
    cnt = {k: words.count(k) for k in kw}
    wild = sum(1 for w in words if w not in kw)
    return not (cnt['signed'] + cnt['unsigned'] > 1 or cnt['short'] > 1 or cnt['long'] > 2 or (cnt['short'] and cnt['long'])
                or ((cnt['short'] or cnt['long']) and cnt['char']) or cnt['char'] + cnt['int'] + wild > 1)


def h_wf(t):
    if t["k"] == "V":
        return h_wf_name(t["name"]) and not t["n"]
    if t["k"] == "A":
        return t["inner"]["k"] != "A" and len(t["ext"]) > 0 and h_wf(t["inner"])
    return not t["n"] and h_wf(t["inner"])


def codes(s):
    return "[" + ";".join(str(ord(ch)) for ch in s) + "]"


def cb(b):
    return "true" if b else "false"


def coq_ast(t):
    if t["k"] == "V":
        return "(TValue (S_ %s) %s %s %s)" % (codes(t["name"]), cb(t["c"]), cb(t["v"]), cb(t["n"]))
    if t["k"] == "A":
        return "(TArray %s %s)" % (coq_ast(t["inner"]), F.zlist(t["ext"]))
    return "(TPointer %s %s %s %s %s)" % (coq_ast(t["inner"]), cb(t["n"]), cb(t["c"]), cb(t["v"]), cb(t["r"]))


def coq_opt_ast(r):
    return "None" if (r is None or "error" in r) else "(Some %s)" % coq_ast(r)


def ascii_ok(s):
    return all(ord(ch) < 128 for ch in s)


def ast_ascii(t):
    return ascii_ok(t["name"]) if t["k"] == "V" else ast_ascii(t["inner"])


def ast_size(t):
    return 1 if t["k"] == "V" else 1 + ast_size(t["inner"])


def c_valid(t, names):
    """can the AST be built structurally in C with a typedef chain"""
    if t["k"] == "V":
        return t["name"] in names and not t["n"]
    if t["k"] == "A":
        return len(t["ext"]) > 0 and all(0 < e < 1000 for e in t["ext"]) and c_valid(t["inner"], names)
    return not t["n"] and c_valid(t["inner"], names)


def typedef_chain(t, pfx):
    """C typedefs that build the type of t structurally (no declarator syntax); returns (lines, final name)"""
    if t["k"] == "V":
        q = ("const " if t["c"] else "") + ("volatile " if t["v"] else "")
        return ["typedef %s%s %s_0;" % (q, t["name"], pfx)], pfx + "_0", 0
    lines, nm, k = typedef_chain(t["inner"], pfx)
    new = "%s_%d" % (pfx, k + 1)
    if t["k"] == "A":
        lines.append("typedef %s %s%s;" % (nm, new, "".join("[%d]" % e for e in t["ext"])))
    else:
        q = (" const" if t["c"] else "") + (" volatile" if t["v"] else "") + (" restrict" if t["r"] else "")
        lines.append("typedef %s *%s %s;" % (nm, q, new))
    return lines, new, k + 1


# ------------------------------------------------------------------ header side: independent walk of clang's JSON AST
def clang_header_facts(ctx):
    inc = os.path.join(ctx.repo, "include")
    r = subprocess.run(["clang", "-Xclang", "-ast-dump=json", "-fsyntax-only", "-x", "c", "-I", inc,
                        os.path.join(inc, "mujoco", "mujoco.h")], capture_output=True, text=True, timeout=300)
    if r.returncode != 0:
        ctx.broken.append(("build", "clang cannot parse include/mujoco/mujoco.h of the working tree", r.stderr[-1500:]))
        return None
    tu = json.loads(r.stdout)
    records, enums, typedefs, funcs, spellings = {}, {}, {}, {}, set()

    def rec_fields(node):
        out = []
        last_anon = None
        for ch in node.get("inner", []):
            k = ch.get("kind")
            if k == "RecordDecl":
                if "name" not in ch:
                    last_anon = ch
            elif k == "FieldDecl":
                qt = ch["type"]["qualType"]
                anon = ("unnamed" in qt or "anonymous" in qt)
                if anon and last_anon is not None:
                    sub = rec_fields(last_anon)
                    if "name" in ch:
                        out.append(ch["name"])
                        out += [ch["name"] + "." + p for p in sub]
                    else:
                        out += sub
                else:
                    out.append(ch["name"])
                    spellings.add(qt)
        return out

    def visit(n):
        k = n.get("kind")
        nm = n.get("name", "")
        if k == "RecordDecl" and nm.startswith("mj") and n.get("completeDefinition"):
            records[n.get("tagUsed", "struct") + " " + nm] = rec_fields(n)
        elif k == "EnumDecl" and nm.startswith("mj"):
            enums["enum " + nm] = [c["name"] for c in n.get("inner", []) if c.get("kind") == "EnumConstantDecl"]
        elif k == "TypedefDecl" and nm.startswith("mj"):
            typedefs[nm] = n["type"]["qualType"]
        elif k == "FunctionDecl" and nm.startswith("mj"):
            qt = n["type"]["qualType"]
            funcs[nm] = {"variadic": bool(n.get("variadic")), "type": qt}
            spellings.add(qt[:qt.find("(")])
            for c in n.get("inner", []):
                if c.get("kind") == "ParmVarDecl":
                    spellings.add(c["type"]["qualType"])
    for n in tu.get("inner", []):
        visit(n)
    return {"records": records, "enums": enums, "typedefs": typedefs, "funcs": funcs, "spellings": sorted(spellings)}


# ------------------------------------------------------------------ case generation
NAMES_C = ["int", "char", "double", "unsigned int", "unsigned long long", "struct foo_", "mjtNum", "long", "signed char",
           "short", "mjModel", "float", "void"]
NAMES_ODD = ["unsigned  int", "unsigned const", "int*", "", "const", "struct", "3x", "struct  foo_", " int", "int ", "long long long",
             "short long", "unsigned char int", "foo bar", "struct volatile", SPECIAL, "restrict", "int\tlong", "volatile",
             "a_b1", "_x", "long unsigned", "char unsigned short", "x(y)", "x[3]", "unsigned\x1cint", "struct 9"]


def rand_ast(rng, depth, names, odd):
    if depth == 0:
        nm = rng.choice(names)
        t = V(nm, rng.random() < 0.3, rng.random() < 0.15, odd and rng.random() < 0.05)
    else:
        inner = rand_ast(rng, depth - 1, names, odd)
        if rng.random() < 0.4 and (odd and rng.random() < 0.15 or inner["k"] != "A"):
            ext = [rng.choice([1, 2, 3, 4, 7, 10, 16, 100]) for _ in range(rng.choice([1, 1, 1, 2, 2, 3]))]
            if odd and rng.random() < 0.2:
                ext = rng.choice([[], [0], [-3, 2], [2, -1]])
            t = A(inner, ext)
        else:
            t = P(inner, rng.random() < 0.3, rng.random() < 0.12, rng.random() < 0.12, odd and rng.random() < 0.05)
    return t


def exhaustive_asts(maxdepth):
    leaves = [V("int"), V("char", True), V("unsigned int", False, True), V("struct foo_", True, True)]
    wraps = [lambda t: P(t), lambda t: P(t, True), lambda t: P(t, False, True, True), lambda t: A(t, [2]), lambda t: A(t, [2, 3])]
    level = list(leaves)
    out = list(leaves)
    for d in range(maxdepth):
        nxt = []
        for t in level:
            for w in wraps:
                nxt.append(w(t))
        out += nxt
        level = nxt
    return out


def ws_variants(rng, s, k):
    """strings that must mean the same C type: extra white space where white space or punctuation is"""
    out = []
    for _ in range(k):
        t = ""
        for ch in s:
            pad = rng.choice(["", "", "", " ", "  ", "\t", " \n"]) if ch in " *()[]" else ""
            if ch == " ":
                t += " " + pad
            elif ch in "*([":
                t += pad + ch + rng.choice(["", "", " "])
            elif ch in ")]":
                t += rng.choice(["", "", " "]) + ch + (pad if ch == "]" else "")
            else:
                t += ch
        out.append(rng.choice(["", "", " ", "\t"]) + t + rng.choice(["", "", " ", "\n"]))
    return out


def garbage_variants(rng, s, k):
    alphabet = list("()[]** \t_+-0123456789x") + ["const", "volatile", "restrict", " const ", "\x1c", "\x0b", "[", "]", "[]", "[ 3 ]",
                                                  "[1_0]", "[+2]", "[-1]", "[0x1]", "[1__0]", "[_1]", "(*)", "struct ", "unsigned "]
    out = []
    for _ in range(k):
        t = s
        for _ in range(rng.choice([1, 1, 2, 3])):
            i = rng.randrange(len(t) + 1)
            op = rng.random()
            if op < 0.5:
                t = t[:i] + rng.choice(alphabet) + t[i:]
            elif op < 0.8 and t:
                j = min(len(t), i + rng.choice([1, 1, 2, 5]))
                t = t[:i] + t[j:]
            elif t:
                j = rng.randrange(len(t) + 1)
                a, b = min(i, j), max(i, j)
                t = t[:a] + t[a:b][::-1] + t[b:]
        out.append(t)
    return out


# ------------------------------------------------------------------ gcc helpers
def gcc_check(ctx, name, text, extra=()):
    """compile text with gcc -fsyntax-only against the working tree's include; returns (failed static assert ids, other errors)"""
    path = os.path.join(ctx.scratch, name + ".c")
    with open(path, "w") as f:
        f.write(text)
    r = subprocess.run(["gcc", "-std=gnu11", "-fsyntax-only", "-fmax-errors=0", "-w", "-I", os.path.join(ctx.repo, "include"), path]
                       + list(extra), capture_output=True, text=True, timeout=600)
    failed, other = [], []
    for line in r.stderr.split("\n"):
        m = re.search(r':(\d+):\d+: error: static assertion failed: "([^"]*)"', line)
        if m:
            failed.append(m.group(2))
            continue
        m = re.search(r":(\d+):\d+: (?:fatal )?error: (.*)", line)
        if m and os.path.basename(path) in line:
            other.append((int(m.group(1)), m.group(2)))
    if r.returncode != 0 and not failed and not other:
        other.append((0, r.stderr[-800:]))
    return failed, other, path


def run(ctx):
    rng = ctx.rng
    quick = ctx.tier == "quick"
    ctx.coq_props(allowed_axioms=(), extra_targets=["Model/CType.vo"])

    hdr = clang_header_facts(ctx)
    if hdr is None:
        return

    # ---------------------------------------------------------------- request for the implementation
    asts = exhaustive_asts(3 if quick else 4)
    n_exh = len(asts)
    for _ in range(400 if quick else 3000):
        asts.append(rand_ast(rng, rng.randrange(0, 7), NAMES_C, False))
    for _ in range(300 if quick else 2000):
        asts.append(rand_ast(rng, rng.randrange(0, 5), NAMES_C + NAMES_ODD, True))
    for nm in NAMES_C + NAMES_ODD:
        asts.append(V(nm))
        asts.append(P(V(nm, True)))
    if ctx.replay and isinstance(ctx.replay.get("case"), dict) and "ast" in ctx.replay["case"]:
        asts.insert(0, ctx.replay["case"]["ast"])
    req = {"asts": asts, "strings": [], "name": "x"}
    reqp, respp = os.path.join(ctx.scratch, "req1.json"), os.path.join(ctx.scratch, "resp1.json")

    def call(req):
        json.dump(req, open(reqp, "w"))
        r = subprocess.run(["timeout", "600", PY, DRIVER, ctx.repo, reqp, respp], capture_output=True, text=True)
        if r.returncode != 0:
            ctx.broken.append(("build", "introspect modules of the working tree do not load/run", (r.stdout + r.stderr)[-1500:]))
            return None
        return json.load(open(respp))
    resp = call(req)
    if resp is None:
        return
    meta_types = resp["meta_types"]
    # second call: strings derived from the printed strings of the first
    base = sorted(set(m["decl"] for m in meta_types))
    gen_decl = [a["decl"] for a in resp["asts"] if a.get("ok")]
    spell = [s for s in hdr["spellings"] if "unnamed" not in s and "anonymous" not in s]
    strings, skind = [], []

    def add_s(s, kind):
        strings.append(s)
        skind.append(kind)
    for s in base:
        add_s(s, "meta")
    for s in spell:
        add_s(s, "clang")
    pool = base + spell + rng.sample(gen_decl, min(len(gen_decl), 150 if quick else 800))
    for s in pool:
        for v in ws_variants(rng, s, 1 if quick else 2):
            add_s(v, "ws")
    for s in rng.sample(pool, min(len(pool), 300 if quick else len(pool))):
        for v in garbage_variants(rng, s, 2 if quick else 4):
            add_s(v, "garbage")
    for s in ["", " ", "*", "()", "(", ")", "[3]", "int[3]", "int [3] [4]", "int (*)[3]", "int (**)[3]", "int (* const *)[3][4]",
              SPECIAL, SPECIAL + " *", "const " + SPECIAL, "(" + SPECIAL + ")", "int const", "const const int", "int * const const",
              "int * foo", "int (*)(void)", "a(b)c(d)e", "int [[3]", "int [3]]", "int []", "int [ ]", "int [3] x", "* int", "int (x)",
              "int ([3])", "(int)", "((int))", "(*)", "int ()", "int (*)[3] [4]", "int (*) [3]", "int*", "int**const*", "int(*)[3]",
              "unsigned long long int", "long long long", "struct foo_ *", "struct  foo_", "const\tint", "int [0]", "int [-1]",
              "int [1_0]", "int [+7]", "int [1__0]", "int [07]", "int [ 7 ]", "int [7_]"]:
        add_s(s, "hand")
    if ctx.replay and isinstance(ctx.replay.get("case"), dict) and "string" in ctx.replay["case"]:
        strings.insert(0, ctx.replay["case"]["string"])
        skind.insert(0, "replay")
    resp2 = call({"asts": [], "strings": strings, "name": "x"})
    if resp2 is None:
        return
    sres = resp2["strings"]

    # ---------------------------------------------------------------- oracle 1 (python only): round trip on the fragment
    nviol = 0
    n_frag = 0
    for t, a in zip(asts, resp["asts"]):
        if not a.get("ok"):
            if h_wf(t):
                ctx.violation("impl_violation", {"ast": t}, expected="ValueType accepts the name", observed=a,
                              signature={"site": "ast_nodes.ValueType", "class": "valid_name_rejected"}, theorem="C49_parse_decl")
            continue
        if h_wf(t):
            n_frag += 1
            if not a["eq"] and nviol < 5:
                nviol += 1
                ctx.violation("impl_violation", {"ast": t, "decl": a["decl"]}, expected="parse_type(decl(t)) == t",
                              observed=a["parse"], signature={"site": "type_parsing.parse_type", "class": "roundtrip"},
                              theorem="C49_parse_decl")
    for m in meta_types:
        if m["parse"] != m["ast"] and nviol < 8:
            nviol += 1
            ctx.violation("impl_violation", {"ast": m["ast"], "decl": m["decl"], "where": m["where"]},
                          expected="parse_type(decl(t)) == t for a type of the shipped metadata", observed=m["parse"],
                          signature={"site": "type_parsing.parse_type", "class": "roundtrip_metadata"}, theorem="C49_parse_decl")
    for s, k, r in zip(strings, skind, sres):
        if k in ("meta",) and r["decl"] != s and nviol < 10:
            nviol += 1
            ctx.violation("impl_violation", {"string": s}, expected="decl(parse_type(s)) == s for a printed type of the metadata",
                          observed=r, signature={"site": "ast_nodes.decl", "class": "print_parse_image"}, theorem="C49_decl_parse_image")

    # ---------------------------------------------------------------- oracle 2 (gcc): printer and parser denote the right C type
    cnames = set(NAMES_C) | set(hdr["typedefs"].keys()) | set(hdr["records"].keys())
    lines = ["#include <mujoco/mujoco.h>", "struct foo_ { int a; };"]
    ids = {}
    k = 0

    def add_ast_check(t, declstr, what):
        nonlocal k
        if not c_valid(t, cnames) or declstr is None:
            return
        tl, nm, _ = typedef_chain(t, "T%d" % k)
        lines.extend(tl)
        ident = "g%d" % k
        lines.append('_Static_assert(__builtin_types_compatible_p(%s *, __typeof__(%s) *), "%s");' % (nm, declstr, ident))
        ids[ident] = what
        k += 1
    seen = set()
    for m in meta_types:
        if m["decl"] not in seen:
            seen.add(m["decl"])
            add_ast_check(m["ast"], m["decl"], {"kind": "decl", "ast": m["ast"], "decl": m["decl"], "where": m["where"]})
    for t, a in zip(asts, resp["asts"]):
        if a.get("ok") and h_wf(t) and not _has_void_value(t):
            add_ast_check(t, a["decl"], {"kind": "decl", "ast": t, "decl": a["decl"]})
    n_decl_checks = k
    for s, kd, r in zip(strings, skind, sres):
        if kd in ("meta", "clang", "ws") and "error" not in r["parse"] and not _has_void_value(r["parse"]) \
           and all(32 <= ord(ch) < 127 or ch in "\t\n" for ch in s):
            # parser: s must denote the type built structurally from parse_type(s), and decl(parse_type(s)) too
            if c_valid(r["parse"], cnames):
                tl, nm, _ = typedef_chain(r["parse"], "T%d" % k)
                lines.extend(tl)
                ident = "g%d" % k
                lines.append('_Static_assert(__builtin_types_compatible_p(%s *, __typeof__(%s) *) && '
                             '__builtin_types_compatible_p(__typeof__(%s) *, __typeof__(%s) *), "%s");' % (nm, s.replace("\n", " "), r["decl"], s.replace("\n", " "), ident))
                ids[ident] = {"kind": "parse", "string": s, "parse": r["parse"], "decl": r["decl"]}
                k += 1
    failed, other, path = gcc_check(ctx, "types", "\n".join(lines) + "\n")
    for ident in failed[:5]:
        w = ids.get(ident, {})
        if w.get("kind") == "decl":
            ctx.violation("impl_violation", {"ast": w["ast"], "decl": w["decl"], "where": w.get("where")},
                          expected="decl(t) denotes, for gcc, the type built structurally from t (typedef chain)", observed=w["decl"],
                          signature={"site": "ast_nodes.decl", "class": "printed_type_differs"}, theorem="C49_parse_decl")
        else:
            ctx.violation("impl_violation", {"string": w.get("string"), "parse": w.get("parse"), "decl": w.get("decl")},
                          expected="s, the type built from parse_type(s) and decl(parse_type(s)) are compatible types for gcc",
                          observed=w.get("decl"), signature={"site": "type_parsing.parse_type", "class": "parsed_type_differs"},
                          theorem="C49_decl_parse_image")
    if other:
        ln, msg = other[0]
        src = open(path).read().split("\n")
        ctx.broken.append(("oracle", "gcc type-equivalence file does not compile", "line %d: %s | %s" % (ln, msg, src[ln - 1][:300] if 0 < ln <= len(src) else "")))

    # ---------------------------------------------------------------- oracle 3: metadata vs headers, compiled
    cfile = resp["cfile"]
    variadic = sorted(n for n, f in hdr["funcs"].items() if f["variadic"])
    for fn in variadic:   # FunctionDecl cannot express the ellipsis: compare modulo it (listed in the evidence)
        cfile = re.sub(r"(__typeof__\(%s\), [^\n]*?)\)\), \"functions.py:%s:type\"" % (fn, fn), r'\1, ...)), "functions.py:%s:type"' % fn, cfile)
        cfile = re.sub(r"(extern [^\n]*\b%s\([^\n]*)\);" % fn, r"\1, ...);", cfile)
    failed, other, path = gcc_check(ctx, "metadata", cfile)
    cmap = resp["cmap"]
    nrep = 0
    for ident in failed:
        if nrep >= 6:
            break
        nrep += 1
        ctx.violation("impl_violation", {"assert": ident, "file": path}, expected="_Static_assert generated from the metadata holds for the headers",
                      observed="static assertion failed: " + ident,
                      signature={"site": ident.split(":")[0] + ":" + ident.split(":")[1].split(".")[0], "class": ident.split(":")[-1]},
                      theorem="metadata_vs_headers (compiled)")
    for ln, msg in other[:6]:
        ident = cmap.get(str(ln), "line %d" % ln)
        if any(ident == f for f in failed):
            continue
        ctx.violation("impl_violation", {"assert": ident, "file": path, "line": ln}, expected="declaration generated from the metadata compiles against the headers",
                      observed=msg, signature={"site": ident.split(":")[0] + ":" + (ident.split(":")[1].split(".")[0] if ":" in ident else ""), "class": "compile_error"},
                      theorem="metadata_vs_headers (compiled)")

    # completeness / order against clang's view of the headers
    meta = resp["meta"]
    missing_fields = 0
    for key, paths in meta["structs"].items():
        name, declname = meta["struct_names"][key]
        if not paths:
            continue
        hp = hdr["records"].get(declname)
        if hp is None:
            ctx.violation("impl_violation", {"struct": name}, expected="struct defined in the headers", observed="no complete definition of %s" % declname,
                          signature={"site": "structs.py:" + name, "class": "missing_struct"}, theorem="metadata_vs_headers (clang)")
        elif hp != paths:
            missing_fields += 1
            extra_h = [p for p in hp if p not in paths]
            extra_m = [p for p in paths if p not in hp]
            ctx.violation("impl_violation", {"struct": name, "only_in_header": extra_h[:10], "only_in_metadata": extra_m[:10]},
                          expected="same field list in the same order", observed={"order_differs": not extra_h and not extra_m},
                          signature={"site": "structs.py:" + name, "class": "field_list"}, theorem="metadata_vs_headers (clang)")
    for key, consts in meta["enums"].items():
        name, declname = meta["enum_names"][key]
        hc = hdr["enums"].get(declname)
        if hc != [c for c, _ in consts]:
            ctx.violation("impl_violation", {"enum": name, "header": hc, "metadata": [c for c, _ in consts]}, expected="same constants in the same order",
                          observed="constant lists differ", signature={"site": "enums.py:" + name, "class": "constant_list"},
                          theorem="metadata_vs_headers (clang)")
    hdr_only_funcs = sorted(set(hdr["funcs"]) - set(meta["functions"]))
    hdr_only_structs = sorted(n for n, q in hdr["typedefs"].items() if q.startswith("struct ") and n not in meta["structs"])

    # ---------------------------------------------------------------- correspondence with the Coq model
    pre = ("Definition S_ (l : list N) : str := map ascii_of_N l.\n"
           "Definition chk_ast (c : ctype * list N * list N * option ctype * bool) : bool :=\n"
           "  match c with (t, d, dn, p, ok) =>\n"
           "    if ok then str_eqb (decl_chars t) (S_ d) && str_eqb (decl_aux t [\"x\"%char]) (S_ dn) && octype_eqb (parse_chars (S_ d)) p\n"
           "    else true end.\n"
           "Definition chk_name (c : list N * bool) : bool := Bool.eqb (valid_name (S_ (fst c))) (snd c).\n"
           "Definition chk_str (c : list N * option ctype * list N) : bool :=\n"
           "  match c with (s, p, d) => octype_eqb (parse_chars (S_ s)) p &&\n"
           "    match p with Some t => str_eqb (decl_chars t) (S_ d) | None => true end end.\n")
    imports = "From Coq Require Import ZArith NArith Ascii String Bool.\nFrom MJV Require Import Model.CType.\nOpen Scope N_scope.\n"
    ast_cases, ast_src = [], []
    seen = set()
    for m in meta_types:
        key = json.dumps(m["ast"], sort_keys=True)
        if key in seen or not ast_ascii(m["ast"]):
            continue
        seen.add(key)
        ast_cases.append("(%s, %s, %s, %s, true)" % (coq_ast(m["ast"]), codes(m["decl"]), codes(m["decl_named"]), coq_opt_ast(m["parse"])))
        ast_src.append(("meta", m["ast"], m))
    n_meta_distinct = len(ast_cases)
    for t, a in zip(asts, resp["asts"]):
        key = json.dumps(t, sort_keys=True)
        if key in seen or not ast_ascii(t) or not a.get("ok"):
            continue
        seen.add(key)
        ast_cases.append("(%s, %s, %s, %s, true)" % (coq_ast(t), codes(a["decl"]), codes(a["decl_named"]), coq_opt_ast(a["parse"])))
        ast_src.append(("gen", t, a))
    fails = ctx.coq_eval("c49_ast", imports, ast_cases, "chk_ast", pre=pre)
    for i in fails[:3]:
        kind, t, a = ast_src[i]
        ctx.violation("correspondence", {"ast": t}, expected="Model/CType.v decl / decl_aux / parse_type on this AST",
                      observed={"decl": a["decl"], "decl_named": a["decl_named"], "parse": a["parse"]}, found_input=False,
                      theorem="correspondence c49_ast", note="python printer/parser and Coq model disagree on this AST; the oracles did not flag the implementation output")
    # ValueType name validity
    name_cases, name_src = [], []
    seen_n = set()
    for t, a in zip(asts, resp["asts"]):
        u = t
        chain_ok = True
        while u["k"] != "V":
            u = u["inner"]
        nm = u["name"]
        if nm in seen_n or not ascii_ok(nm):
            continue
        # the constructor outcome tells validity only if this AST has exactly one value (always) -> ok flag is the validity
        seen_n.add(nm)
        name_cases.append("(%s, %s)" % (codes(nm), cb(bool(a.get("ok")))))
        name_src.append(nm)
    nfails = ctx.coq_eval("c49_name", imports, name_cases, "chk_name", pre=pre)
    for i in nfails[:3]:
        ctx.violation("correspondence", {"name": name_src[i]}, expected="Model/CType.v valid_name", observed="ValueType(name) " + ("accepted" if name_cases[i].endswith("true)") else "rejected"),
                      found_input=False, theorem="correspondence c49_name")
    str_cases, str_src = [], []
    seen_s = set()
    for s, kd, r in zip(strings, skind, sres):
        if s in seen_s or not ascii_ok(s):
            continue
        if "error" in r["parse"] and r["parse"]["error"] != "ValueError":
            ctx.violation("impl_violation", {"string": s}, expected="parse_type returns a type or raises ValueError", observed=r["parse"],
                          signature={"site": "type_parsing.parse_type", "class": "escaping_" + r["parse"]["error"]}, theorem="C49_parse_total")
            continue
        seen_s.add(s)
        str_cases.append("(%s, %s, %s)" % (codes(s), coq_opt_ast(r["parse"]), codes(r["decl"] or "")))
        str_src.append((s, kd, r))
    sfails = ctx.coq_eval("c49_str", imports, str_cases, "chk_str", pre=pre)
    for i in sfails[:3]:
        s, kd, r = str_src[i]
        ctx.violation("correspondence", {"string": s, "kind": kd}, expected="Model/CType.v parse_type on this string", observed=r, found_input=False,
                      theorem="correspondence c49_str", note="python parser and Coq model disagree on this string; the oracles did not flag the implementation output")

    # ---------------------------------------------------------------- evidence
    nparse_ok = sum(1 for x in str_src if "error" not in x[2]["parse"])
    ctx.cov["evaluations"] = len(ast_cases) + len(name_cases) + len(str_cases)
    ctx.cov["distinct_nontrivial"] = sum(1 for _, t, _ in ast_src if ast_size(t) >= 3) + nparse_ok
    ctx.cov["rule"] = ("AST cases: every distinct type node of structs.py/functions.py (%d distinct of %d nodes), all wrapper chains of depth <= %d over "
                       "{*, * const, * volatile restrict, [2], [2][3]} on 4 qualified leaves (%d), random ASTs inside and outside the fragment; "
                       "string cases: every printed metadata type, clang's spelling of every field/parameter/return type of include/mujoco (%d), "
                       "whitespace variants, garbage mutations, hand-written edge cases; names: every value name used. Non-trivial = AST with >= 2 "
                       "wrappers, or string on which the parser succeeds" % (n_meta_distinct, len(meta_types), 3 if quick else 4, n_exh, len(spell)))
    ctx.cov["samples"] = [{"ast": ast_src[min(len(ast_src) - 1, n_meta_distinct + 77)][1]}, {"string": str_src[len(str_src) // 2][0]}, {"string": str_src[-1][0]}]
    ctx.cov["correspondence_disagreements"] = len(fails) + len(nfails) + len(sfails)
    ctx.cov["exhaustive_part"] = "metadata-vs-header comparison is complete over structs.py/enums.py/functions.py of the tree"
    ctx.cov["support"]["translation_validation"] = {
        "static_asserts": resp["counts"], "static_asserts_total": sum(resp["counts"].values()),
        "failed": len(failed), "compile_errors": len(other),
        "structs": len(meta["structs"]), "struct_fields": sum(len(v) for v in meta["structs"].values()),
        "enums": len(meta["enums"]), "enum_constants": sum(len(v) for v in meta["enums"].values()),
        "functions": len(meta["functions"]),
        "variadic_compared_modulo_ellipsis": variadic,
        "header_functions_not_in_metadata": hdr_only_funcs, "header_struct_typedefs_not_in_metadata": hdr_only_structs,
        "clang_field_lists_compared": sum(1 for v in meta["structs"].values() if v), "clang_enum_lists_compared": len(meta["enums"]),
    }
    ctx.cov["support"]["gcc_type_equivalence"] = {"decl_checks": n_decl_checks, "parse_checks": k - n_decl_checks}
    ctx.cov["support"]["python_roundtrip_in_fragment"] = n_frag
    ctx.cov["explanation"] = ("round-trip theorems proved for all ASTs/strings of the model; model tied to the python code on %d AST, %d name and %d string "
                              "cases; %d compiler-checked assertions tie the metadata to the headers" %
                              (len(ast_cases), len(name_cases), len(str_cases), sum(resp["counts"].values())))


def _has_void_value(t):
    """void values cannot be typedef'd into arrays etc.; only plain pointers to void are C-checked"""
    u = t
    chain = []
    while u["k"] != "V":
        chain.append(u["k"])
        u = u["inner"]
    if u["name"] != "void":
        return False
    return not chain or chain[-1] != "P"
